"""helpers shared by the engines: fresh SQLite databases, exception canonicalisation, temp dirs under /verif/.work"""
import os, shutil, tempfile, itertools, sys
ROOT = os.path.dirname(os.path.dirname(os.path.abspath(__file__)))
WORK = os.path.join(ROOT, '.work')

def workdir(prefix):
    os.makedirs(WORK, exist_ok=True)
    return tempfile.mkdtemp(prefix=prefix + '-', dir=WORK)

def rmtree(p):
    shutil.rmtree(p, ignore_errors=True)

def memory_db(**kw):
    from pony.orm import Database
    db = Database()
    db.bind('sqlite', ':memory:', **kw)
    return db

def file_db(path, **kw):
    from pony.orm import Database
    db = Database()
    db.bind('sqlite', path, create_db=True, **kw)
    return db

def exc_name(e):
    return type(e).__name__

def add_stubs():
    p = os.path.join(ROOT, 'harness', 'stubs')
    if p not in sys.path: sys.path.insert(0, p)
