"""Extra generator for C35: the statements of pony/orm/core.py, dbproviders/sqlite.py and sqlbuilding.py that
Model/RowLock.lean mirrors, looked up in the CURRENT source on every run (AST, no execution) ->
lean/PonyVerif/Gen/RowLockSrc.lean.  Each field says: "the statement the model line relies on is still there, in that
place, in that form".  Props/C35.lean proves `src = Src.expected`; any reshaping of one of these statements breaks that
theorem (fail closed) - the engine's step-by-step correspondence then has to show whether behaviour changed.
"""
import ast, os


def norm(node): return ast.unparse(node)


def find_func(tree, cls, name):
    for node in tree.body:
        if isinstance(node, ast.ClassDef) and node.name == cls:
            for f in node.body:
                if isinstance(f, ast.FunctionDef) and f.name == name: return f
    return None


def stmts(node):
    return [n for n in ast.walk(node) if isinstance(n, ast.stmt)]


def line_of(func, text, kind=None):
    """line of the first statement of `func` whose source (normalised) is `text` (for If: the test + first body line)"""
    if func is None: return None
    for st in stmts(func):
        if kind == 'if' and isinstance(st, ast.If):
            if norm(st.test) + ' -> ' + '; '.join(norm(b) for b in st.body) == text: return st.lineno
        elif kind is None and not isinstance(st, (ast.If, ast.For, ast.While, ast.Try, ast.With, ast.FunctionDef)):
            if norm(st) == text: return st.lineno
    return None


def call_line(func, names):
    if func is None: return None
    ls = [n.lineno for n in ast.walk(func) if isinstance(n, ast.Call) and isinstance(n.func, ast.Attribute) and n.func.attr in names]
    return min(ls) if ls else None


def top_level_in_try(func, text):
    """`text` is a statement directly in the body of the function's first try block (runs whenever the try body runs through)"""
    if func is None: return False
    for st in func.body:
        if isinstance(st, ast.Try):
            return any(norm(x) == text for x in st.body)
    return False


def analyse(repo):
    core = ast.parse(open(os.path.join(repo, 'pony/orm/core.py')).read())
    sqlite = ast.parse(open(os.path.join(repo, 'pony/orm/dbproviders/sqlite.py')).read())
    sqlb = ast.parse(open(os.path.join(repo, 'pony/orm/sqlbuilding.py')).read())
    r, info = {}, {}
    commit = find_func(core, 'SessionCache', 'commit')
    r['commitClearsForUpdate'] = top_level_in_try(commit, 'cache.for_update.clear()')
    r['commitSetsImmediate'] = top_level_in_try(commit, 'cache.immediate = True')
    fdb = find_func(core, 'EntityMeta', '_find_in_db_')
    a = line_of(fdb, 'for_update -> cache.immediate = True', 'if') or line_of(fdb, 'for_update -> database._get_cache().immediate = True', 'if')
    b = call_line(fdb, ('_exec_sql',))
    r['findInDbLocksFirst'] = bool(a and b and a < b)
    af = find_func(core, 'Query', '_actual_fetch')
    a, b = line_of(af, 'query._for_update -> cache.immediate = True', 'if'), call_line(af, ('prepare_connection_for_query_execution', '_exec_sql'))
    r['fetchLocksFirst'] = bool(a and b and a < b)
    su = find_func(core, 'Entity', '_save_updated_')
    a = line_of(su, 'optimistic_session = cache.db_session is None or cache.db_session.optimistic')
    chk = None
    if su is not None:
        for st in stmts(su):
            if isinstance(st, ast.If) and norm(st.test) == 'optimistic_session and obj not in cache.for_update': chk = st.lineno
    r['checkUnlessLockedOrNoCheckSession'] = bool(a and chk and a < chk)
    init = find_func(core, 'DBSessionContextManager', '__init__')
    r['sessionFlags'] = bool(line_of(init, 'db_session.immediate = immediate or ddl or serializable or (not optimistic)')
                             and line_of(init, 'db_session.optimistic = optimistic and (not serializable)'))
    gim = find_func(core, 'EntityMeta', '_get_from_identity_map_')
    r['identityMapMarksLocked'] = bool(line_of(gim, 'for_update -> assert cache.in_transaction; cache.for_update.add(obj)', 'if'))
    fic = find_func(core, 'EntityMeta', '_find_in_cache_')
    r['cacheHitNeedsLock'] = bool(line_of(fic, 'for_update and obj not in cache.for_update -> return (None, unique)', 'if'))
    stm = find_func(sqlite, 'SQLiteProvider', 'set_transaction_mode')
    a = line_of(stm, 'cache.immediate -> provider.acquire_lock()', 'if')
    b = call_line(stm, ('cursor', 'execute'))
    begin = line_of(stm, "sql = 'BEGIN IMMEDIATE TRANSACTION'")
    fin = False
    if stm is not None:
        for st in stm.body:
            if isinstance(st, ast.Try):
                fin = any(isinstance(x, ast.If) and norm(x.test) == 'cache.immediate and (not cache.in_transaction)'
                          and [norm(y) for y in x.body] == ['provider.release_lock()'] for x in st.finalbody)
    order = []
    if stm is not None:
        for node in ast.walk(stm):
            if isinstance(node, ast.If) and norm(node.test) == 'cache.immediate' and any(norm(x) == "sql = 'BEGIN IMMEDIATE TRANSACTION'" for x in node.body):
                for x in node.body:
                    if norm(x) == 'cursor.execute(sql)': order.append('execute')
                    elif norm(x) == 'cache.in_transaction = True': order.append('flag')
    # ... and `in_transaction` becomes True only AFTER the BEGIN went through (a refused BEGIN leaves the session unlocked and not in a transaction)
    r['lockBeforeBegin'] = bool(a and b and begin and a < b and fin and order == ['execute', 'flag'])
    rel = True
    for name in ('commit', 'rollback', 'drop'):
        f = find_func(sqlite, 'SQLiteProvider', name)
        ok = False
        if f is not None:
            for st in f.body:
                if isinstance(st, ast.Try):
                    ok = any(isinstance(x, ast.If) and norm(x.test) == 'in_transaction'
                             and [norm(y) for y in x.body] == ['cache.in_transaction = False', 'provider.release_lock()'] for x in st.finalbody)
        rel = rel and ok
    r['endReleasesLock'] = rel
    acq = find_func(sqlite, 'SQLiteProvider', 'acquire_lock')
    r['acquireOrder'] = bool(acq) and [norm(x) for x in acq.body[:1]] == ['provider.pre_transaction_lock.acquire()'] and \
        any(isinstance(x, ast.Try) and [norm(y) for y in x.body] == ['provider.transaction_lock.acquire()']
            and [norm(y) for y in x.finalbody] == ['provider.pre_transaction_lock.release()'] for x in acq.body)
    sfu = find_func(sqlite, 'SQLiteBuilder', 'SELECT_FOR_UPDATE')
    r['sqliteDropsClause'] = bool(sfu) and any(isinstance(x, ast.Return) and norm(x.value) == 'builder.SELECT(*sections)' for x in sfu.body)
    gfu = find_func(sqlb, 'SQLBuilder', 'SELECT_FOR_UPDATE')
    r['clauseText'] = bool(gfu) and bool(line_of(gfu, "nowait = ' NOWAIT' if nowait else ''")) and bool(line_of(gfu, "skip_locked = ' SKIP LOCKED' if skip_locked else ''")) \
        and bool(line_of(gfu, "return (result, 'FOR UPDATE', nowait, skip_locked, '\\n')"))
    return r


FIELDS = ['commitClearsForUpdate', 'commitSetsImmediate', 'findInDbLocksFirst', 'fetchLocksFirst', 'checkUnlessLockedOrNoCheckSession',
          'sessionFlags', 'identityMapMarksLocked', 'cacheHitNeedsLock', 'lockBeforeBegin', 'endReleasesLock', 'acquireOrder',
          'sqliteDropsClause', 'clauseText']


def render(r):
    b = lambda v: 'true' if v else 'false'
    lines = ['/- GENERATED by harness/gen_rowlock.py from pony/orm/core.py, dbproviders/sqlite.py, sqlbuilding.py -- do not edit. -/',
             'import PonyVerif.Model.RowLock', 'namespace PonyVerif.Gen.RowLockSrc', 'open PonyVerif.Model.RowLock', '',
             '/-- which of the statements mirrored by Model/RowLock.lean are present in the current source -/',
             'def src : Src :=', '  { ' + ',\n    '.join('%s := %s' % (f, b(r[f])) for f in FIELDS) + ' }', '',
             'end PonyVerif.Gen.RowLockSrc', '']
    return '\n'.join(lines)


def regenerate(repo, lean_dir):
    out = os.path.join(lean_dir, 'PonyVerif', 'Gen', 'RowLockSrc.lean')
    try:
        r = analyse(repo)
        text = render(r)
        old = open(out).read() if os.path.exists(out) else None
        if old != text:
            os.makedirs(os.path.dirname(out), exist_ok=True)
            with open(out, 'w') as f: f.write(text)
        return {'RowLockSrc': {'ok': True, 'error': None, 'changed': old != text, 'info': {k: bool(v) for k, v in r.items()}}}
    except Exception as e:
        return {'RowLockSrc': {'ok': False, 'error': '%s: %s' % (type(e).__name__, e), 'info': {}, 'changed': False}}


if __name__ == '__main__':
    import json, sys
    print(json.dumps(analyse(sys.argv[1] if len(sys.argv) > 1 else '/repo'), indent=1))
