"""C18: generate lean/PonyVerif/Gen/DbSessionGen.lean from the CURRENT source of the db_session machinery.

`regenerate(repo, lean_dir)` has the shape of `py2lean.regenerate`; framework.regenerate_all picks up every harness/gen_<name>.py
before the Lean build.  Model/DbSession.lean *uses* the generated definitions at the corresponding places, so the theorems of
Props/C18.lean are re-checked against what the source says on every run:

  pony/orm/core.py  DBSessionContextManager._commit_or_rollback
        canCommit          the if/elif/else chain that assigns `can_commit`, translated statement by statement
        commitBranch       first module-level call made when `can_commit` ('commit' expected), and in the else branch ('rollback')
  DBSessionContextManager._wrap_function.new_func
        loopFuel           the argument of `range(...)` of the retry loop, as arithmetic over `retry`
        doRetry            the chain in the `except:` clause that assigns `do_retry`, translated
        retryGuardRaises   `if not do_retry: raise`
        retryPathRollsBack a `rollback()` call follows that guard in the `except:` clause
        loopExitPassesExc  the `finally:` clause calls `db_session.__exit__(exc_type, exc, tb)` with the names bound by
                           `exc_type, exc, tb = sys.exc_info()`
        commitAfterBody    `result = func(...); commit(); return result`
  DBSessionContextManager._enter / __exit__
        counterAfterEnter / counterAfterExit   the augmented assignments to local.db_context_counter
        exitIsOutermost    the test guarding `_commit_or_rollback` in `__exit__`, over the counter
        exitPassesExc      `_commit_or_rollback(exc_type, exc, tb)` receives `__exit__`'s own parameters
  _wrap_coroutine_or_generator_function.wrapped_interact
        genCounterInside / genCounterAfter    constants assigned to local.db_context_counter on entry / in `finally:`
        suspendRefused     the test that refuses a `yield` (TransactionError), over cache.modified / cache.in_transaction
  pony/flask/__init__.py  _exit_session
        flaskExitPassesType   the first positional argument of `session.__exit__` is `type(exception)` when an exception is given
  pony/orm/integration/bottle_plugin.py  is_allowed_exception
        isAllowedException    the returned boolean expression over isinstance(e, HTTPResponse) / isinstance(e, HTTPError)
        bottleApplyKeywords   keyword names of the db_session(...) call in PonyPlugin.apply
  pony/orm/core.py  Entity._save_created_ / _save_updated_ / _save_deleted_
        rowSavesStartTransaction   every `_exec_sql(...)` call of the three row-saving methods passes start_transaction=True

Anything outside the recognised shapes raises Untranslatable -> {'ok': False}: the framework then reports the property as no
longer shown (the hand-written remainder of the model was validated against a different shape of the source).
"""
import ast, os, sys


class Untranslatable(Exception):
    pass


def find(tree, qualname):
    node = tree
    for part in qualname.split('.'):
        for child in ast.walk(node) if isinstance(node, (ast.FunctionDef, ast.AsyncFunctionDef)) else ast.iter_child_nodes(node):
            if isinstance(child, (ast.FunctionDef, ast.ClassDef, ast.AsyncFunctionDef)) and child.name == part and child is not node:
                node = child; break
        else:
            raise Untranslatable('%s: %r not found' % (qualname, part))
    return node


def u(node):
    return ast.unparse(node)


class Subst(ast.NodeTransformer):
    def __init__(self, env): self.env = env
    def visit_Name(self, node):
        if isinstance(node.ctx, ast.Load) and node.id in self.env:
            return self.env[node.id]
        return node


def bexpr(node, atoms, where):
    """boolean expression -> Lean Bool expression over the atoms (keyed by unparsed source text)"""
    if isinstance(node, ast.BoolOp):
        op = ' && ' if isinstance(node.op, ast.And) else ' || '
        return '(' + op.join(bexpr(v, atoms, where) for v in node.values) + ')'
    if isinstance(node, ast.UnaryOp) and isinstance(node.op, ast.Not):
        return '(!' + bexpr(node.operand, atoms, where) + ')'
    if isinstance(node, ast.Constant) and node.value is True: return 'true'
    if isinstance(node, ast.Constant) and node.value is False: return 'false'
    s = u(node)
    if s in atoms: return atoms[s]
    raise Untranslatable('%s: unknown test %r' % (where, s))


def chain(stmts, target, tests, values, where, env=None):
    """a statement list that (through if/elif/else, local aliases, asserts and `try: target = call except: <reraise>`)
    assigns `target` exactly once on every path -> Lean expression (polymorphic in the value type)"""
    env = dict(env or {})
    for i, st in enumerate(stmts):
        st = Subst(env).visit(ast.parse(u(st)).body[0]) if env else st
        if isinstance(st, ast.Assert): continue
        if isinstance(st, ast.Assign) and len(st.targets) == 1 and isinstance(st.targets[0], ast.Name):
            name = st.targets[0].id
            if name == target:
                if i != len(stmts) - 1: raise Untranslatable('%s: statements after the assignment of %s' % (where, target))
                s = u(st.value)
                if s in values: return values[s]
                raise Untranslatable('%s: unknown value %r for %s' % (where, s, target))
            env[name] = st.value; continue
        if isinstance(st, ast.If):
            if i != len(stmts) - 1: raise Untranslatable('%s: statements after the if-chain' % where)
            if not st.orelse: raise Untranslatable('%s: if without else leaves %s unassigned' % (where, target))
            return '(if %s then %s else %s)' % (bexpr(st.test, tests, where), chain(st.body, target, tests, values, where, env),
                                                chain(st.orelse, target, tests, values, where, env))
        if isinstance(st, ast.Try):
            if i != len(stmts) - 1 or st.orelse or st.finalbody or len(st.handlers) != 1:
                raise Untranslatable('%s: unexpected try shape' % where)
            h = st.handlers[0]
            if h.type is not None or [u(x) for x in h.body] != ['rollback_and_reraise(sys.exc_info())']:
                raise Untranslatable('%s: handler of the predicate call is not `except: rollback_and_reraise(sys.exc_info())`' % where)
            return chain(st.body, target, tests, values, where, env)
        raise Untranslatable('%s: unexpected statement %r' % (where, u(st)[:60]))
    raise Untranslatable('%s: %s is not assigned' % (where, target))


def arith_over(node, var_text, lean_var, where):
    """`<var> + k` / `k + <var>` / `<var>` / `<var> - k` -> Lean Nat/Int expression"""
    s = u(node)
    if s == var_text: return lean_var
    if isinstance(node, ast.BinOp) and isinstance(node.op, (ast.Add, ast.Sub)):
        op = '+' if isinstance(node.op, ast.Add) else '-'
        l, r = node.left, node.right
        if u(l) == var_text and isinstance(r, ast.Constant) and isinstance(r.value, int) and r.value >= 0:
            return '(%s %s %d)' % (lean_var, op, r.value)
        if op == '+' and u(r) == var_text and isinstance(l, ast.Constant) and isinstance(l.value, int) and l.value >= 0:
            return '(%d + %s)' % (l.value, lean_var)
    raise Untranslatable('%s: %r is not arithmetic over %s' % (where, s, var_text))


def first_calls(stmts):
    """names of the plain-name calls made by expression statements, in order (not descending into nested defs)"""
    out = []
    for st in stmts:
        if isinstance(st, ast.Expr) and isinstance(st.value, ast.Call) and isinstance(st.value.func, ast.Name):
            out.append(st.value.func.id)
        elif isinstance(st, ast.Try):
            out += first_calls(st.body)
    return out


def lean_bool(b):
    return 'true' if b else 'false'


def build(repo):
    info = {}
    core = ast.parse(open(os.path.join(repo, 'pony/orm/core.py')).read())
    cls = find(core, 'DBSessionContextManager')

    # ---- _commit_or_rollback -------------------------------------------------------------------------------------
    f = find(cls, '_commit_or_rollback')
    if len(f.body) != 1 or not isinstance(f.body[0], ast.Try): raise Untranslatable('_commit_or_rollback: body is not one try/finally')
    body = f.body[0].body
    if len(body) != 2 or not isinstance(body[1], ast.If) or u(body[1].test) != 'can_commit':
        raise Untranslatable('_commit_or_rollback: expected the can_commit chain followed by `if can_commit:`')
    tests = {'exc_type is None': 'excNone', 'callable(db_session.allowed_exceptions)': 'isCallable'}
    values = {'True': 'yes', 'False': 'no', 'issubclass(exc_type, tuple(db_session.allowed_exceptions))': 'listed',
              'db_session.allowed_exceptions(exc)': 'called'}
    can_commit = chain([body[0]], 'can_commit', tests, values, '_commit_or_rollback')
    then_calls = first_calls(body[1].body); else_calls = first_calls(body[1].orelse)
    info['canCommit'] = can_commit; info['commitBranch'] = then_calls[:1]; info['rollbackBranch'] = else_calls[:1]
    fin = [u(x) for x in f.body[0].finalbody]
    info['clearsSession'] = 'local.db_session = None' in fin

    # ---- _enter / __exit__ ---------------------------------------------------------------------------------------
    def aug(fn, where):
        for st in ast.walk(fn):
            if isinstance(st, ast.AugAssign) and u(st.target) == 'local.db_context_counter':
                if not (isinstance(st.value, ast.Constant) and isinstance(st.value.value, int)):
                    raise Untranslatable('%s: counter step is not a constant' % where)
                return '(c %s %d)' % ('+' if isinstance(st.op, ast.Add) else '-' if isinstance(st.op, ast.Sub) else '?', st.value.value)
        raise Untranslatable('%s: no augmented assignment to local.db_context_counter' % where)
    after_enter = aug(find(cls, '_enter'), '_enter')
    fx = find(cls, '__exit__')
    after_exit = aug(fx, '__exit__')
    if '?' in after_enter + after_exit: raise Untranslatable('counter step uses an unexpected operator')
    guard = None; passes = None
    for st in ast.walk(fx):
        if isinstance(st, ast.If) and any(isinstance(c, ast.Call) and u(c.func) == 'db_session._commit_or_rollback' for c in ast.walk(st)):
            guard = bexpr(st.test, {'local.db_context_counter': '(c != 0)'}, '__exit__')
            call = [c for c in ast.walk(st) if isinstance(c, ast.Call) and u(c.func) == 'db_session._commit_or_rollback'][0]
            params = [a.arg for a in fx.args.args][1:4]
            passes = [u(a) for a in call.args] == params and not call.keywords
    if guard is None: raise Untranslatable('__exit__: no guarded call of _commit_or_rollback')
    info.update(counterAfterEnter=after_enter, counterAfterExit=after_exit, exitIsOutermost=guard, exitPassesExc=passes)

    # ---- _wrap_function.new_func ---------------------------------------------------------------------------------
    nf = find(find(cls, '_wrap_function'), 'new_func')
    loops = [st for st in ast.walk(nf) if isinstance(st, ast.For)]
    if len(loops) != 1: raise Untranslatable('new_func: expected exactly one for loop')
    loop = loops[0]
    if not (isinstance(loop.iter, ast.Call) and u(loop.iter.func) == 'range' and len(loop.iter.args) == 1):
        raise Untranslatable('new_func: the loop does not iterate over range(<expr>)')
    fuel = arith_over(loop.iter.args[0], 'db_session.retry', 'retry', 'new_func loop')
    tries = [st for st in loop.body if isinstance(st, ast.Try)]
    if len(tries) != 1: raise Untranslatable('new_func: expected one try statement in the loop')
    t = tries[0]
    tb = [u(x) for x in t.body]
    commit_after_body = len(tb) == 3 and tb[0].startswith('result = func(') and tb[1] == 'commit()' and tb[2] == 'return result'
    if len(t.handlers) != 1: raise Untranslatable('new_func: expected one except clause')
    h = t.handlers[0]
    bare = h.type is None
    hb = h.body
    if not hb or u(hb[0]) != 'exc_type, exc, tb = sys.exc_info()': raise Untranslatable('new_func: except clause does not start with exc_type, exc, tb = sys.exc_info()')
    rtests = {"getattr(exc, 'should_retry', False)": 'shouldRetry', 'callable(db_session.retry_exceptions)': 'isCallable'}
    rvalues = {'True': 'yes', 'False': 'no', 'issubclass(exc_type, tuple(db_session.retry_exceptions))': 'listed',
               'db_session.retry_exceptions(exc)': 'called'}
    if len(hb) < 3: raise Untranslatable('new_func: except clause too short')
    do_retry = chain([hb[1]], 'do_retry', rtests, rvalues, 'new_func except')
    g = hb[2]
    guard_raises = isinstance(g, ast.If) and u(g.test) == 'not do_retry' and [u(x) for x in g.body] == ['raise'] and not g.orelse
    rolls_back = [u(x) for x in hb[3:]] == ['rollback()']
    if hb[3:] and not rolls_back: raise Untranslatable('new_func: unexpected statements after the retry guard: %r' % [u(x) for x in hb[3:]])
    fb = [u(x) for x in t.finalbody]
    exit_passes = fb == ['db_session.__exit__(exc_type, exc, tb)']
    if not exit_passes and not (len(fb) == 1 and fb[0].startswith('db_session.__exit__(')):
        raise Untranslatable('new_func: finally clause is not a single db_session.__exit__ call: %r' % fb)
    after = [u(x) for x in f.body] and [u(st) for st in ast.walk(nf) if isinstance(st, ast.Expr) and u(st).startswith('reraise(')]
    info.update(loopFuel=fuel, doRetry=do_retry, retryGuardRaises=guard_raises, retryPathRollsBack=rolls_back,
                loopExitPassesExc=exit_passes, commitAfterBody=commit_after_body, bareExcept=bare,
                reraiseAfterLoop=after == ['reraise(exc_type, exc, tb)'])

    # ---- generator wrapper ---------------------------------------------------------------------------------------
    wi = find(find(find(cls, '_wrap_coroutine_or_generator_function'), 'new_gen_func'), 'wrapped_interact')
    consts = []
    def collect(stmts, in_finally):
        for st in stmts:
            if isinstance(st, ast.Assign) and u(st.targets[0]) == 'local.db_context_counter':
                if not (isinstance(st.value, ast.Constant) and isinstance(st.value.value, int)): raise Untranslatable('wrapped_interact: counter is not set to a constant')
                consts.append((in_finally, st.value.value))
            if isinstance(st, ast.Try):
                collect(st.body, in_finally); collect(st.finalbody, True)
    collect(wi.body, False)
    refuse = None
    for st in ast.walk(wi):
        if isinstance(st, ast.If) and any(isinstance(c, ast.Constant) and isinstance(c.value, str) and 'before suspending the generator' in c.value
                                          for c in ast.walk(st)):
            refuse = bexpr(st.test, {'cache.modified': 'modified', 'cache.in_transaction': 'inTransaction'}, 'wrapped_interact suspension test')
    if refuse is None: raise Untranslatable('wrapped_interact: no suspension test (TransactionError "... before suspending the generator")')
    info['suspendRefused'] = refuse
    inside = [v for fin_, v in consts if not fin_]; afterw = [v for fin_, v in consts if fin_]
    if len(inside) != 1 or len(afterw) != 1: raise Untranslatable('wrapped_interact: expected one counter assignment on entry and one in finally')
    info.update(genCounterInside=inside[0], genCounterAfter=afterw[0])

    # ---- Entity._save_created_ / _save_updated_ / _save_deleted_: every statement that writes a row asks for the session's
    # transaction itself (`start_transaction=True`) — a per-object obj.flush() does not go through SessionCache.flush
    ent = find(core, 'Entity')
    saves = {}
    for name in ('_save_created_', '_save_updated_', '_save_deleted_'):
        fn = find(ent, name)
        calls = [c for c in ast.walk(fn) if isinstance(c, ast.Call) and u(c.func).endswith('._exec_sql')]
        if not calls: raise Untranslatable('%s: no _exec_sql call' % name)
        saves[name] = all(any(kw.arg == 'start_transaction' and isinstance(kw.value, ast.Constant) and kw.value.value is True
                              for kw in c.keywords) for c in calls)
    info['rowSavesStartTransaction'] = saves

    # ---- Flask ---------------------------------------------------------------------------------------------------
    fl = ast.parse(open(os.path.join(repo, 'pony/flask/__init__.py')).read())
    ex = find(fl, '_exit_session')
    calls = [c for c in ast.walk(ex) if isinstance(c, ast.Call) and u(c.func) == 'session.__exit__']
    if len(calls) != 1: raise Untranslatable('_exit_session: expected one session.__exit__ call')
    call = calls[0]
    env = {}
    for st in ast.walk(ex):
        if isinstance(st, ast.Assign) and isinstance(st.targets[0], ast.Name): env[st.targets[0].id] = st.value
    param = ex.args.args[0].arg
    def resolves_to_type(node):
        node = env.get(node.id, node) if isinstance(node, ast.Name) else node
        s = u(node)
        return s in ('type(%s) if %s is not None else None' % (param, param), 'None if %s is None else type(%s)' % (param, param),
                     '%s.__class__ if %s is not None else None' % (param, param))
    passes_type = False
    if call.args: passes_type = resolves_to_type(call.args[0])
    for kw in call.keywords:
        if kw.arg == 'exc_type': passes_type = resolves_to_type(kw.value)
    info['flaskExitPassesType'] = passes_type

    # ---- Bottle --------------------------------------------------------------------------------------------------
    bo = ast.parse(open(os.path.join(repo, 'pony/orm/integration/bottle_plugin.py')).read())
    ia = find(bo, 'is_allowed_exception')
    if len(ia.body) != 1 or not isinstance(ia.body[0], ast.Return): raise Untranslatable('is_allowed_exception: body is not a single return')
    p = ia.args.args[0].arg
    allowed = bexpr(ia.body[0].value, {'isinstance(%s, HTTPResponse)' % p: 'isResp', 'isinstance(%s, HTTPError)' % p: 'isErr'}, 'is_allowed_exception')
    ap = find(find(bo, 'PonyPlugin'), 'apply')
    ret = [st for st in ap.body if isinstance(st, ast.Return)]
    if len(ret) != 1 or not (isinstance(ret[0].value, ast.Call) and isinstance(ret[0].value.func, ast.Call) and u(ret[0].value.func.func) == 'db_session'):
        raise Untranslatable('PonyPlugin.apply: not `return db_session(...)(callback)`')
    kws = {kw.arg: u(kw.value) for kw in ret[0].value.func.keywords}
    info.update(isAllowedException=allowed, bottleApplyKeywords=kws)
    return info


def render(info):
    def b(x): return lean_bool(bool(x))
    L = ['/- GENERATED by harness/gen_dbsession.py from pony/orm/core.py, pony/flask/__init__.py, pony/orm/integration/bottle_plugin.py -- do not edit. -/',
         'set_option linter.unusedVariables false', 'namespace PonyVerif.Gen.DbSessionGen', '',
         '/-- `_commit_or_rollback`: the chain assigning `can_commit` (α = result of asking `allowed_exceptions`) -/',
         'def canCommit {α : Type} (yes no : α) (excNone isCallable : Bool) (listed called : α) : α :=',
         '  ' + info['canCommit'], '',
         '/-- `if can_commit:` starts with `commit()`; the else branch with `rollback()`; `finally: local.db_session = None` -/',
         'def commitBranchCommits : Bool := ' + b(info['commitBranch'] == ['commit']),
         'def elseBranchRollsBack : Bool := ' + b(info['rollbackBranch'] == ['rollback']),
         'def clearsSession : Bool := ' + b(info['clearsSession']), '',
         '/-- `_enter` / `__exit__`: the counter steps, the guard of `_commit_or_rollback`, the arguments passed on -/',
         'def counterAfterEnter (c : Int) : Int := ' + info['counterAfterEnter'],
         'def counterAfterExit (c : Int) : Int := ' + info['counterAfterExit'],
         'def exitIsOutermost (c : Int) : Bool := ' + info['exitIsOutermost'],
         'def exitPassesExc : Bool := ' + b(info['exitPassesExc']), '',
         '/-- `new_func`: `for i in range(...)`, the `except:` clause, the `finally:` clause -/',
         'def loopFuel (retry : Nat) : Nat := ' + info['loopFuel'],
         'def doRetry {α : Type} (yes no : α) (shouldRetry isCallable : Bool) (listed called : α) : α :=',
         '  ' + info['doRetry'],
         'def retryGuardRaises : Bool := ' + b(info['retryGuardRaises']),
         'def retryPathRollsBack : Bool := ' + b(info['retryPathRollsBack']),
         'def loopExitPassesExc : Bool := ' + b(info['loopExitPassesExc']),
         'def commitAfterBody : Bool := ' + b(info['commitAfterBody']),
         'def bareExcept : Bool := ' + b(info['bareExcept']),
         'def reraiseAfterLoop : Bool := ' + b(info['reraiseAfterLoop']), '',
         '/-- `wrapped_interact`: when a `yield` is refused (TransactionError), over cache.modified / cache.in_transaction -/',
         'def suspendRefused (modified inTransaction : Bool) : Bool := ' + info['suspendRefused'], '',
         '/-- `wrapped_interact`: the counter while the generator runs / after the step -/',
         'def genCounterInside : Int := %d' % info['genCounterInside'],
         'def genCounterAfter : Int := %d' % info['genCounterAfter'], '',
         '/-- `_save_created_` / `_save_updated_` / `_save_deleted_`: every `_exec_sql` call there passes start_transaction=True -/',
         'def rowSavesStartTransaction : Bool := ' + b(all(info['rowSavesStartTransaction'].values())), '',
         '/-- Flask `_exit_session`: `session.__exit__` receives the exception type when the request failed -/',
         'def flaskExitPassesType : Bool := ' + b(info['flaskExitPassesType']), '',
         '/-- Bottle `is_allowed_exception` over isinstance(e, HTTPResponse) / isinstance(e, HTTPError); the plugin passes it as `allowed_exceptions` only -/',
         'def isAllowedException (isResp isErr : Bool) : Bool := ' + info['isAllowedException'],
         'def bottleOnlyAllowedExceptions : Bool := ' + b(info['bottleApplyKeywords'] == {'allowed_exceptions': 'is_allowed_exception'}), '',
         'end PonyVerif.Gen.DbSessionGen', '']
    return '\n'.join(L)


def regenerate(repo, lean_dir):
    path = os.path.join(lean_dir, 'PonyVerif', 'Gen', 'DbSessionGen.lean')
    try:
        info = build(repo)
        text = render(info)
    except (Untranslatable, SyntaxError, OSError, IndexError, AttributeError) as e:
        return {'DbSessionGen': {'ok': False, 'error': '%s: %s' % (type(e).__name__, e), 'info': {}, 'changed': False}}
    old = open(path).read() if os.path.exists(path) else None
    if old != text:
        os.makedirs(os.path.dirname(path), exist_ok=True)
        with open(path, 'w') as fh: fh.write(text)
    return {'DbSessionGen': {'ok': True, 'error': None, 'info': {k: (v if isinstance(v, (str, int, bool, list, dict)) else repr(v)) for k, v in info.items()},
                             'changed': old != text}}


if __name__ == '__main__':
    import json
    here = os.path.dirname(os.path.abspath(__file__))
    print(json.dumps(regenerate(os.environ.get('VERIF_REPO', '/repo'), os.environ.get('VERIF_LEAN') or os.path.join(here, '..', 'lean')), indent=1))
