"""C19 — connections and the SQLite transaction lock are always released.

Every case = (session shape, state of the thread's pool, fault schedule, injected exception class) is run
  * on the REAL provider: `Database.bind('sqlite', file, factory=TracingConnection)` (harness/tracing.py), locks wrapped
    by recording proxies, inside a fresh worker thread watched by the main thread, and
  * on the Lean model `Model/ConnLock.lean` through the driver, with the same fault schedule.
Correspondence: the recorded DB-API/lock event sequence, the outcome of the session and the final state
(lock, pre-lock, pool.con, pool.pid, Pool.forked_connections, close() calls, db2cache) must be equal -> ctx.divergence.
Property oracle (independent of the model): after the session the lock is free, the cache is gone, every connection
opened is either the thread's pooled connection (open, idle) or was closed exactly once, and a following session in
the same thread and one in another thread finish within the watchdog time -> ctx.violation.
"""
import os, sqlite3, threading, itertools, time, json, multiprocessing

from tracing import Tracer, Fault, Watchdog
import ponyutil

WATCHDOG_S = 2.0

# ---------------------------------------------------------------------------------------------------------------------
# session shapes: options of db_session, the body run on the real code, the same body as a program of the model
# ---------------------------------------------------------------------------------------------------------------------

class BodyError(Exception): pass

def _b_read(E): E.select(E.T)
def _b_write(E): E.T(x=1)
def _b_read_write(E): E.select(E.T); E.T(x=1)
def _b_write_read(E): E.T(x=1); E.select(E.T)
def _b_m2m(E):
    t = E.T(x=1); u = E.U(); u2 = E.U(); t.us.add(u); t.us.add(u2)
def _b_ddl(E): E.db.execute('create table if not exists zz (a int)')
def _b_ddl_commit_mid(E):
    E.db.execute('create table if not exists zz (a int)'); E.commit(); E.db.execute('create table if not exists zz2 (a int)')
def _b_raw_write(E): E.db.execute('insert into raw_t (a) values (1)')
def _b_commit_mid(E): E.T(x=1); E.commit(); E.T(x=2)
def _b_rollback_mid(E): E.T(x=1); E.flush(); E.rollback(); E.select(E.T)
def _b_get_connection(E): E.db.get_connection()
def _b_body_exc(E): E.T(x=1); E.flush(); raise BodyError('body')
def _b_body_exc_noflush(E): E.select(E.T); E.T(x=1); raise BodyError('body')
def _b_caught_write(E):
    try: E.db.execute('insert into raw_t (a) values (2)')
    except Exception: pass
    E.select(E.T)
def _b_caught_read_then_write(E):
    try: E.select(E.T)
    except Exception: pass
    E.T(x=3)
def _b_two_raw(E):
    E.db.execute('insert into raw_t (a) values (1)'); E.select(E.T); E.db.execute('insert into raw_t (a) values (2)')

Q, W, WM = ['query', False], ['write', False, False], ['write', True, False]
S = ['select', False]          # Database._exec_sql(start_transaction=False) without Query._actual_fetch's own prepare

# --- sessions whose flush has NOTHING to write (cache.modified set, no statement), followed by each kind of database access
def _n_create_delete(E): t = E.T(x=7); t.delete()
def _n_add_remove(E):
    t = E.T[1]; u = E.U[1]; t.us.add(u); t.us.remove(u)
NOOPS = {'cd': (_n_create_delete, [['modify', [], False]], False),          # (body, model program, T[1] already loaded)
         'ar': (_n_add_remove, [S, S, ['modify', [], False], S], True)}
ACCESS = {'query': (lambda E: E.select(E.T), lambda loaded: [Q]),
          'db_select': (lambda E: E.db.select('a from raw_t'), lambda loaded: [S]),
          'db_get': (lambda E: E.db.get('count(*) from raw_t'), lambda loaded: [S]),
          'db_exists': (lambda E: E.db.exists('a from raw_t'), lambda loaded: [S]),
          'db_execute': (lambda E: E.db.execute('insert into raw_t (a) values (5)'), lambda loaded: [W]),
          'lazy_load': (lambda E: list(E.T[1].us), lambda loaded: [S] if loaded else [S, S])}

def _noop_shape(nk, ak):
    nb, nprog, loaded = NOOPS[nk]
    ab, aprog = ACCESS[ak]
    def body(E): nb(E); ab(E)
    return ({}, body, nprog + aprog(loaded), False)
NOOP_SHAPES = ['noop_%s_%s' % (nk, ak) for nk in NOOPS for ak in ACCESS]
def MOD(*ws): return ['modify', list(ws), False]
SHAPES = {
    # name: (db_session options, body, model program, bodyRaises)
    'read':            ({}, _b_read, [Q], False),
    'optimistic':      ({}, _b_write, [MOD(False)], False),
    'read_write':      ({}, _b_read_write, [Q, MOD(False)], False),
    'write_read':      ({}, _b_write_read, [MOD(False), Q], False),
    'm2m':             ({}, _b_m2m, [MOD(False, False, False, True)], False),
    'immediate':       ({'immediate': True}, _b_read_write, [Q, MOD(False)], False),
    'immediate_read':  ({'immediate': True}, _b_read, [Q], False),
    'serializable':    ({'serializable': True}, _b_read_write, [Q, MOD(False)], False),
    'pessimistic':     ({'optimistic': False}, _b_read_write, [Q, MOD(False)], False),
    'ddl':             ({'ddl': True}, _b_ddl, [W], False),
    'ddl_commit_mid':  ({'ddl': True}, _b_ddl_commit_mid, [W, ['commit', False], W], False),   # set_transaction_mode runs twice: saved_fk_state
    'raw_write':       ({}, _b_raw_write, [W], False),
    'two_raw':         ({}, _b_two_raw, [W, Q, W], False),
    'commit_mid':      ({}, _b_commit_mid, [MOD(False), ['commit', False], MOD(False)], False),
    'rollback_mid':    ({}, _b_rollback_mid, [MOD(False), ['flush', False], ['rollback', False], Q], False),
    'get_connection':  ({}, _b_get_connection, [['getConnection', False]], False),
    'body_exc':        ({}, _b_body_exc, [MOD(False), ['flush', False]], True),
    'body_exc_noflush': ({}, _b_body_exc_noflush, [Q, MOD(False)], True),
    'caught_write':    ({}, _b_caught_write, [['write', False, True], Q], False),
    'caught_read':     ({}, _b_caught_read_then_write, [['query', True], MOD(False)], False),
    'empty':           ({}, lambda E: None, [], False),
}
for _nk in NOOPS:
    for _ak in ACCESS: SHAPES['noop_%s_%s' % (_nk, _ak)] = _noop_shape(_nk, _ak)
CORE_SHAPES = ['read', 'optimistic', 'immediate', 'serializable', 'ddl']
EXTRA_QUICK = ['ddl_commit_mid']      # non-core shapes that get the full pool coverage in the quick tier too
POOLS = ['fresh', 'warm', 'dropped', 'disconnected']   # state of the thread-local pool when the session under test starts
FOLLOW = ({'immediate': True}, _b_read_write, [Q, MOD(False)], False)
WARM = {'warm': ({}, _b_read, [Q], False), 'dropped': ({'ddl': True}, _b_ddl, [W], False)}
# what the thread does before the session under test: sessions and db.disconnect()
PRE = {'fresh': [], 'warm': [('warm', WARM['warm'])], 'dropped': [('warm', WARM['dropped'])],
       'disconnected': [('warm', WARM['warm']), ('disconnect', None)]}


def test_index(case):
    return len(PRE[case['pool']])

EXC_CLASSES = [sqlite3.OperationalError, sqlite3.IntegrityError, sqlite3.ProgrammingError, sqlite3.DatabaseError,
               sqlite3.InterfaceError, sqlite3.InternalError, sqlite3.DataError, sqlite3.NotSupportedError, sqlite3.Error,
               sqlite3.Warning]
FOREIGN_EXC = [MemoryError, KeyboardInterrupt]    # not dbapi exceptions: wrap_dbapi_exceptions lets them through


INIT_GUARD = [False]   # which SQLitePool._connect the tree under test has (probed on the real code by `probe_init_guard`)


def session_cfg(opts, reconnect, hooks=0):
    ddl = bool(opts.get('ddl'))
    immediate = bool(opts.get('immediate')) or ddl or bool(opts.get('serializable')) or not opts.get('optimistic', True)
    return {'immediate': immediate, 'ddl': ddl, 'reconnect': reconnect, 'initGuard': INIT_GUARD[0], 'onConnect': hooks}


def probe_init_guard(ctx, workdir):
    """Model/ConnLock.lean has both variants of SQLitePool._connect (Cfg.initGuard).  Which one the tree has is observed, not
    assumed: let the first PRAGMA of the first connect of a thread fail and look at pool.con."""
    case = {'id': 999998, 'shape': 'read', 'pool': 'fresh', 'faults': [1], 'reconnect': False, 'exc_class': sqlite3.OperationalError}
    r = real_case(workdir, case)
    st = r['sessions'][0]['state'] if r.get('sessions') else {}
    INIT_GUARD[0] = bool(r.get('sessions')) and st.get('poolCon') is None and 2 in st.get('closed', [])
    ctx.extra['sqlitepool_connect_variant'] = 'guarded (connection closed when its initialisation fails)' if INIT_GUARD[0] else 'as released (pool.con assigned before initialisation)'



# ---------------------------------------------------------------------------------------------------------------------
# the real run
# ---------------------------------------------------------------------------------------------------------------------

class Env(object):
    pass


def build(path, tr, timeout=0.25, hooks=0):
    """a bound database on `path` (tables already created -> no DDL in the traced part)"""
    from pony.orm import Database, Required, Set, db_session, select, commit, rollback, flush
    db = Database()
    class T(db.Entity):
        x = Required(int)
        us = Set('U')
    class U(db.Entity):
        ts = Set(T)
    db.bind('sqlite', path, create_db=True, timeout=timeout, **tr.bind_kwargs())
    tr.wrap_locks(db.provider)        # from the start: a set-up session that blocks is then seen waiting for a lock
    db.generate_mapping(create_tables=True)
    with db_session:
        db.execute('create table if not exists raw_t (a int)')
        db.execute('create table if not exists zz (a int)')
    with db_session:
        T(x=1); U()             # T[1], U[1] for the shapes that work on existing objects
    db.disconnect()
    for i in range(hooks):          # registered after the set-up: the traced part starts with an empty pool anyway
        @db.on_connect(provider='sqlite')
        def hook(db, connection): pass
    E = Env()
    E.db = db; E.T = T; E.U = U; E.db_session = db_session
    E.select = lambda T: select(t for t in T)[:]
    E.commit = commit; E.rollback = rollback; E.flush = flush
    return E


class SetupBlocked(Exception): pass
class Stalled(Exception): pass          # a harness thread made no progress although nobody waits for a lock: machine load, no verdict
STALL_S = 300.0


def wait_thread(t, tr, first):
    """join `t`: 'done' | 'blocked' (it is alive and a thread has been waiting for a provider lock for > WATCHDOG_S) |
    'stalled' (alive after STALL_S without any lock wait)"""
    t.join(first)
    end = time.time() + STALL_S
    while t.is_alive() and time.time() < end:
        if tr.lock_waits:
            t.join(WATCHDOG_S)
            if t.is_alive() and tr.lock_waits: return 'blocked'
        else: t.join(0.2)
    return 'stalled' if t.is_alive() else 'done'
_SETUP_BROKEN = [None]


def build_watched(path, tr, **kw):
    """`build` in a thread of its own: its fault-free sessions must not block either (e.g. on a lock an earlier one kept)"""
    box = {}
    def target():
        try: box['E'] = build(path, tr, **kw)
        except BaseException as e: box['e'] = e
    t = threading.Thread(target=target, name='setup', daemon=True)
    t.start()
    st = wait_thread(t, tr, 5)
    if st == 'blocked': raise SetupBlocked('a fault-free set-up session waits for ever for %r' % (list(tr.lock_waits),))
    if st == 'stalled': raise Stalled('set-up')
    if 'e' in box: raise box['e']
    return box['E']


def outcome_kind(e):
    if e is None: return 'ok'
    from pony.orm import core, dbapiprovider
    if isinstance(e, BodyError): return 'body'
    if isinstance(e, core.CommitException): return 'CommitException'
    if isinstance(e, core.RollbackException): return 'RollbackException'
    if isinstance(e, core.ConnectionClosedError): return 'ConnectionClosedError'
    if isinstance(e, AssertionError): return 'AssertionError'
    if isinstance(e, AttributeError): return 'AttributeError'
    if isinstance(e, (dbapiprovider.DBException, dbapiprovider.Warning)): return 'wrapped'
    # obj._save_() re-wraps the provider's (already wrapped) IntegrityError / DatabaseError
    if isinstance(e, (core.TransactionIntegrityError, core.UnexpectedError)): return 'wrapped'
    if isinstance(e, (sqlite3.Error, sqlite3.Warning, MemoryError, KeyboardInterrupt)): return 'raw'
    if isinstance(e, RuntimeError) and 'unlocked' in str(e): return 'unlocked'
    return 'other:' + type(e).__name__


def run_session(E, opts, body):
    try:
        with E.db_session(**opts):
            body(E)
    except BaseException as e:
        return e
    return None


def snapshot(E, tr):
    from pony.orm import core
    from pony.orm.dbapiprovider import Pool
    prov = E.db.provider
    pool = prov.pool
    return {
        'lock': prov.transaction_lock.locked(), 'pre': prov.pre_transaction_lock.locked(),
        'poolCon': getattr(pool.con, 'trace_id', None) if pool.con is not None else None,
        'poolPid': hasattr(pool, 'pid') and pool.pid is not None,
        'forked': sorted(getattr(c, 'trace_id', -1) for c, pid in Pool.forked_connections),
        'closed': sorted(i for i, n in tr.close_counts().items() for _ in range(n)),
        'hasCache': E.db in core.local.db2cache,
    }


def real_case(workdir, case):
    """runs in a worker thread of its own; returns everything observed"""
    from pony.orm.dbapiprovider import Pool
    from pony.orm import core
    opts, body, _prog, _br = SHAPES[case['shape']]
    tr = Tracer()
    path = os.path.join(workdir, 'c%d.sqlite' % case['id'])
    for ext in ('', '-journal', '-wal', '-shm'):
        if os.path.exists(path + ext): os.remove(path + ext)
    if _SETUP_BROKEN[0] is not None:       # the set-up is deterministic: it failed before, it fails again
        return {'sessions': [], 'blocked': None, 'setup_failed': _SETUP_BROKEN[0]}
    try:
        E = build_watched(path, tr, hooks=case.get('hooks', 0))
    except Stalled:
        return {'sessions': [], 'blocked': None, 'stalled': 'set-up'}
    except BaseException as e:
        _SETUP_BROKEN[0] = '%s: %s' % (type(e).__name__, str(e)[:200])
        # the set-up is itself a sequence of fault-free sessions (bind, generate_mapping, one db_session with two DDL
        # statements, disconnect): when it fails, an earlier fault-free session has broken a later one
        from pony.orm import core
        core.local.db2cache.clear(); core.local.db_session = None; core.local.db_context_counter = 0
        return {'sessions': [], 'blocked': None, 'setup_failed': '%s: %s' % (type(e).__name__, str(e)[:200])}
    if case['reconnect']:
        E.db.provider.should_reconnect = lambda exc: True       # instance attribute of this provider only
    del Pool.forked_connections[:]
    exc_cls = case['exc_class']
    out = {'sessions': [], 'blocked': None}

    def in_thread():
        try: in_thread_()
        except BaseException:
            import traceback
            out['crash'] = traceback.format_exc()

    def in_thread_():
        # the thread-local pool of this fresh thread: con None, no pid attribute
        seq = []
        for name, w in PRE[case['pool']]:
            seq.append((name, w[0], w[1], case['faults']) if w else (name, None, None, case['faults']))
        seq.append(('test', opts, body, case['faults']))
        seq.append(('follow', FOLLOW[0], FOLLOW[1], []))
        out['init'] = {'n': tr.next_index, 'nextCon': len(tr.connections), 'poolPid': getattr(E.db.provider.pool, 'pid', None) is not None,
                       'closed': sorted(i for i, n in tr.close_counts().items() for _ in range(n))}
        base = tr.next_index
        for name, o, b, faults in seq:
            m = tr.mark()
            tr.set_faults([Fault(index=base + k, exc=exc_cls, when=case.get('when')) for k in faults])
            if name == 'disconnect':
                try: E.db.disconnect(); e = None
                except BaseException as e_: e = e_
            else:
                e = run_session(E, o, b)
            tr.clear_faults()
            ss = snapshot(E, tr)
            pc = E.db.provider.pool.con
            ss['pool_in_transaction'] = tr.in_transaction(pc) if pc is not None else False
            ss['pool_open'] = tr.is_open(pc) if pc is not None else None
            out['sessions'].append({'name': name, 'outcome': outcome_kind(e), 'exc': repr(e)[:200] if e is not None else None,
                                    'events': tr.compact(tr.since(m)), 'state': ss})
            if core.local.db2cache or core.local.db_session is not None or core.local.db_context_counter:
                # do not let a broken session poison the following one through thread-local leftovers of THIS harness thread
                out['sessions'][-1]['state']['leftover'] = [len(core.local.db2cache), core.local.db_session is not None, core.local.db_context_counter]
        out['open'] = {c.trace_id: tr.is_open(c) for c in tr.connections}
        out['thread_done'] = True

    t = threading.Thread(target=in_thread, name='case-%d' % case['id'], daemon=True)
    t.start()
    st = wait_thread(t, tr, WATCHDOG_S * 3)
    if st == 'stalled':
        return {'sessions': [], 'blocked': None, 'stalled': 'case thread after %d sessions' % len(out['sessions'])}
    if st == 'blocked':
        out['blocked'] = {'where': 'case thread', 'waits': list(tr.lock_waits), 'sessions_done': len(out['sessions']),
                          'events': tr.compact(tr.events[-12:])}
        return out
    # a session of ANOTHER thread (its own pool, the shared lock, the shared file)
    m = tr.mark()
    def other():
        return run_session(E, FOLLOW[0], FOLLOW[1])
    st, r = Watchdog.run(other, WATCHDOG_S, name='other-%d' % case['id'], slow_ok=lambda: not tr.lock_waits, grace=STALL_S)
    out['other'] = {'status': st if st != 'ok' else ('ok' if r is None else 'raised'), 'exc': repr(r)[:200] if r is not None else None,
                    'waits': list(tr.lock_waits) if st == 'blocked' else []}
    out['lock_after'] = E.db.provider.transaction_lock.locked()
    if st != 'blocked':
        tr.cleanup()
        for ext in ('', '-journal', '-wal', '-shm'):
            if os.path.exists(path + ext):
                try: os.remove(path + ext)
                except OSError: pass
    return out


# ---------------------------------------------------------------------------------------------------------------------
# model side
# ---------------------------------------------------------------------------------------------------------------------

def model_request(case, init, real=None):
    """the model run for a case.  With `real` (the observed run) the oracle handed to the model is exactly the set of
    DB-API calls that really raised — the injected ones plus any failure SQLite produced by itself (e.g. an IntegrityError
    after an artificial reconnect lost the first half of a flush)"""
    opts, _body, prog, br = SHAPES[case['shape']]
    sessions = []
    base = init['n']
    hooks = case.get('hooks', 0)
    faults = [base + k for k in case['faults']]
    for name, w in PRE[case['pool']]:
        if w: sessions.append(dict(session_cfg(w[0], case['reconnect'], hooks), prog=w[2], bodyRaises=w[3], faults=faults))
        else: sessions.append(dict(session_cfg({}, case['reconnect'], hooks), prog=[], bodyRaises=False, faults=faults, disconnect=True))
    sessions.append(dict(session_cfg(opts, case['reconnect'], hooks), prog=prog, bodyRaises=br, faults=faults))
    sessions.append(dict(session_cfg(FOLLOW[0], case['reconnect'], hooks), prog=FOLLOW[2], bodyRaises=FOLLOW[3], faults=[]))
    if real is not None and real.get('sessions') and len(real['sessions']) == len(sessions):
        k = base
        for ms, rs in zip(sessions, real['sessions']):
            observed = []
            for e in rs['events']:
                if len(e) == 4:
                    if e[3] != 'ok': observed.append(k)
                    k += 1
            if sorted(observed) != sorted(ms['faults']): ms['natural_failures'] = True
            ms['faults'] = observed
    return {'op': 'run', 'init': init, 'sessions': sessions}


def canon_real_events(evs):
    out = []
    for e in evs:
        if len(e) == 1: out.append(e); continue
        call, kind, con, oc = e
        if kind in ('insert', 'update', 'delete', 'ddl'): kind = 'write'
        if call == 'connect' and oc != 'ok': con = None
        out.append([call, kind, con, oc])
    return out


def canon_model_events(evs):
    out = []
    for e in evs:
        if len(e) == 1: out.append(e); continue
        call, kind, con, oc = e
        if call == 'connect' and oc != 'ok': con = None
        out.append([call, kind, con, oc])
    return out


STATE_KEYS = ['lock', 'pre', 'poolCon', 'poolPid', 'closed', 'hasCache']


def compare(ctx, case, real, model, foreign):
    """correspondence model <-> real run; returns True when they agree"""
    ok = True
    for i, (rs, ms) in enumerate(zip(real['sessions'], model['sessions'])):
        r_ev, m_ev = canon_real_events(rs['events']), canon_model_events(ms['events'])
        r_out, m_out = rs['outcome'], ms['outcome']
        if foreign:
            r_out = 'raw' if r_out == 'wrapped' else r_out; m_out = 'raw' if m_out == 'wrapped' else m_out
        r_st = {k: rs['state'][k] for k in STATE_KEYS}
        m_st = {k: (sorted(ms['state'][k]) if isinstance(ms['state'][k], list) else ms['state'][k]) for k in STATE_KEYS}
        if case['reconnect'] and 'already used in transaction cache' in (rs.get('exc') or ''):
            # should_reconnect is forced to True on a provider that cannot reconnect inside a transaction: the retried INSERT
            # gets a primary key the identity map already knows and the ORM (not a DB-API call) raises.  Outside the model's
            # oracle (DB-API calls only); the property oracle has judged this run like any other.
            ctx.count('skipped-correspondence:orm-error-after-forced-reconnect')
            break
        if r_ev != m_ev or r_out != m_out or r_st != m_st:
            ok = False
            ctx.divergence('model and real provider disagree on session %d (%s)' % (i, rs['name']), case_json(case),
                           model={'events': m_ev, 'outcome': m_out, 'state': m_st},
                           impl={'events': r_ev, 'outcome': r_out, 'state': r_st, 'exc': rs.get('exc')})
            break
        if ms['state']['bad']:
            ok = False
            ctx.divergence('model reports a failed assertion / lock misuse that the real run did not show', case_json(case), model=ms['state'], impl=r_st)
        if rs['state']['pool_in_transaction'] and not ms['state']['dirty']:
            ok = False
            ctx.divergence('pooled connection is inside a transaction although the model says it is idle', case_json(case), model=ms['state'], impl=rs['state'])
    return ok


def case_json(case):
    return {'shape': case['shape'], 'pool': case['pool'], 'faults': list(case['faults']), 'exc_class': case['exc_class'].__name__,
            'reconnect': case['reconnect'], 'hooks': case.get('hooks', 0), 'when': case.get('when')}


def case_key(case):
    return 'shape=%s;pool=%s;faults=%s;reconnect=%d%s' % (case['shape'], case['pool'], ','.join(map(str, case['faults'])), case['reconnect'],
                                                      (';hooks=%d' % case['hooks'] if case.get('hooks') else '') + (';after' if case.get('when') == 'after' else ''))


def oracle(ctx, case, real):
    """the property itself on the real run; returns the list of problems (strings)"""
    problems = []
    if real.get('setup_failed'):
        return ['fault-free sessions in a row (bind, generate_mapping, a db_session running two DDL statements): a later one failed because of an earlier one: ' + real['setup_failed']]
    if real['blocked']:
        problems.append('the thread of the session blocked for ever (%r)' % (real['blocked'],))
        return problems
    test_i = test_index(case)
    test = real['sessions'][test_i]
    st = test['state']
    if st['lock']: problems.append('transaction_lock is still held after the session ended')
    if st['pre']: problems.append('pre_transaction_lock is still held after the session ended')
    if st['hasCache']: problems.append('the session cache is still registered in local.db2cache')
    if st['forked']: problems.append('connections parked in Pool.forked_connections: %r' % (st['forked'],))
    if st.get('leftover'): problems.append('thread-local session state left behind: %r' % (st['leftover'],))
    # every connection opened so far: pooled (open, idle) or closed exactly once
    counts = {}
    for c in st['closed']: counts[c] = counts.get(c, 0) + 1
    ncons = max([e[2] for s in real['sessions'][:test_i + 1] for e in s['events'] if len(e) == 4 and e[0] == 'connect' and e[3] == 'ok'] + [0]) + 1
    for c in range(ncons):
        n = counts.get(c, 0)
        if st['poolCon'] == c:
            if n: problems.append('connection %d is in the pool although close() was called on it' % c)
            if st['pool_in_transaction']: problems.append('connection %d was returned to the pool inside an open transaction' % c)
        elif n == 0: problems.append('connection %d was neither returned to the pool nor closed (leaked%s)' % (c, ' into Pool.forked_connections' if c in st['forked'] else ''))
        elif n > 1: problems.append('close() was called %d times on connection %d' % (n, c))
    for sess in real['sessions'][:test_i + 2]:
        if 'release unlocked lock' in (sess.get('exc') or ''):
            problems.append('session %r released a transaction lock it did not hold: %s' % (sess['name'], sess['exc']))
    # later sessions
    follow = real['sessions'][test_i + 1]
    if follow['outcome'] != 'ok': problems.append('a following session in the same thread failed: %s' % follow['exc'])
    if follow['state']['lock']: problems.append('lock held after the following session')
    oth = real.get('other')
    if oth is None or oth['status'] != 'ok':
        problems.append('a following session in another thread %s: %r' % ('blocked on %r' % (oth['waits'],) if oth and oth['status'] == 'blocked' else 'failed', oth and oth['exc']))
    return problems


# ---------------------------------------------------------------------------------------------------------------------
# case generation
# ---------------------------------------------------------------------------------------------------------------------

_BASE = {}


def baseline_request(shape, pool, reconnect, hooks=0):
    case = {'shape': shape, 'pool': pool, 'faults': [], 'reconnect': reconnect, 'hooks': hooks}
    return model_request(case, {'n': 0, 'nextCon': 0, 'poolPid': False, 'closed': []})


def load_baselines(ctx):
    """fault-free model runs of every (shape, pool, reconnect, hooks): ONE driver call"""
    keys = [(sh, pool, rc, hk) for sh in SHAPES for pool in POOLS for rc in (False, True) for hk in (0, 1, 2)]
    outs = ctx.driver('C19', [baseline_request(*k) for k in keys])
    for k, out in zip(keys, outs):
        i = len(PRE[k[1]])
        n_before = out['sessions'][i - 1]['state']['n'] if i else 0
        _BASE[k] = (out['sessions'][i]['state']['n'] - n_before, n_before, out['sessions'][i]['events'])


def baseline_len(ctx, shape, pool, reconnect, hooks=0):
    """number of DB-API calls of the session under test without faults (from the model; checked against the real run),
    and the number of calls of the steps before it"""
    if not _BASE: load_baselines(ctx)
    return _BASE[(shape, pool, reconnect, hooks)][:2]


def generate_cases(ctx):
    rng = ctx.rng
    cases = []
    def add(shape, pool, faults, exc=None, reconnect=False, hooks=0, when=None):
        cases.append({'id': len(cases), 'shape': shape, 'pool': pool, 'faults': list(faults), 'reconnect': reconnect, 'hooks': hooks, 'when': when,
                      'exc_class': exc or EXC_CLASSES[len(cases) % len(EXC_CLASSES)]})
    shapes = list(SHAPES)
    for shape in shapes:
        for pool in POOLS:
            if not ctx.thorough and shape not in CORE_SHAPES + EXTRA_QUICK and pool != 'warm' and not (pool == 'fresh' and shapes.index(shape) % 3 == ctx.seed % 3): continue
            n, off = baseline_len(ctx, shape, pool, False)
            add(shape, pool, [])
            # every single fault index of the fault-free run (+ the calls error handling adds: up to 4 more)
            for k in range(n + 4):
                add(shape, pool, [off + k])
            # two faults: the second one falls into the error handling of the first
            pairs = [(a, b) for a in range(n + 2) for b in range(a + 1, min(a + 5, n + 6))]
            if not ctx.thorough:
                pairs = rng.sample(pairs, min(len(pairs), 6 if shape in CORE_SHAPES else 2))
            for a, b in pairs: add(shape, pool, [off + a, off + b])
            if ctx.thorough:
                triples = [(a, a + d1, a + d1 + d2) for a in range(n + 2) for d1 in (1, 2, 3) for d2 in (1, 2)]
                for tpl in rng.sample(triples, min(len(triples), 25)): add(shape, pool, [off + x for x in tpl])
    # should_reconnect = True (instance attribute of the provider): the reconnect path of _exec_sql / prepare_connection
    for shape in (shapes if ctx.thorough else CORE_SHAPES + ['raw_write', 'two_raw', 'caught_write']):
        for pool in (POOLS if ctx.thorough else ['warm']):
            n, off = baseline_len(ctx, shape, pool, True)
            for k in range(n + 4): add(shape, pool, [off + k], reconnect=True)
            pairs = [(a, b) for a in range(n + 2) for b in range(a + 1, min(a + 7, n + 8))]
            # every adjacent pair (the reconnect's own drop/connect fails right after the failure that triggered it) + a sample
            chosen = pairs if ctx.thorough else sorted(set([(a, a + 1) for a in range(n + 2)] + rng.sample(pairs, min(len(pairs), 6))))
            for a, b in chosen: add(shape, pool, [off + a, off + b], reconnect=True)
    # the call is PERFORMED and then reported as failed (e.g. BEGIN really opened the transaction, COMMIT really committed)
    for shape in (shapes if ctx.thorough else CORE_SHAPES + ['raw_write', 'body_exc']):
        for pool in (['fresh', 'warm', 'dropped'] if ctx.thorough else ['warm']):
            n, off = baseline_len(ctx, shape, pool, False)
            for k in range(1 if pool != 'warm' else 0, n + 2): add(shape, pool, [off + k], when='after')     # (not the connect itself)
    # db.disconnect() before the session: its close() fails
    for shape in (shapes if ctx.thorough else CORE_SHAPES):
        n, off = baseline_len(ctx, shape, 'disconnected', False)
        add(shape, 'disconnected', [off - 1])
        add(shape, 'disconnected', [off - 1, off])
    # @db.on_connect hooks: call_on_connect runs func(db, con); con.commit() on every new connection
    for shape in (shapes if ctx.thorough else CORE_SHAPES + ['raw_write']):
        for pool in (['fresh', 'dropped', 'disconnected'] if ctx.thorough else ['fresh', 'dropped']):
            for hooks in ((1, 2) if ctx.thorough else (1 + (shapes.index(shape) + ctx.seed) % 2,)):
                n, off = baseline_len(ctx, shape, pool, False, hooks)
                add(shape, pool, [], hooks=hooks)
                for k in range(min(n, 6 + hooks) if not ctx.thorough else n + 3): add(shape, pool, [off + k], hooks=hooks)
    # exceptions that are not dbapi exceptions
    for shape in CORE_SHAPES:
        n, off = baseline_len(ctx, shape, 'fresh', False)
        ks = range(n + 2) if ctx.thorough else rng.sample(range(n + 2), 4)
        for k in ks: add(shape, 'fresh', [off + k], exc=FOREIGN_EXC[k % 2])
    return cases


# ---------------------------------------------------------------------------------------------------------------------

def _worker(args):
    workdir, case = args
    try:
        return case['id'], real_case(workdir, case)
    except BaseException as e:
        import traceback
        return case['id'], {'crash': traceback.format_exc()}


def run_cases(ctx, cases, workdir):
    procs = min(8, max(1, (os.cpu_count() or 2) // 2), max(1, len(cases) // 50))
    if procs <= 1:
        return dict(_worker((workdir, c)) for c in cases)
    mpctx = multiprocessing.get_context('fork')
    with mpctx.Pool(procs) as pool:
        return dict(pool.imap_unordered(_worker, [(workdir, c) for c in cases], chunksize=8))


def check_cases(ctx, cases, reals):
    for c in cases:
        if reals[c['id']].get('stalled'):
            ctx.count('stalled-under-load-rerun')
            reals[c['id']] = real_case(getattr(ctx, '_c19_workdir', None) or ponyutil.workdir('c19'), c)
    reqs = []
    for c in cases:
        r = reals[c['id']]
        init = r.get('init') or {'n': 0, 'nextCon': 0, 'poolPid': False, 'closed': []}
        reqs.append(model_request(c, init, r))
        if any(x.get('natural_failures') for x in reqs[-1]['sessions']): ctx.count('natural-failures-or-unreached-faults')
    models = ctx.driver('C19', reqs) if ctx.driver.ok else [None] * len(cases)
    for c, m in zip(cases, models):
        r = reals[c['id']]
        cj = case_json(c)
        if r.get('stalled'):
            ctx.divergence('the real run made no progress for %d s, twice, although no thread waited for a provider lock (%s)' % (STALL_S, r['stalled']), cj)
            continue
        if 'crash' in r:
            raise RuntimeError('harness crashed on %r:\n%s' % (cj, r['crash']))
        foreign = c['exc_class'] in FOREIGN_EXC
        ctx.case([cj['shape'], cj['pool'], cj['faults'], cj['reconnect'], cj['hooks'], cj['when']], nontrivial=True,
                 kind='%s%s' % (c['shape'], ':reconnect' if c['reconnect'] else ''))
        ctx.count('faults:%d' % len(c['faults']))
        ctx.count('pool:' + c['pool'])
        if c.get('hooks'): ctx.count('on_connect-hooks:%d' % c['hooks'])
        if c.get('when') == 'after': ctx.count('fault-after-the-call')
        ctx.count('exc:' + c['exc_class'].__name__)
        problems = oracle(ctx, c, r)
        if not r['blocked'] and not r.get('setup_failed'):
            test = r['sessions'][test_index(c)]
            ctx.count('outcome:' + test['outcome'])
            ctx.count('end:' + ('pooled' if test['state']['poolCon'] is not None else 'no-connection-in-pool'))
            for e in test['events']:
                if len(e) == 4 and e[3] != 'ok': ctx.count('fault-hit:%s%s' % (e[0], (':' + e[1]) if e[1] else ''))
                if len(e) == 1: ctx.count('lock-event:' + e[0])
        for p in problems:
            ctx.count('violation:' + violation_key(c, p, r).split(':')[0])
            ctx.violation(p, cj, observed={'sessions': r.get('sessions'), 'other': r.get('other'), 'blocked': r.get('blocked')},
                          expected='lock free, cache closed, every connection pooled-and-idle or closed exactly once, later sessions unaffected',
                          key=violation_key(c, p, r))
        if m is not None and not r['blocked'] and not r.get('setup_failed'):
            if 'driver_error' in m:
                ctx.divergence('driver error', cj, model=m)
            else:
                compare(ctx, c, r, m, foreign)


def half_initialised(case, real):
    """the session under test ended with pool.con assigned but pool.pid missing: a PRAGMA of SQLitePool._connect failed on
    the first connect of the thread (canonical minimal input: shape=read, pool=fresh, faults=[1])"""
    if real.get('blocked') or not real.get('sessions'): return False
    i = test_index(case)
    if len(real['sessions']) <= i: return False
    st = real['sessions'][i]['state']
    return st['poolCon'] is not None and not st['poolPid']


KNOWN_KEY_CONNECT_INIT = 'sqlitepool-connect-init-fault:no-pid'


def violation_key(case, problem, real=None):
    if 'fault-free sessions in a row' in problem: return 'setup-sessions-failed'
    if real is not None and half_initialised(case, real) and ('following session' in problem or 'neither returned' in problem):
        return KNOWN_KEY_CONNECT_INIT
    kind = ('leak' if 'neither returned' in problem else 'double-close' if 'times on connection' in problem else
            'lock-held' if 'still held' in problem else 'blocked' if 'blocked' in problem else
            'pooled-in-transaction' if 'inside an open transaction' in problem else 'later-session-failed' if 'following session' in problem else 'setup-sessions-failed' if 'fault-free sessions in a row' in problem else 'lock-not-held-released' if 'did not hold' in problem else 'other')
    return '%s:%s' % (kind, case_key(case))


def known_defect_replay(ctx, workdir):
    """the witness of `C19_accounting_full_false`: the first connection of a thread whose initialisation PRAGMA fails is
    parked in Pool.forked_connections by the next connect and never closed"""
    case = {'id': 999999, 'shape': 'read', 'pool': 'fresh', 'faults': [1], 'reconnect': False, 'exc_class': sqlite3.OperationalError}
    r = real_case(workdir, case)
    ctx.case(['witness', 'read', 'fresh', [1]], kind='witness:connect-pragma-fault')
    for p in oracle(ctx, case, r):
        ctx.violation(p, case_json(case), observed={'sessions': r.get('sessions')}, key=violation_key(case, p, r))


# ---------------------------------------------------------------------------------------------------------------------
# threads: a faulty session holding the lock while two other sessions queue up behind it
# ---------------------------------------------------------------------------------------------------------------------

THREAD_SHAPES = ['optimistic', 'immediate', 'ddl', 'raw_write', 'm2m', 'commit_mid', 'body_exc', 'read']


def thread_case(workdir, tc):
    """A runs `shape` with a fault (kind, nth) of its own calls; it is paused at its first DB-API call after
    acquire_lock() (it holds the transaction lock) until B waits for that lock (and C, if any, for the pre-lock); then
    everything runs freely."""
    opts, body, _prog, _br = SHAPES[tc['shape']]
    tr = Tracer()
    path = os.path.join(workdir, 't%d.sqlite' % tc['id'])
    for ext in ('', '-journal', '-wal', '-shm'):
        if os.path.exists(path + ext): os.remove(path + ext)
    E = build_watched(path, tr, timeout=2.0)
    mark = tr.mark()
    a_holds, gate = threading.Event(), threading.Event()
    a_in = threading.Event()
    def after(ev):       # (a release is recorded before the lock is really released: do not pause here)
        if ev['i'] is None and ev['call'] == 'pre_release' and ev['thread'] == 'A': a_in.set()
    def before(ev):      # the first DB-API call A makes while it holds the transaction lock
        if ev['thread'] == 'A' and a_in.is_set() and not a_holds.is_set():
            a_holds.set(); gate.wait(10)
    tr.after_call.append(after); tr.before_call.append(before)
    if tc['fault'] is not None:
        tr.set_faults([Fault(call=tc['fault'][0], nth=tc['fault'][1], thread='A', exc=tc['exc_class'])])
    res = {}
    def runner(name, o, b):
        def f():
            e = run_session(E, o, b)
            res[name] = {'outcome': outcome_kind(e), 'exc': repr(e)[:160] if e is not None else None}
        return threading.Thread(target=f, name=name, daemon=True)
    names = ['A'] + ['B', 'C'][:tc['others']]
    threads = {'A': runner('A', opts, body)}
    threads['A'].start()
    def wait_for(pred, secs):
        end = time.time() + secs
        while time.time() < end and not pred(): time.sleep(0.002)
        return pred()
    wait_for(lambda: a_holds.is_set() or 'A' in res, 3.0)
    if tc['others'] >= 1:
        ob = SHAPES[tc['other_shape']] if tc.get('other_shape') else FOLLOW
        threads['B'] = runner('B', ob[0], ob[1]); threads['B'].start()
        wait_for(lambda: ['B', 'acquire'] in tr.lock_waits or 'B' in res, 1.5)
    if tc['others'] >= 2:
        threads['C'] = runner('C', FOLLOW[0], FOLLOW[1]); threads['C'].start()
        wait_for(lambda: ['C', 'pre_acquire'] in tr.lock_waits or ['C', 'acquire'] in tr.lock_waits or 'C' in res, 1.5)
    queued = sorted(w[0] + ':' + w[1] for w in tr.lock_waits)
    gate.set()
    blocked, stalled = [], []
    for n in names:
        w = wait_thread(threads[n], tr, WATCHDOG_S)
        if w == 'blocked': blocked.append(n)
        elif w == 'stalled': stalled.append(n)
    evs = tr.since(mark)
    out = {'names': names, 'results': res, 'blocked': blocked, 'stalled': stalled, 'queued': queued, 'waits': list(tr.lock_waits),
           'lock': E.db.provider.transaction_lock.locked(), 'pre': E.db.provider.pre_transaction_lock.locked(),
           'lock_order': [[e['thread'], e['call'], e['outcome']] for e in evs if e['i'] is None],
           'per_thread': {n: tr.compact([e for e in evs if e['thread'] == n]) for n in names},
           'closes': {str(k): v for k, v in tr.close_counts().items()}}
    return out


def renumber(evs):
    """connection ids in order of first appearance (each thread has its own pool; the model numbers from 0)"""
    m = {}; out = []
    for e in evs:
        if len(e) == 4 and e[2] is not None:
            m.setdefault(e[2], len(m)); e = [e[0], e[1], m[e[2]], e[3]]
        out.append(e)
    return out


def thread_scenarios(ctx, workdir):
    rng = ctx.rng
    tcs = []
    for shape in THREAD_SHAPES:
        baseline_len(ctx, shape, 'fresh', False)
        calls = [e[0] for e in _BASE[(shape, 'fresh', False, 0)][2] if len(e) == 4]
        points = [None]; seen = {}
        for c in calls:
            points.append((c, seen.get(c, 0))); seen[c] = seen.get(c, 0) + 1
        for extra in ('rollback', 'close'):        # calls that only error handling makes
            points.append((extra, seen.get(extra, 0)))
        if not ctx.thorough: points = [None] + rng.sample(points[1:], min(len(points) - 1, 5 if shape in ('read', 'body_exc', 'm2m', 'commit_mid') else 9))
        for pt in points:
            tcs.append({'id': len(tcs), 'shape': shape, 'fault': pt, 'others': 2 if (len(tcs) % 3) else 1,
                        'exc_class': EXC_CLASSES[len(tcs) % len(EXC_CLASSES)]})
    # another thread is inside its transaction while B runs a session whose flush has nothing to write
    for i, sh in enumerate(NOOP_SHAPES):
        if ctx.thorough or i % 3 == ctx.seed % 3:
            for a_shape in (['optimistic', 'immediate', 'ddl'] if ctx.thorough else ['optimistic']):
                tcs.append({'id': len(tcs), 'shape': a_shape, 'fault': None, 'others': 1 + (len(tcs) % 2), 'other_shape': sh,
                            'exc_class': EXC_CLASSES[0]})
    try:
        reals = [thread_case(workdir, tc) for tc in tcs]
        for i, tc in enumerate(tcs):
            if reals[i].get('stalled'):          # no progress although nobody waits for a lock: machine load -> once more, alone
                ctx.count('stalled-under-load-rerun'); reals[i] = thread_case(workdir, tc)
    except Exception as e:
        ctx.note('thread scenarios skipped: set-up failed (%s)' % type(e).__name__); return
    reqs, where = [], []
    for tc, r in zip(tcs, reals):
        inp = {'shape': tc['shape'], 'fault': list(tc['fault']) if tc['fault'] else None, 'others': tc['others'], 'exc_class': tc['exc_class'].__name__}
        if tc.get('other_shape'): inp['thread_B_runs'] = tc['other_shape']
        tc['inp'] = inp
        ctx.case(['threads', inp['shape'], inp['fault'], inp['others'], tc.get('other_shape')], kind='threads:' + tc['shape'] + (':noop-B' if tc.get('other_shape') else ''))
        ctx.count('threads-queued:%d' % len(r['queued']))
        key = 'threads:shape=%s;fault=%s;others=%d%s' % (tc['shape'], '%s#%d' % tc['fault'] if tc['fault'] else '-', tc['others'], (';B=' + tc['other_shape']) if tc.get('other_shape') else '')
        # ---- property oracle on the real threads
        problems = []
        if r['blocked']: problems.append('threads %s never finished; waiting: %r' % (r['blocked'], r['waits']))
        if r['lock'] or r['pre']: problems.append('a provider lock is still held after all sessions ended')
        for n in r['names'][1:]:
            if n in r['results'] and r['results'][n]['outcome'] != 'ok':
                problems.append('the fault-free session of thread %s failed: %s' % (n, r['results'][n]['exc']))
        holder = None
        for th, call, oc in r['lock_order']:
            if oc != 'ok': problems.append('lock misuse: %s by %s raised %s' % (call, th, oc))
            if call == 'acquire':
                if holder is not None: problems.append('transaction_lock acquired by %s while %s holds it' % (th, holder))
                holder = th
            elif call == 'release':
                if holder != th: problems.append('transaction_lock released by %s, holder is %s' % (th, holder))
                holder = None
        for pb in problems:
            ctx.violation(pb, inp, observed=r, expected='mutual exclusion, every thread finishes, locks free at the end', key=key)
        if r.get('stalled'):
            ctx.divergence('threads %s made no progress for %d s, twice, although no thread waited for a provider lock' % (r['stalled'], STALL_S), inp); continue
        if r['blocked']: continue
        # ---- correspondence 1: each thread's own event sequence is what the model predicts for the faults it met
        lock_lists = []
        for n in r['names']:
            evs = renumber(canon_real_events(r['per_thread'][n]))
            lock_lists.append([e[0] for e in evs if len(e) == 1])
            db = [e for e in evs if len(e) == 4]
            faults = [i for i, e in enumerate(db) if e[3] != 'ok']
            o, b, prog, br = SHAPES[tc['shape']] if n == 'A' else SHAPES[tc['other_shape']] if (n == 'B' and tc.get('other_shape')) else FOLLOW
            reqs.append({'op': 'run', 'init': {'n': 0, 'nextCon': 0, 'poolPid': False, 'closed': []},
                         'sessions': [dict(session_cfg(o, False), prog=prog, bodyRaises=br, faults=faults)]})
            where.append(('thread', tc, r, n, evs))
        # ---- correspondence 2: the observed global order of lock events is a run of the interleaving model
        idx = {n: i for i, n in enumerate(r['names'])}
        reqs.append({'op': 'schedule', 'threads': lock_lists, 'schedule': [idx[th] for th, call, oc in r['lock_order']]})
        where.append(('schedule', tc, r, None, None))
    outs = ctx.driver('C19', reqs)
    for (what, tc, r, n, evs), m in zip(where, outs):
        if 'driver_error' in m:
            ctx.divergence('driver error', tc['inp'], model=m); continue
        if what == 'thread':
            m_ev = canon_model_events(m['sessions'][0]['events'])
            if m_ev != evs or m['sessions'][0]['outcome'] != r['results'].get(n, {}).get('outcome'):
                ctx.divergence('thread %s: model and real session disagree' % n, tc['inp'], model={'events': m_ev, 'outcome': m['sessions'][0]['outcome']},
                               impl={'events': evs, 'outcome': r['results'].get(n)})
        else:
            if not all(m['enabled']) or m['pre'] or m['tx'] or not all(m['finished']) or m['holders_tx'] != 0:
                ctx.divergence('the observed order of lock operations is not a run of the interleaving model', tc['inp'], model=m,
                               impl={'lock_order': r['lock_order']})


# ---------------------------------------------------------------------------------------------------------------------
# the contract of Pool.release / Pool.drop the model relies on: `assert con is pool.con`, nothing else of the pool changes
# ---------------------------------------------------------------------------------------------------------------------

def pool_contract(ctx, workdir):
    """Pool.release(con) / Pool.drop(con) are called directly on the real pool of a warmed-up thread, with the pooled
    connection and with a connection the pool did not hand out; outcome, pool.con, pool.pid and close() calls are compared
    with `poolRelease` / `poolDrop` of the model (which keep `assert con is pool.con` and never touch pool.pid)."""
    res = []
    def in_thread():
        for call in ('release', 'drop'):
            for foreign in (True, False):
                tr = Tracer()
                path = os.path.join(workdir, 'pc-%s-%d.sqlite' % (call, foreign))
                E = build_watched(path, tr)
                run_session(E, {}, _b_read)
                pool = E.db.provider.pool
                pooled = pool.con
                other = sqlite3.connect(path, factory=tr.Connection) if foreign else None
                con = other if foreign else pooled
                pool.pid = 424242                       # a pid of "another process": release/drop must not re-stamp it
                try: getattr(pool, call)(con); outcome = 'ok'
                except BaseException as e: outcome = outcome_kind(e)
                res.append({'call': call, 'foreign': foreign, 'outcome': outcome, 'pooled': pooled.trace_id, 'con': con.trace_id,
                            'poolCon': getattr(pool.con, 'trace_id', None) if pool.con is not None else None,
                            'pid_kept': pool.pid == 424242,
                            'closed': sorted(i for i, n in tr.close_counts().items() for _ in range(n) if i in (pooled.trace_id, con.trace_id))})
                tr.cleanup()
    def guarded():
        try: in_thread()
        except Exception as e: ctx.note('pool contract skipped: set-up failed (%s)' % type(e).__name__)
    t = threading.Thread(target=guarded, name='pool-contract'); t.start(); t.join(60)
    outs = ctx.driver('C19', [{'op': 'pool_api', 'call': r['call'], 'poolCon': r['pooled'], 'con': r['con']} for r in res])
    for r, m in zip(res, outs):
        inp = {'pool_api': r['call'], 'connection': 'not the pooled one' if r['foreign'] else 'the pooled one'}
        ctx.case(['pool-contract', r['call'], r['foreign']], kind='pool-contract')
        real = {'outcome': r['outcome'], 'poolCon': r['poolCon'], 'closed': r['closed'], 'pool.pid unchanged': r['pid_kept']}
        model = {'outcome': m.get('outcome'), 'poolCon': m.get('poolCon'), 'closed': sorted(m.get('closed', [])), 'pool.pid unchanged': True}
        if real != model:
            ctx.divergence('Pool.%s(%s) behaves differently from the model' % (r['call'], inp['connection']), inp, model=model, impl=real)
        # the property on this concrete call: the connection the pool held is still pooled, or was closed exactly once
        n_closed = r['closed'].count(r['pooled'])
        if not ((r['poolCon'] == r['pooled'] and n_closed == 0) or (r['poolCon'] != r['pooled'] and n_closed == 1)):
            ctx.violation('after Pool.%s(%s) the connection the pool held is neither pooled nor closed exactly once (pool.con=%r, close() calls=%d)'
                          % (r['call'], inp['connection'], r['poolCon'], n_closed), inp, observed=real,
                          expected='AssertionError, pool unchanged' if r['foreign'] else 'pooled and idle, or closed once',
                          key='pool-api:%s:%s' % (r['call'], 'foreign' if r['foreign'] else 'pooled'))


def run(ctx):
    if not ctx.driver.ok:
        ctx.note('driver unavailable: correspondence skipped, property oracle only')
    workdir = ponyutil.workdir('c19')
    try:
        _SETUP_BROKEN[0] = None
        ctx._c19_workdir = workdir
        probe_init_guard(ctx, workdir)
        _BASE.clear()
        cases = generate_cases(ctx) if ctx.driver.ok else []
        t0 = time.time()
        reals = run_cases(ctx, cases, workdir)
        ctx.extra['real_runs_s'] = round(time.time() - t0, 1)
        check_cases(ctx, cases, reals)
        known_defect_replay(ctx, workdir)
        if ctx.driver.ok:
            pool_contract(ctx, workdir)
            t0 = time.time()
            thread_scenarios(ctx, workdir)
            ctx.extra['thread_runs_s'] = round(time.time() - t0, 1)
    finally:
        ponyutil.rmtree(workdir)


def replay(ctx, data):
    inp = data.get('input') or {}
    if 'shape' not in inp: return run(ctx)
    workdir = ponyutil.workdir('c19')
    ctx._c19_workdir = workdir
    try:
        probe_init_guard(ctx, workdir)
        exc = getattr(sqlite3, inp.get('exc_class', 'OperationalError'), None) or {'MemoryError': MemoryError, 'KeyboardInterrupt': KeyboardInterrupt}[inp['exc_class']]
        case = {'id': 0, 'shape': inp['shape'], 'pool': inp['pool'], 'faults': inp['faults'], 'reconnect': inp.get('reconnect', False), 'hooks': inp.get('hooks', 0), 'when': inp.get('when'), 'exc_class': exc}
        reals = {0: real_case(workdir, case)}
        check_cases(ctx, [case], reals)
    finally:
        ponyutil.rmtree(workdir)
