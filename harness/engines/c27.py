"""C27 — objects keep their class and polymorphic queries are exact.

Tie (model <-> code, through the Lean driver), on random hierarchies (<= 6 classes, one or two roots, single and diamond-shaped multiple
inheritance, default / custom string / integer discriminators, custom discriminator column):
  * hier       : `_all_bases_`, `_subclasses_`, the IN-list of `_construct_discriminator_criteria_`, `Discriminator.code2cls`, issubclass
  * refine     : the decision chain of `_get_from_identity_map_` driven directly (object of class c in the identity map, read / write bits
                 forced, asked for as entity e) vs `Hier.refine`
  * isinstance : the condition `FuncIsinstanceMonad` puts into the translator's AST vs `Hier.isinstanceSql`, and its value on every stored row
Property oracle (real Pony, real SQLite): objects of every class are created, then reached in later sessions through every access path in a
random order — E[pk] / E.get(...) on every base and on unrelated classes, select over every entity, select_by_sql / get_by_sql, to-one
references typed with a base class (holder loaded first or not), one-to-many and many-to-many collections, queries returning the referenced
objects, isinstance(x, S) / isinstance(x, (S, T)) / not isinstance inside queries — and `type(obj)` / the result sets are compared with the
class each object was created as.
"""
import itertools
from pony.orm import Database, Required, Optional, Set, Discriminator, db_session, select, exists, count, ObjectNotFound, rollback, flush
from pony.orm import core

# ----------------------------------------------------------------------------------------------- hierarchies

def gen_hier(rng, n=None, mode=None):
    """classes E0..E(n-1) in definition order; bases[i] ⊆ earlier classes with one common root (Pony's diamond rule)"""
    n = n or rng.choice([2, 3, 4, 4, 5, 5, 6, 6])
    bases = [[]]; root = [0]
    if n >= 4 and rng.random() < 0.35:
        # a proper diamond first: two sibling branches under one root and a class inheriting from both
        bases = [[], [0], [0], rng.choice([[1, 2], [2, 1]])]; root = [0, 0, 0, 0]
    def sub(j, i): return j == i or any(sub(b, i) for b in bases[j])
    for i in range(len(bases), n):
        if i >= 3 and rng.random() < 0.12:
            bases.append([]); root.append(i); continue          # a second, unrelated hierarchy
        b = rng.randrange(0, i)
        bs = [b]
        same = [j for j in range(i) if root[j] == root[b] and j != b]
        branch = [j for j in same if not sub(j, b) and not sub(b, j)]          # another branch: a real diamond
        if same and rng.random() < 0.4:
            b2 = rng.choice(branch) if branch and rng.random() < 0.8 else rng.choice(same)
            bs = [b, b2]            # (hierarchies CPython's MRO refuses are skipped by the caller)
        bases.append(bs); root.append(root[b])
    mode = mode or rng.choice(['default', 'default', 'str', 'int', 'mixed', 'strcol'])
    return {'n': n, 'bases': bases, 'root': root, 'mode': mode, 'vals': discr_values(rng, n, root, mode)}


def discr_values(rng, n, root, mode):
    """custom discriminator values; a root gets a FALSY value (0 / '') half of the time — Pony accepts them, and code that tests the value
    for truth instead of `is not None` treats such a class as if it had no discriminator"""
    vals = []
    falsy_root = rng.random() < 0.5
    for i in range(n):
        if mode == 'default': vals.append(None)
        elif mode in ('str', 'strcol'): vals.append('' if falsy_root and root[i] == i else 'k%d' % (i * 7 % 10) + 'x' * i)
        elif mode == 'int': vals.append(0 if falsy_root and root[i] == i else 10 * i + 3)
        else: vals.append(None if rng.random() < 0.5 else 'c%d' % i)
    return vals


def mro_ok(bases):
    """can CPython linearise the hierarchy (C3)?"""
    try:
        cls = []
        for bs in bases:
            cls.append(type('X', tuple(cls[b] for b in bs) or (object,), {}))
        return True
    except TypeError:
        return False


def build(h, file=None):
    """the real entities for hierarchy `h` plus a holder entity H referencing them"""
    db = Database()
    n = h['n']; E = []
    singleton = [i for i in range(n) if h['root'][i] == i and not any(h['root'][j] == i for j in range(n) if j != i)]
    has_sub = n > 1 and any(h['bases'][i] for i in range(n))
    subk = h.get('subk')
    for i in range(n):
        attrs = {'f%d' % i: Optional(int)}
        if not h['bases'][i]:
            attrs['a'] = Optional(int); attrs['tag'] = Optional(str)
            if i == 0:
                attrs['h_ref'] = Optional('H', reverse='ref0')
                attrs['h_refs'] = Set('H', reverse='refs0')
                attrs['owner'] = Optional('H', reverse='many')
                attrs['h_mrefs'] = Set('H', reverse='mref')          # many-to-one: the foreign key lives in H, the target is first seen as a seed
            if h['mode'] == 'int' and i not in singleton: attrs['kind'] = Discriminator(int, column='knd')
            if h['mode'] == 'strcol' and i not in singleton: attrs['dt'] = Discriminator(str, column='dtype')
        if i == subk: attrs['h_sub'] = Optional('H', reverse='sub')
        if h['vals'][i] is not None and i not in singleton: attrs['_discriminator_'] = h['vals'][i]
        E.append(type('E%d' % i, tuple(E[b] for b in h['bases'][i]) or (db.Entity,), attrs))
    hattrs = {'ref0': Optional('E0'), 'refs0': Set('E0'), 'many': Set('E0'), 'mref': Optional('E0')}
    if subk is not None: hattrs['sub'] = Optional('E%d' % subk)
    H = type('H', (db.Entity,), hattrs)
    db.bind('sqlite', file or ':memory:', **({'create_db': True} if file else {}))
    db.generate_mapping(create_tables=True)
    return db, E, H


def is_sub(h, j, i):
    """Python reference: issubclass(Ej, Ei)"""
    if j == i: return True
    return any(is_sub(h, b, i) for b in h['bases'][j])


def codes(E):
    """integer codes for the discriminator values (equal values OF ONE HIERARCHY -> equal codes; every root has its own column and code2cls)"""
    m = {}
    out = []
    for e in E:
        v = e._discriminator_
        out.append(m.setdefault(('v', e._root_.__name__, v) if v is not None else ('none', e.__name__), len(m)))
    return out, m


# ----------------------------------------------------------------------------------------------- tie: hierarchy tables

def hier_tie(ctx, h, E, reqs, checks):
    n = h['n']
    code, cmap = codes(E)
    idx = {e: i for i, e in enumerate(E)}
    real = {
        'allBases': [sorted(idx[b] for b in e._all_bases_) for e in E],
        'subclasses': [sorted(idx[s] for s in e._subclasses_) for e in E],
        'isSub': [[issubclass(E[a], E[b]) for b in range(n)] for a in range(n)],
    }
    crit, parse = [], []
    for i, e in enumerate(E):
        c = e._construct_discriminator_criteria_()
        if c is None: crit.append(None); parse.append(None); continue
        assert c[0] == 'IN' and c[1][0] == 'COLUMN' and c[1][2] == e._discriminator_attr_.column, c
        crit.append(sorted(cmap[('v', e._root_.__name__, v[1])] for v in c[2]))
        parse.append(idx[e._discriminator_attr_.code2cls[e._discriminator_]])
    real['criteria'] = crit; real['parse'] = parse
    reqs.append({'op': 'hier', 'bases': h['bases'], 'discr': code})
    checks.append(('hier', h, real))
    # the class a full row gets: the real `_parse_row_` on a fabricated row (discriminator of class r, fetched for entity e) vs `rowClass`
    rows = []
    with db_session:
        E[0]._database_._get_cache()
        for e in E:
            select_list, attr_offsets = e._construct_select_clause_()
            line = []
            for r in E:
                if not issubclass(r, e): line.append(None); continue
                row = [None] * (len(select_list) - 1)
                for attr in e._pk_attrs_: row[attr_offsets[attr][0]] = 1
                if e._discriminator_attr_ is not None: row[attr_offsets[e._discriminator_attr_][0]] = r._discriminator_
                try: line.append(idx[e._parse_row_(tuple(row), attr_offsets)[0]])
                except Exception as ex: line.append('raised ' + type(ex).__name__)
            rows.append(line)
    reqs.append({'op': 'rowclass', 'bases': h['bases'], 'discr': code, 'hasDiscr': [1 if e._discriminator_attr_ is not None else 0 for e in E]})
    checks.append(('rowclass', h['bases'], rows))
    return code


def compare_hier(ctx, h, real, out):
    n = h['n']
    ctx.case(['hier', h['bases'], h['mode']], kind='tie:hier:%d-classes' % n)
    if any(len(b) > 1 for b in h['bases']): ctx.count('hier:multiple-inheritance')
    if len(set(h['root'])) > 1: ctx.count('hier:two-roots')
    if any(v is not None and not v for v in h['vals']): ctx.count('hier:falsy-root-discriminator')
    ctx.count('hier:mode:' + h['mode'])
    model = {'allBases': [sorted(set(x)) for x in out['allBases']], 'subclasses': [sorted(set(x)) for x in out['subclasses']], 'isSub': out['isSub']}   # the code keeps sets
    for k in model:
        if model[k] != real[k]:
            ctx.divergence('hierarchy tables: model and real classes disagree on ' + k, h['bases'], model=model[k], impl=real[k])
    for i in range(n):
        if real['criteria'][i] is None: continue      # an entity without subclasses and without a discriminator
        if sorted(set(out['criteria'][i])) != sorted(set(real['criteria'][i])) or len(out['criteria'][i]) != len(real['criteria'][i]):
            ctx.divergence('discriminator criteria: model and _construct_discriminator_criteria_ disagree', [h['bases'], i], model=out['criteria'][i], impl=real['criteria'][i])
        if out['parse'][i] != real['parse'][i]:
            ctx.divergence('code2cls: model and real dict disagree', [h['bases'], i], model=out['parse'][i], impl=real['parse'][i])
    # the theorem's statement evaluated on the real tables: row of class r selected by criteria(e)  <=>  issubclass(r, e)
    for e in range(n):
        for r in range(n):
            if real['criteria'][e] is None or h['root'][e] != h['root'][r]: continue
            if out['selects'][e][r] != is_sub(h, r, e):
                ctx.divergence('criteria do not select exactly the subclasses (C27_criteria would be violated)', [h['bases'], e, r], model=out['selects'][e][r], impl=is_sub(h, r, e))


# ----------------------------------------------------------------------------------------------- tie: refinement decision

def refine_tie(ctx, h, db, E, code, pks, reqs, checks):
    rng = ctx.rng
    n = h['n']
    trials = []
    for _ in range(ctx.scale(14, 40)):
        c = rng.randrange(n); e = rng.randrange(n)
        if h['root'][c] != h['root'][e] and rng.random() < 0.8: continue
        if E[c]._pk_attrs_ != E[e]._pk_attrs_: continue
        rb = rng.choice([0, 0, 0, 1, 2]); wb = rng.choice([0, 0, 0, 1])
        trials.append((c, e, rb, wb))
    for c, e, rb, wb in trials:
        if h['root'][c] != h['root'][e]: continue     # different tables: different identity-map indexes, the chain is never entered
        pk = 900 + len(checks)
        with db_session:
            obj = E[c]._get_from_identity_map_(pk, 'loaded')
            obj._rbits_ = rb; obj._wbits_ = wb
            try:
                obj2 = E[e]._get_from_identity_map_(pk, 'loaded')
                real = {'ok': E.index(type(obj2))} if obj2 is obj else {'error': 'another object returned'}
            except NotImplementedError: real = {'error': 'NotImplementedError'}
            except core.TransactionError: real = {'error': 'TransactionError'}
            obj._rbits_ = obj._wbits_ = 0
            rollback()
        # the layout test of the code, evaluated on the real `_bits_` tables (its meaning is theorem C27_refine_bits_meaning)
        compat = not any(E[e]._bits_.get(attr) != bit for attr, bit in E[c]._bits_.items())
        ctx.count('refine-layout:' + ('compatible' if compat else 'incompatible'))
        reqs.append({'op': 'refine', 'bases': h['bases'], 'discr': code, 'cls': c, 'entity': e, 'rbits': rb, 'wbits': wb, 'compat': compat})
        checks.append(('refine', [h['bases'], c, e, rb, wb, compat], real))


# ----------------------------------------------------------------------------------------------- tie: table references and the discriminator filter

class _FakeRoot(object): optimize = None; from_optimized = False
class _FakeTranslator(object): root_translator = _FakeRoot()
class FakeSqlQuery(object):
    """what TableRef / JoinedTableRef .make_join touch of a SqlQuery: FROM list, conditions, aliases, join_table"""
    def __init__(self):
        self.from_ast = ['FROM']; self.conditions = []; self.joins = []; self.n = 0; self.translator = _FakeTranslator()
    def make_alias(self, name): self.n += 1; return '%s-%d' % (name, self.n)
    def join_table(self, parent_alias, alias, table_name, join_cond): self.joins.append((alias, table_name, list(join_cond)))


def _is_criteria(c, entity):
    a = entity._discriminator_attr_
    return isinstance(c, (list, tuple)) and len(c) == 3 and c[0] == 'IN' and c[1][0] == 'COLUMN' and a is not None and c[1][2] == a.column


def join_tie(ctx, h, E, H, reqs, checks):
    """the REAL make_join methods driven with random sequences of pk_only flags on real entities / attributes (SqlQuery replaced by a recorder)
    vs Model/JoinDiscr (whose guards are regenerated from the source)"""
    from pony.orm import sqltranslation as st
    rng = ctx.rng
    def calls(): return [rng.random() < 0.5 for _ in range(rng.choice([1, 1, 2, 3, 4]))]
    for e in E + [H]:
        for cls_name in ('tableref', 'star'):
            cs = calls(); sq = FakeSqlQuery()
            t = st.TableRef(sq, 'v', e) if cls_name == 'tableref' else st.StarTableRef(sq, 'v', e, ['SELECT', ['ALL', ['COLUMN', None, 'id']], ['FROM', ['t', 'TABLE', 'x']]])
            for pk in cs: t.make_join(pk_only=pk)
            real = {'joined': t.joined, 'fromItems': sum(1 for f in sq.from_ast[1:] if f[0] == t.alias), 'filters': sum(1 for c in sq.conditions if _is_criteria(c, e))}
            reqs.append({'op': 'joins', 'kind': cls_name, 'hasDiscr': e._discriminator_attr_ is not None, 'calls': cs})
            checks.append(('joins', [cls_name, e.__name__, cs], real))
    attrs = [a for a in H._attrs_ if a.reverse] + [a for a in E[0]._attrs_ if a.reverse]
    for attr in attrs:
        for _ in range(2):
            cs = calls(); sq = FakeSqlQuery()
            parent = st.TableRef(sq, 'p', attr.entity)
            jt = st.JoinedTableRef(sq, 'p-' + attr.name, parent, attr)
            target = attr.py_type
            for pk in cs: jt.make_join(pk_only=pk)
            kind = ('fkLeft' if attr.columns else 'o2oRight') if not attr.is_collection else ('o2m' if not attr.reverse.is_collection else 'm2m')
            m2m_table = attr.table if kind == 'm2m' else None
            ej = [j for j in sq.joins if j[1] == target._table_ and j[1] != m2m_table]
            real = {'joined': jt.joined, 'optimized': bool(jt.optimized), 'entityJoins': len(ej), 'm2mJoins': sum(1 for j in sq.joins if m2m_table is not None and j[1] == m2m_table),
                    'filters': sum(1 for j in sq.joins for c in j[2] if _is_criteria(c, target))}
            reqs.append({'op': 'joins', 'kind': kind, 'hasDiscr': target._discriminator_attr_ is not None, 'calls': cs})
            checks.append(('joins', [kind, '%s.%s' % (attr.entity.__name__, attr.name), cs], real))


# ----------------------------------------------------------------------------------------------- tie: isinstance translation

def isinstance_cond(q, cmap, root_name):
    return isinstance_cond_one(q._translator.conditions[-1], cmap, root_name)


def isinstance_cond_one(c, cmap, root_name):
    if c[0] == 'EQ' and c[1] == ['VALUE', 1] and c[2] == ['VALUE', 1]: return 'TRUE'
    if c[0] == 'EQ' and c[1] == ['VALUE', 0] and c[2] == ['VALUE', 1]: return 'FALSE'
    if c[0] == 'IN': return sorted(cmap[('v', root_name, v[1])] for v in c[2])
    return ['unexpected', repr(c)[:200]]


# ----------------------------------------------------------------------------------------------- oracle

class World:
    """objects created in the first session: pk -> class number; holders and what they reference"""
    def __init__(self): self.cls = {}; self.a = {}; self.holders = {}


def populate(rng, h, db, E, H):
    w = World(); n = h['n']
    with db_session:
        objs = []
        for i in range(n):
            for _ in range(rng.choice([1, 1, 2])):
                o = E[i](a=100 + len(objs), **{'f%d' % i: i}); objs.append((o, i))
        tree0 = [o for o, i in objs if h['root'][i] == 0]
        owned = set()
        hs = []
        for _ in range(rng.choice([2, 3, 4])):
            kw = {}
            free = [o for o in tree0 if not any(hh[0].get('ref0') is o for hh in hs)]
            if free and rng.random() < 0.85: kw['ref0'] = rng.choice(free)
            kw['refs0'] = [o for o in tree0 if rng.random() < 0.6]
            if rng.random() < 0.85: kw['mref'] = rng.choice(tree0)
            mine = [o for o in tree0 if o not in owned and rng.random() < 0.5]
            owned.update(mine); kw['many'] = mine
            if h.get('subk') is not None:
                cand = [o for o, i in objs if is_sub(h, i, h['subk']) and not any(hh[0].get('sub') is o for hh in hs)]
                if cand and rng.random() < 0.8: kw['sub'] = rng.choice(cand)
            hs.append((kw,))
        flush()                                   # objects first, then the holders, then the links that point back (no cyclic save chains)
        made = []
        for (kw,) in hs:
            first = {k: v for k, v in kw.items() if k in ('mref', 'refs0', 'sub')}
            made.append((H(**first), kw))
        flush()
        for hh, kw in made:
            if kw.get('ref0') is not None: hh.ref0 = kw['ref0']
            if kw.get('many'): hh.many = kw['many']
        flush()
        hs = made
        for o, i in objs: w.cls[(h['root'][i], o.id)] = i; w.a[(h['root'][i], o.id)] = o.a
        for hh, kw in hs:
            w.holders[hh.id] = {'ref0': kw['ref0'].id if kw.get('ref0') is not None else None, 'refs0': sorted(o.id for o in kw['refs0']),
                                'many': sorted(o.id for o in kw['many']), 'mref': kw['mref'].id if kw.get('mref') is not None else None, 'sub': kw['sub'].id if kw.get('sub') is not None else None}
    return w


class Checker:
    def __init__(self, ctx, h, db, E, H, w):
        self.ctx = ctx; self.h = h; self.db = db; self.E = E; self.H = H; self.w = w
        self.trace = []; self.broken = False; self.seed_obs = []
    def name(self, i): return 'E%d' % i
    def fail(self, kind, what, detail, observed, expected, key=None):
        self.ctx.count('oracle-fail:' + (key or kind))
        inp = {'bases': self.h['bases'], 'mode': self.h['mode'], 'discriminators': [repr(e._discriminator_) for e in self.E], 'subk': self.h.get('subk'),
               'objects': {'%d:%d' % k: v for k, v in self.w.cls.items()}, 'holders': self.w.holders, 'session_steps': list(self.trace), 'step': kind, 'detail': detail}
        self.ctx.violation(what, inp, observed=observed, expected=expected, key=key)
    SITE = {'ref': 'attrGet', 'holder-first-ref': 'attrGet', 'sub-ref': 'attrGet', 'mref': 'attrGet', 'holder-first-mref': 'attrGet',
            'm2m-items': 'setCopy', 'm2m-items-then-touch': 'setCopy', 'query-tuple-ref': 'queryTuple',
            'seed-then-index': 'findInCache', 'index': 'findInCache', 'get-pk': 'findInCache'}

    def observe_seed(self, kind, obj):
        """tie of Model/SeedLoad: is the object the site hands out still a seed (known by primary key only)?  compared with `stillSeed` later"""
        site = self.SITE.get(kind)
        if site is None: return
        cache = self.db._get_cache()
        still = obj in cache.seeds[obj._pk_attrs_]
        self.ctx.count('handout:%s:%s' % (site, 'seed' if still else 'loaded'))
        self.seed_obs.append((site, bool(type(obj)._subclasses_), still, [kind, type(obj).__name__, obj.id]))

    def check_type(self, kind, obj, root, detail, key=None):
        """type(obj) must be the class the object was created as"""
        self.observe_seed(kind, obj)
        exp = self.w.cls[(root, obj.id)]
        got = type(obj).__name__
        self.ctx.case(['type', self.h['bases'], self.h['mode'], kind, detail, list(self.trace[-3:])], kind='oracle:type:' + kind)
        if got != self.name(exp):
            self.fail(kind, 'an object created as %s is seen as %s when reached through %s' % (self.name(exp), got, kind), detail, got, self.name(exp), key=key)
            return False
        return True
    def check_set(self, kind, objs, root, expected_pks, detail, key=None):
        for o in objs: self.observe_seed(kind, o)
        got = sorted((o.id, type(o).__name__) for o in objs)
        exp = sorted((pk, self.name(self.w.cls[(root, pk)])) for pk in expected_pks)
        self.ctx.case(['set', self.h['bases'], self.h['mode'], kind, detail, list(self.trace[-3:])], kind='oracle:set:' + kind)
        if got != exp:
            self.fail(kind, '%s does not return exactly the stored objects of the entity and its subclasses with their classes' % kind, detail, got, exp, key=key)
            return False
        return True
    def extent(self, c):
        r = self.h['root'][c]
        return [pk for (rt, pk), i in self.w.cls.items() if rt == r and is_sub(self.h, i, c)]

    def relation(self, c, s):
        """how class s stands to the iterated entity c"""
        h = self.h
        if h['root'][c] != h['root'][s]: return 'other-root'
        if c == s: return 'same'
        if is_sub(h, c, s): return 'ancestor'
        if is_sub(h, s, c): return 'descendant'
        if any(is_sub(h, r, c) and is_sub(h, r, s) for r in range(h['n'])): return 'sibling-sharing-subclass'
        return 'unrelated-same-root'

    def isinstance_query(self, c, classes, neg, form, bare_single=True):
        """`[not] isinstance(x, classes)` over entity c as a string / generator / lambda query; oracle: Python isinstance over the extent of c"""
        h, E, w = self.h, self.E, self.w
        root = h['root'][c]; k = len(classes)
        env = {'C': E[c], 'select': select}; env.update({'S%d' % i: E[s] for i, s in enumerate(classes)})
        ci = 'S0' if k == 1 and bare_single else '(%s)' % ''.join('S%d, ' % i for i in range(k))
        cond = '%sisinstance(x, %s)' % ('not ' if neg else '', ci)
        if form == 'string': q = select('x for x in C if ' + cond, env)
        elif form == 'generator': q = eval('select(x for x in C if %s)' % cond, env)
        else: q = eval('C.select(lambda x: %s)' % cond, env)
        objs = q[:]
        cls_t = tuple(E[s] for s in classes)
        exp = [pk for pk in self.extent(c) if isinstance_py(h, w.cls[(root, pk)], classes) != neg]
        det = [self.name(c), [self.name(s) for s in classes], neg, form]
        for s in classes: self.ctx.count('isinstance-class:' + self.relation(c, s))
        if self.check_set('isinstance', objs, root, exp, det):
            # Python isinstance on the exact-typed objects agrees, too
            bad = [o.id for o in select('x for x in C', {'C': E[c]}) if (isinstance(o, cls_t) != neg) != (o.id in set(exp))]
            if bad: self.fail('isinstance', 'isinstance on the loaded objects disagrees with the stored classes', det, bad, [])
        return ('isinstance', c, classes, neg, q)

    def nested_query(self, c, s, form, as_string):
        """Entity.select / exists(lambda ...) over class s NESTED in a query over class c (or over the holders): the sub-query's table is
        joined lazily, by the first use of the lambda's variable — pk-only (`s == x`, `s.id == x.id`), attribute first, or no use at all.
        Ground truth: the stored classes (Python isinstance)."""
        h, E, H, w = self.h, self.E, self.H, self.w
        root = h['root'][c]
        src, shape = NESTED_FORMS[form]
        env = {'R': E[c], 'S': E[s], 'H': H, 'select': select, 'exists': exists, 'count': count}
        q = select(src, env) if as_string else eval('select(%s)' % src, env)
        rows = q[:]
        det = [form, src, self.name(c), self.name(s), 'string' if as_string else 'generator']
        both = [pk for pk in self.extent(c) if is_sub(h, w.cls[(root, pk)], s)]
        self.ctx.count('nested-form:' + form)
        if shape == 'objects':
            return self.check_set('nested-subquery', rows, root, both, det)
        if shape == 'counts':
            got = sorted((int(pk), int(n)) for pk, n in rows)
            exp = sorted((pk, 1 if pk in set(both) else 0) for pk in self.extent(c))
        else:   # holders whose many-to-one reference is an instance of s
            got = sorted(o.id for o in rows)
            exp = sorted(hid for hid, v in w.holders.items() if v['mref'] is not None and is_sub(h, w.cls[(0, v['mref'])], s))
        self.ctx.case(['nested', h['bases'], h['mode']] + det, kind='oracle:set:nested-subquery')
        if got != exp:
            self.fail('nested-subquery', 'a sub-query over an entity nested in another query (Entity.select/exists(lambda)) does not see exactly the objects of that entity and its subclasses',
                      det, got, exp)
            return False
        return True

    def cached_lookup(self, how, pk, use_get):
        """by-key lookups of an object that is ALREADY in the identity map — as a seed typed with the root (reached through a root-typed
        reference of a loaded holder) or as a genuine loaded object — through EVERY class of its tree: the classes it is an instance of must
        return it with its stored class, every other class must not find it (E[pk] raises ObjectNotFound, E.get(id=pk) is None)"""
        h, E, H, w = self.h, self.E, self.H, self.w
        r = w.cls[(0, pk)]
        for c in [x for x in range(h['n']) if h['root'][x] == 0]:
            det = [how, self.name(c), pk, 'get' if use_get else 'index', 'stored ' + self.name(r)]
            self.ctx.case(['cached-lookup', h['bases'], h['mode'], [repr(v) for v in h['vals']]] + det, kind='oracle:cached-lookup:%s:%s' % (how, 'member' if is_sub(h, r, c) else 'non-member'))
            try:
                o = E[c].get(id=pk) if use_get else E[c][pk]
                got = None if o is None else type(o).__name__
            except ObjectNotFound:
                got = 'ObjectNotFound'
            exp = self.name(r) if is_sub(h, r, c) else (None if use_get else 'ObjectNotFound')
            if got != exp:
                self.fail('cached-lookup', 'looking an object that is already in the identity map (%s) up by key through %s gives %s; it is stored as %s'
                          % ('known by primary key only' if how == 'seed' else 'loaded', self.name(c), got, self.name(r)), det, got, exp)

    def two_variables(self, c1, c2, as_string):
        """two loop variables over entities of ONE table in one query: each carries its own discriminator criteria (qualified by its alias)"""
        h, E, w = self.h, self.E, self.w
        root = h['root'][c1]
        src = '(x.id, y.id) for x in C1 for y in C2 if x.a <= y.a'
        env = {'C1': E[c1], 'C2': E[c2], 'select': select}
        det = ['two-variables', src, self.name(c1), self.name(c2), 'string' if as_string else 'generator']
        exp = sorted((p1, p2) for p1 in self.extent(c1) for p2 in self.extent(c2) if w.a[(root, p1)] <= w.a[(root, p2)])
        self.ctx.case(['two-variables', h['bases'], h['mode']] + det, kind='oracle:set:two-variables')
        try:
            rows = (select(src, env) if as_string else eval('select(%s)' % src, env))[:]
            got = sorted((int(a), int(b)) for a, b in rows)
        except Exception as e:
            got = 'raised %s: %s' % (type(e).__name__, str(e)[:80])
        if got != exp:
            self.fail('two-variables', 'a query with two variables over entities of one hierarchy does not return exactly the pairs of their objects', det, got, exp)
            return False
        return True

    def navigated_query(self, s, form, as_string):
        """isinstance(x, S) / aggregates where x is reached through a relationship of the holder; ground truth from the stored classes"""
        h, E, H, w = self.h, self.E, self.H, self.w
        src, shape = NAVIGATED_FORMS[form]
        env = {'H': H, 'S': E[s], 'select': select, 'exists': exists, 'count': count, 'sum': sum, 'max': max}
        inst = lambda pk: is_sub(h, w.cls[(0, pk)], s)
        hold = w.holders
        if shape == 'objects-m2m': exp = sorted({pk for v in hold.values() for pk in v['refs0'] if inst(pk)})
        elif shape == 'objects-o2m': exp = sorted({pk for v in hold.values() for pk in v['many'] if inst(pk)})
        elif shape == 'holders-mref': exp = sorted(hid for hid, v in hold.items() if v['mref'] is not None and inst(v['mref']))
        elif shape == 'holders-ref0': exp = sorted(hid for hid, v in hold.items() if v['ref0'] is not None and inst(v['ref0']))
        elif shape == 'holders-not-mref': exp = sorted(hid for hid, v in hold.items() if not (v['mref'] is not None and inst(v['mref'])))      # not isinstance(None, S) is True
        elif shape == 'holders-not-ref0': exp = sorted(hid for hid, v in hold.items() if not (v['ref0'] is not None and inst(v['ref0'])))
        elif shape == 'counts-m2m': exp = sorted((hid, sum(1 for pk in v['refs0'] if inst(pk))) for hid, v in hold.items())
        elif shape == 'counts-o2m': exp = sorted((hid, sum(1 for pk in v['many'] if inst(pk))) for hid, v in hold.items())
        elif shape == 'holders-any-m2m': exp = sorted(hid for hid, v in hold.items() if any(inst(pk) for pk in v['refs0']))
        elif shape == 'sizes': exp = sorted((hid, len(v['refs0']), len(v['many'])) for hid, v in hold.items())
        else: exp = sorted((hid, sum(w.a[(0, pk)] for pk in v['refs0']), max([w.a[(0, pk)] for pk in v['many']] or [None])) for hid, v in hold.items())
        det = [form, src, self.name(s), 'string' if as_string else 'generator']
        self.ctx.count('navigated-form:' + form)
        key = 'isinstance-navigated-object' if form in ('m2m-iterate', 'to-one-key-left', 'm2m-count', 'm2m-exists') else None
        try:
            q = select(src, env) if as_string else eval('select(%s)' % src, env)
            rows = q[:]
        except Exception as e:
            self.ctx.case(['navigated', h['bases'], h['mode']] + det, kind='oracle:set:navigated')
            self.fail('navigated', 'isinstance / aggregate on an object reached by navigation raised %s: %s' % (type(e).__name__, str(e)[:80]), det, 'raised ' + type(e).__name__, exp, key=key)
            if key is None: self.broken = True
            return False
        if shape.startswith('objects'): return self.check_set('navigated', rows, 0, exp, det, key=key)
        got = sorted((o.id if hasattr(o, 'id') else tuple(o)) for o in rows) if shape.startswith('holders') else sorted(tuple(r) for r in rows)
        self.ctx.case(['navigated', h['bases'], h['mode']] + det, kind='oracle:set:navigated')
        if got != exp:
            if shape in ('holders-not-mref', 'holders-not-ref0'):
                # the navigation is an inner join: a holder without a reference drops out, while `not isinstance(None, S)` is True in Python
                attr = 'mref' if shape == 'holders-not-mref' else 'ref0'
                none_holders = {hid for hid, v in hold.items() if v[attr] is None}
                if set(got) <= set(exp) and set(exp) - set(got) <= none_holders: key = 'isinstance-not-none-reference'
            if shape in ('holders-mref', 'holders-ref0'):
                # isinstance(None, cls) is False in Python; the translation of `isinstance(h.ref, <static type of ref>)` is the constant TRUE
                attr = 'mref' if shape == 'holders-mref' else 'ref0'
                none_holders = {hid for hid, v in hold.items() if v[attr] is None}
                if set(exp) <= set(got) and set(got) - set(exp) <= none_holders: key = 'isinstance-none-reference'
            self.fail('navigated', 'isinstance / aggregate on objects reached by navigation differs from the stored classes', det, got, exp, key=key)
            return False
        return True

    # ---- steps (each runs inside the caller's db_session)
    def step(self, rng, kind):
        """one access path; an exception of the real code on a path where the object exists is a failure of the property, not of the harness"""
        try:
            return self._step(rng, kind)
        except Exception as e:
            self.fail(kind, 'reaching a stored object through %s raised %s' % (kind, type(e).__name__), str(e)[:200], 'raised ' + type(e).__name__, 'the stored object(s)')
            self.broken = True
            return None

    def step_call(self, f, kind='isinstance'):
        try:
            return f()
        except Exception as e:
            self.fail(kind, 'an %s query raised %s' % (kind, type(e).__name__), str(e)[:200], 'raised ' + type(e).__name__, 'the selected objects')
            self.broken = True
            return None

    def _step(self, rng, kind):
        h, E, H, w = self.h, self.E, self.H, self.w
        n = h['n']
        self.trace.append(kind)
        if kind in ('index', 'get-pk', 'get-attr', 'by-sql', 'get-by-sql'):
            (root, pk), r = rng.choice(sorted(w.cls.items()))
            ups = [c for c in range(n) if is_sub(h, r, c)]
            c = rng.choice(ups)
            det = [self.name(c), pk]
            if kind == 'index': o = E[c][pk]
            elif kind == 'get-pk': o = E[c].get(id=pk)
            elif kind == 'get-attr': o = E[c].get(a=w.a[(root, pk)])
            elif kind in ('by-sql', 'get-by-sql'):
                # `select *` is refused for a subclass when the table has columns of sibling classes: name the entity's own columns
                cols = []
                for attr in itertools.chain(E[c]._attrs_with_columns_, E[c]._subclass_attrs_):
                    cols += [col for col in attr.columns if col not in cols]
                sql = 'select %s from %s where id = $pk' % (', '.join('"%s"' % col for col in cols), E[c]._table_)
                o = E[c].select_by_sql(sql)[0] if kind == 'by-sql' else E[c].get_by_sql(sql)
            if o is None: self.fail(kind, '%s returns None for a stored object of a subclass' % kind, det, None, self.name(r))
            else: self.check_type(kind, o, root, det)
        elif kind == 'index-miss':
            (root, pk), r = rng.choice(sorted(w.cls.items()))
            others = [c for c in range(n) if not is_sub(h, r, c) and h['root'][c] == root]
            if not others: return
            c = rng.choice(others); det = [self.name(c), pk]
            self.ctx.case(['miss', h['bases'], det], kind='oracle:index-miss')
            try:
                o = E[c][pk]
                self.fail(kind, 'E[pk] returns an object that is not an instance of E', det, type(o).__name__, 'ObjectNotFound')
            except ObjectNotFound: pass
            o = E[c].get(id=pk)
            if o is not None: self.fail(kind, 'E.get(id=pk) returns an object that is not an instance of E', det, type(o).__name__, None)
        elif kind in ('select', 'select-filter', 'select-all-method'):
            c = rng.randrange(n); root = h['root'][c]
            if kind == 'select': objs = select('x for x in C', {'C': E[c]})[:]
            elif kind == 'select-filter': objs = select('x for x in C if x.a >= 0', {'C': E[c]})[:]
            else: objs = E[c].select()[:]
            self.check_set(kind, objs, root, self.extent(c), [self.name(c)])
        elif kind in ('ref', 'holder-first-ref', 'sub-ref', 'mref', 'holder-first-mref'):
            hid = rng.choice(sorted(w.holders))
            if kind.startswith('holder-first'): hs = select('hh for hh in H', {'H': H})[:]      # every holder loaded: referenced objects are seeds now
            hh = H[hid]
            attr = 'sub' if kind == 'sub-ref' else 'mref' if kind.endswith('mref') else 'ref0'
            if kind == 'sub-ref' and h.get('subk') is None: return
            o = getattr(hh, attr)
            exp = w.holders[hid][attr]
            if (o.id if o is not None else None) != exp: self.fail(kind, 'reference attribute holds another object', [hid, attr], o.id if o is not None else None, exp)
            elif o is not None: self.check_type(kind, o, h['root'][h['subk']] if attr == 'sub' else 0, [hid, attr])
        elif kind in ('m2m-items', 'm2m-items-then-touch', 'o2m-items'):
            hid = rng.choice(sorted(w.holders))
            attr = 'many' if kind == 'o2m-items' else 'refs0'
            items = list(getattr(H[hid], attr))
            if kind == 'm2m-items-then-touch':
                for o in items: o.a                      # any attribute read loads the row and lets the identity map refine the class
            self.check_set(kind, items, 0, w.holders[hid][attr], [hid, attr], key='m2m-items-not-refined' if kind == 'm2m-items' else None)
        elif kind in ('query-ref', 'query-m2m', 'query-o2m'):
            if kind == 'query-ref' and rng.random() < 0.5:
                objs = select('hh.mref for hh in H if hh.mref is not None', {'H': H})[:]
                exp = sorted({v['mref'] for v in w.holders.values() if v['mref'] is not None})
            elif kind == 'query-ref':
                objs = select('hh.ref0 for hh in H if hh.ref0 is not None', {'H': H})[:]
                exp = [v['ref0'] for v in w.holders.values() if v['ref0'] is not None]
            elif kind == 'query-m2m':
                objs = select('x for hh in H for x in hh.refs0', {'H': H})[:]
                exp = sorted({pk for v in w.holders.values() for pk in v['refs0']})
            else:
                objs = select('x for hh in H for x in hh.many', {'H': H})[:]
                exp = sorted({pk for v in w.holders.values() for pk in v['many']})
            self.check_set(kind, objs, 0, exp, [])
        elif kind == 'query-tuple-ref':
            # a query returning tuples: the entity-typed column is built from primary keys only and must be loaded (Query._actual_fetch)
            rows = select('(hh.id, hh.mref) for hh in H if hh.mref is not None', {'H': H})[:]
            exp = sorted((hid, v['mref']) for hid, v in w.holders.items() if v['mref'] is not None)
            if sorted((hid, o.id) for hid, o in rows) != exp:
                self.fail(kind, 'tuple query returns other (holder, reference) pairs', [], sorted((hid, o.id) for hid, o in rows), exp)
            else:
                for hid, o in rows: self.check_type(kind, o, 0, [hid])
        elif kind == 'seed-then-index':
            # every holder loaded: the many-to-one targets are seeds typed with the root; then E[pk] finds the seed in the identity map
            hs = select('hh for hh in H', {'H': H})[:]
            cands = [v['mref'] for v in w.holders.values() if v['mref'] is not None]
            if not cands: return
            pk = rng.choice(cands); r = w.cls[(0, pk)]
            c = rng.choice([x for x in range(n) if is_sub(h, r, x)])
            o = E[c][pk] if rng.random() < 0.5 else E[c].get(id=pk)
            if o is None: self.fail(kind, 'E.get(id=pk) returns None for a stored object of a subclass', [self.name(c), pk], None, self.name(r))
            else: self.check_type(kind, o, 0, [self.name(c), pk])
        elif kind == 'cached-lookup':
            how = rng.choice(['seed', 'genuine'])
            if how == 'seed':
                hs = select('hh for hh in H', {'H': H})[:]
                cands = sorted({v['mref'] for v in w.holders.values() if v['mref'] is not None})
            else:
                objs = select('x for x in C', {'C': E[0]})[:]
                cands = sorted(pk for (rt, pk) in w.cls if rt == 0)
            if cands: self.cached_lookup(how, rng.choice(cands), rng.random() < 0.5)
        elif kind == 'nested-subquery':
            s_ = rng.randrange(n)
            tree = [c for c in range(n) if h['root'][c] == h['root'][s_]]
            form = rng.choice([f for f, v in NESTED_FORMS.items() if v[1] != 'holders' or h['root'][s_] == 0])
            self.nested_query(rng.choice(tree), s_, form, rng.random() < 0.3)
        elif kind == 'isinstance':
            c = rng.randrange(n)
            classes = [rng.randrange(n) for _ in range(rng.choice([1, 1, 2, 3]))]
            return self.isinstance_query(c, classes, rng.random() < 0.25, rng.choice(['string', 'generator', 'lambda']), rng.random() < 0.6)
        else:
            raise ValueError(kind)


# isinstance / aggregates on objects reached by NAVIGATION from the holders (the discriminator column lives in the entity's own table, which a
# pk-only join does not bring in); `shape`: what the query returns
NAVIGATED_FORMS = {
    'm2m-iterate':      ('x for hh in H for x in hh.refs0 if isinstance(x, S)', 'objects-m2m'),
    'o2m-iterate':      ('x for hh in H for x in hh.many if isinstance(x, S)', 'objects-o2m'),
    'to-one-key-left':  ('hh for hh in H if isinstance(hh.mref, S)', 'holders-mref'),
    'to-one-key-right': ('hh for hh in H if isinstance(hh.ref0, S)', 'holders-ref0'),
    'not-to-one-key-left':  ('hh for hh in H if not isinstance(hh.mref, S)', 'holders-not-mref'),
    'not-to-one-key-right': ('hh for hh in H if not isinstance(hh.ref0, S)', 'holders-not-ref0'),
    'm2m-count':        ('(hh.id, count(x for x in hh.refs0 if isinstance(x, S))) for hh in H', 'counts-m2m'),
    'o2m-count':        ('(hh.id, count(x for x in hh.many if isinstance(x, S))) for hh in H', 'counts-o2m'),
    'm2m-exists':       ('hh for hh in H if exists(x for x in hh.refs0 if isinstance(x, S))', 'holders-any-m2m'),
    'collection-sizes': ('(hh.id, count(hh.refs0), count(hh.many)) for hh in H', 'sizes'),
    'collection-aggr':  ('(hh.id, sum(hh.refs0.a), max(hh.many.a)) for hh in H', 'aggr'),
}


# nested sub-queries over S inside a query over R (or the holders H); by the FIRST use of the lambda's variable:
NESTED_FORMS = {
    'exists-eq':          ('x for x in R if S.exists(lambda s: s == x)', 'objects'),                         # pk-only
    'exists-pk':          ('x for x in R if S.exists(lambda s: s.id == x.id)', 'objects'),                   # pk-only
    'in-select-true':     ('x for x in R if x in S.select(lambda s: True)', 'objects'),                      # no use
    'in-select':          ('x for x in R if x in S.select()', 'objects'),                                    # no lambda
    'count-select-eq':    ('(x.id, count(S.select(lambda s: s == x))) for x in R', 'counts'),                # pk-only, aggregated
    'select-count-pk':    ('x for x in R if S.select(lambda s: s.id == x.id).count() > 0', 'objects'),       # pk-only
    'exists-attr-first':  ('x for x in R if S.exists(lambda s: s.a >= 0 and s == x)', 'objects'),            # attribute, then pk
    'exists-pk-first':    ('x for x in R if S.exists(lambda s: s == x and s.a >= 0)', 'objects'),            # pk, then attribute
    'exists-attr':        ('x for x in R if S.exists(lambda s: s.a == x.a)', 'objects'),                     # attribute only
    'exists-generator':   ('x for x in R if exists(s for s in S if s == x)', 'objects'),                     # control: generator sub-query
    'in-subselect':       ('x for x in R if x in select(s for s in S)', 'objects'),                          # control
    'holder-exists-eq':   ('hh for hh in H if S.exists(lambda s: s == hh.mref)', 'holders'),                 # pk-only, through a reference
    'holder-in-select':   ('hh for hh in H if hh.mref in S.select(lambda s: True)', 'holders'),              # no use, through a reference
}


def entry_points_sweep(ctx, h, db, E, H, w):
    """every entity-level retrieval entry point on EVERY class (root, middle, leaf): select_random(n), select().random(n), exists / get / [] by
    key for every stored object, select_by_sql / get_by_sql without a key restriction, prefetch — exactly stored objects of that entity and
    its subclasses, with their classes"""
    import random as _random
    _random.seed(ctx.seed * 1000003 + h['n'])                 # Pony draws the random primary keys from the global generator
    ck = Checker(ctx, h, db, E, H, w); ck.trace.append('entry-points-sweep')
    n = h['n']
    def verdict(kind, det, f):
        try:
            with db_session: f()
        except Exception as e:
            ck.fail(kind, 'the entry point %s raised %s' % (kind, type(e).__name__), det + [str(e)[:120]], 'raised ' + type(e).__name__, 'stored objects of the entity')
    for c in range(n):
        root = h['root'][c]; ext = sorted(ck.extent(c)); table = sorted(pk for (rt, pk) in w.cls if rt == root)
        role = 'root' if not h['bases'][c] else 'leaf' if not any(c in h['bases'][j] for j in range(n)) else 'middle'
        for limit in (1, 2, 3):
            for how in ('select_random', 'select().random'):
                def run(limit=limit, how=how):
                    for trial in range(6 if how == 'select_random' else 2):
                        objs = list(E[c].select_random(limit) if how == 'select_random' else E[c].select().random(limit))
                        got = sorted((o.id, type(o).__name__) for o in objs)
                        ctx.case(['random', h['bases'], h['mode'], ck.name(c), how, limit, trial], kind='oracle:entry:%s:%s' % (how, role))
                        ok = len(got) == min(limit, len(ext)) and len(set(got)) == len(got) and all(pk in ext and nm == ck.name(w.cls[(root, pk)]) for pk, nm in got)
                        if not ok:
                            ck.fail('select-random', '%s.%s(%d) does not return min(n, count) distinct stored objects of the entity and its subclasses (table has %d rows)'
                                    % (ck.name(c), how, limit, len(table)), [ck.name(c), how, limit, 'extent', ext], got, 'min(%d, %d) objects out of %r' % (limit, len(ext), ext))
                            return
                verdict('select-random', [ck.name(c), how, limit], run)
        def by_key():
            for pk in table:
                member = pk in ext
                ctx.case(['exists', h['bases'], ck.name(c), pk], kind='oracle:entry:exists:' + ('member' if member else 'non-member'))
                got = E[c].exists(id=pk)
                if got != member: ck.fail('exists', '%s.exists(id=pk) is %r for an object stored as %s' % (ck.name(c), got, ck.name(w.cls[(root, pk)])), [ck.name(c), pk], got, member)
        verdict('exists', [ck.name(c)], by_key)
        def by_sql():
            cols = []
            for attr in itertools.chain(E[c]._attrs_with_columns_, E[c]._subclass_attrs_): cols += [col for col in attr.columns if col not in cols]
            crit = E[c]._construct_discriminator_criteria_()
            # the caller's own SQL decides which rows come back: restrict it to the entity's discriminator values, then every row must get its class
            where = '' if crit is None else ' where "%s" in (%s)' % (crit[1][2], ', '.join(repr(v[1]) for v in crit[2]))
            objs = E[c].select_by_sql('select %s from %s%s' % (', '.join('"%s"' % x for x in cols), E[c]._table_, where))
            ck.check_set('select-by-sql-all', objs, root, ext, [ck.name(c)])
        verdict('select-by-sql-all', [ck.name(c)], by_sql)
        def prefetch():
            objs = E[c].select().prefetch(E[0].h_mrefs)[:] if root == 0 else E[c].select()[:]
            ck.check_set('select-prefetch', objs, root, ext, [ck.name(c)])
        verdict('select-prefetch', [ck.name(c)], prefetch)
    def holder_prefetch():
        hs = select('hh for hh in H', {'H': H}).prefetch(H.mref, H.refs0, H.many)[:]
        for hh in hs:
            v = w.holders[hh.id]
            if v['mref'] is not None: ck.check_type('prefetch-mref', hh.mref, 0, [hh.id])
            ck.check_set('prefetch-m2m', list(hh.refs0), 0, v['refs0'], [hh.id])
            ck.check_set('prefetch-o2m', list(hh.many), 0, v['many'], [hh.id])
    verdict('prefetch', [], holder_prefetch)


def two_variables_sweep(ctx, h, db, E, H, w):
    """every pair of classes of one tree as the two loop variables of one query"""
    ck = Checker(ctx, h, db, E, H, w); ck.trace.append('two-variables-sweep')
    k = 0
    for c1 in range(h['n']):
        for c2 in range(h['n']):
            if h['root'][c1] != h['root'][c2]: continue
            k += 1
            with db_session:
                ck.two_variables(c1, c2, as_string=(k % 2 == 0))


def cached_lookup_sweep(ctx, h, db, E, H, w):
    """every object of the first tree that a holder references (seed) and every object of the tree (genuine), looked up through every class"""
    ck = Checker(ctx, h, db, E, H, w); ck.trace.append('cached-lookup-sweep')
    seeds = sorted({v['mref'] for v in w.holders.values() if v['mref'] is not None})
    everything = sorted(pk for (rt, pk) in w.cls if rt == 0)
    k = 0
    for how, pks in (('seed', seeds), ('genuine', everything)):
        for pk in pks:
            for use_get in (False, True):
                k += 1
                with db_session:        # a fresh session each time: the lookup through the first class must not have loaded the seed for the next one
                    for c_first in [None]:
                        if how == 'seed': select('hh for hh in H', {'H': H})[:]
                        else: select('x for x in C', {'C': E[0]})[:]
                        ck.step_call(lambda: ck.cached_lookup(how, pk, use_get), 'cached-lookup')
    # and class by class in separate sessions for the seeds (the first lookup loads the seed)
    for pk in seeds:
        r = w.cls[(0, pk)]
        for c in [x for x in range(h['n']) if h['root'][x] == 0]:
            with db_session:
                select('hh for hh in H', {'H': H})[:]
                det = ['seed-first-lookup', ck.name(c), pk, 'stored ' + ck.name(r)]
                ctx.case(['cached-lookup-first', h['bases'], h['mode'], [repr(v) for v in h['vals']]] + det, kind='oracle:cached-lookup:seed-first:%s' % ('member' if is_sub(h, r, c) else 'non-member'))
                try:
                    o = E[c][pk]; got = type(o).__name__
                except ObjectNotFound: got = 'ObjectNotFound'
                except Exception as e: got = 'raised ' + type(e).__name__
                exp = ck.name(r) if is_sub(h, r, c) else 'ObjectNotFound'
                if got != exp:
                    ck.fail('cached-lookup', 'the first by-key lookup of an object known by primary key only, through %s, gives %s; it is stored as %s' % (ck.name(c), got, ck.name(r)), det, got, exp)


def navigated_sweep(ctx, h, db, E, H, w):
    """every class of the first tree x every navigated form"""
    ck = Checker(ctx, h, db, E, H, w); ck.trace.append('navigated-sweep')
    k = 0
    for s in [c for c in range(h['n']) if h['root'][c] == 0]:
        for form in NAVIGATED_FORMS:
            if ck.broken: return
            k += 1
            with db_session:          # a failed statement must not poison the next ones
                ck.navigated_query(s, form, as_string=(k % 3 == 0))


def nested_sweep(ctx, h, db, E, H, w):
    """for every class s: the sub-query forms over s, nested in a query over the root (all forms) and over another class of the tree"""
    rng = ctx.rng
    n = h['n']
    ck = Checker(ctx, h, db, E, H, w); ck.trace.append('nested-sweep')
    k = 0
    with db_session:
        for s in range(n):
            root = h['root'][s]
            tree = [c for c in range(n) if h['root'][c] == root]
            for form, (src, shape) in NESTED_FORMS.items():
                if shape == 'holders' and root != 0: continue
                if ck.broken: return
                k += 1
                ck.step_call(lambda: ck.nested_query(root, s, form, as_string=(k % 3 == 0)), 'nested-subquery')
            other = rng.choice(tree)
            for form in rng.sample([f for f, v in NESTED_FORMS.items() if v[1] != 'holders'], 4):
                if ck.broken: return
                k += 1
                ck.step_call(lambda: ck.nested_query(other, s, form, as_string=(k % 3 == 0)), 'nested-subquery')


def isinstance_py(h, r, classes):
    return any(is_sub(h, r, c) for c in classes)


STEPS = ['index', 'index', 'get-pk', 'get-attr', 'by-sql', 'get-by-sql', 'index-miss', 'select', 'select', 'select-filter', 'select-all-method',
         'ref', 'holder-first-ref', 'sub-ref', 'mref', 'mref', 'holder-first-mref', 'm2m-items', 'm2m-items-then-touch', 'o2m-items', 'query-ref', 'query-m2m', 'query-o2m',
         'isinstance', 'isinstance', 'isinstance', 'nested-subquery', 'nested-subquery', 'query-tuple-ref', 'query-tuple-ref', 'seed-then-index', 'seed-then-index', 'cached-lookup', 'cached-lookup']


def one_world(ctx, h, reqs, checks):
    rng = ctx.rng
    db, E, H = build(h)
    try:
        code = hier_tie(ctx, h, E, reqs, checks)
        join_tie(ctx, h, E, H, reqs, checks)
        try:
            w = populate(rng, h, db, E, H)
        except Exception as e:
            ctx.count('oracle-fail:populate-raised')
            ctx.violation('creating and saving objects of the hierarchy raised %s' % type(e).__name__,
                          {'bases': h['bases'], 'mode': h['mode'], 'subk': h.get('subk'), 'error': str(e)[:200]}, observed='raised ' + type(e).__name__, expected='objects stored')
            return
        code_l, cmap = codes(E)
        for s in range(ctx.scale(5, 8)):
            ck = Checker(ctx, h, db, E, H, w)
            with db_session:
                for _ in range(rng.choice([1, 2, 3, 5, 8])):
                    if ck.broken: break
                    r = ck.step(rng, rng.choice(STEPS))
                    register_isinstance(h, code, cmap, r, reqs, checks)
            for site, has_sub, still, det in ck.seed_obs:
                reqs.append({'op': 'handout', 'site': site, 'hasSub': has_sub, 'isSeed': True})
                checks.append(('handout', [site, has_sub] + det, still))
        isinstance_sweep(ctx, h, db, E, H, w, code, cmap, reqs, checks)
        nested_sweep(ctx, h, db, E, H, w)
        navigated_sweep(ctx, h, db, E, H, w)
        cached_lookup_sweep(ctx, h, db, E, H, w)
        two_variables_sweep(ctx, h, db, E, H, w)
        entry_points_sweep(ctx, h, db, E, H, w)
        refine_tie(ctx, h, db, E, code, w, reqs, checks)
    finally:
        db.disconnect()


def register_isinstance(h, code, cmap, r, reqs, checks):
    """AST tie of one isinstance query (done on the un-negated form)"""
    if not r or r[3]: return
    _, c, classes, neg, q = r
    cond = isinstance_cond(q, cmap, 'E%d' % h['root'][c])
    same = [x for x in range(h['n']) if h['root'][x] == h['root'][c]]
    reqs.append({'op': 'isinstance', 'bases': h['bases'], 'discr': code, 'entity': c, 'classes': classes, 'sameRoot': same})
    rows_py = [isinstance_py(h, r2, classes) for r2 in range(h['n'])]
    checks.append(('isinstance', [h['bases'], c, classes], {'cond': cond, 'python': rows_py, 'extent': [is_sub(h, r2, c) for r2 in range(h['n'])]}))


def isinstance_sweep(ctx, h, db, E, H, w, code, cmap, reqs, checks):
    """every iterated entity x every class of the model (ancestors, descendants, SIBLING branches of a diamond, the other hierarchy), plain and
    negated, plus tuples mixing related and unrelated classes, rotating through string / generator / lambda queries"""
    rng = ctx.rng
    n = h['n']; forms = ['string', 'generator', 'lambda']
    ck = Checker(ctx, h, db, E, H, w); ck.trace.append('isinstance-sweep')
    k = 0
    with db_session:
        for c in range(n):
            for s in range(n):
                for neg in (False, True):
                    if ck.broken: return
                    k += 1
                    r = ck.step_call(lambda: ck.isinstance_query(c, [s], neg, forms[k % 3], bare_single=(k % 2 == 0)))
                    register_isinstance(h, code, cmap, r, reqs, checks)
            others = [s for s in range(n) if ck.relation(c, s) in ('sibling-sharing-subclass', 'unrelated-same-root', 'other-root')]
            for _ in range(3):
                classes = [rng.randrange(n) for _ in range(rng.choice([2, 2, 3]))]
                if others: classes[rng.randrange(len(classes))] = rng.choice(others)       # at least one class that is not on c's line
                k += 1
                r = ck.step_call(lambda: ck.isinstance_query(c, classes, rng.random() < 0.3, forms[k % 3]))
                register_isinstance(h, code, cmap, r, reqs, checks)


def witnesses(ctx):
    """defects already shown on the unchanged tree, replayed on the real code on every run"""
    state = {}
    # 1. items of a many-to-many collection typed with a base class keep the base class until an attribute is read
    h = {'n': 2, 'bases': [[], [0]], 'root': [0, 0], 'mode': 'default', 'vals': [None, None]}
    db, E, H = build(h)
    with db_session:
        o = E[1](a=1); hh = H(refs0=[o]); flush(); pk, hid = o.id, hh.id
    w = World(); w.cls[(0, pk)] = 1; w.a[(0, pk)] = 1; w.holders[hid] = {'ref0': None, 'refs0': [pk], 'many': [], 'mref': None, 'sub': None}
    ck = Checker(ctx, h, db, E, H, w); ck.trace.append('m2m-items')
    try:
        with db_session:
            items = list(H[hid].refs0)
            ok = ck.check_set('m2m-items', items, 0, [pk], [hid, 'refs0'], key='m2m-items-not-refined')
            state['m2m-items-not-refined'] = 'holds' if ok else 'reproduced: %r' % ([type(o).__name__ for o in items],)
    except Exception as e:
        ck.fail('m2m-items', 'iterating a many-to-many collection of subclass objects raised %s' % type(e).__name__, str(e)[:200], 'raised ' + type(e).__name__, 'the stored objects')
        state['m2m-items-not-refined'] = 'raised ' + type(e).__name__
    # 3. isinstance on an object reached by navigation (many-to-many item, to-one attribute with the key in the holder's table)
    for form, key in (('m2m-iterate', 'isinstance-navigated-object'), ('to-one-key-left', 'isinstance-navigated-object')):
        with db_session:
            ok = Checker(ctx, h, db, E, H, w).navigated_query(1, form, False)
        state['%s/%s' % (key, form)] = 'holds' if ok else 'reproduced'
    # 4. isinstance(h.ref, <declared type>) for a reference that is None
    with db_session: hh2 = H(); flush(); w.holders[hh2.id] = {'ref0': None, 'refs0': [], 'many': [], 'mref': None, 'sub': None}
    with db_session:
        ok = Checker(ctx, h, db, E, H, w).navigated_query(0, 'to-one-key-right', False)
    state['isinstance-none-reference'] = 'holds' if ok else 'reproduced'
    # 5. `not isinstance(h.ref, <proper subclass>)` for a reference that is None (inner join; recorded)
    with db_session:
        ok = Checker(ctx, h, db, E, H, w).navigated_query(1, 'not-to-one-key-left', False)
    state['isinstance-not-none-reference'] = 'holds' if ok else 'reproduced'
    db.disconnect()
    # 2. two classes with the same _discriminator_ value are accepted; objects of the first are read back as the second
    db = Database()
    A = type('A', (db.Entity,), {'a': Optional(int)})
    try:
        B = type('B', (A,), {'_discriminator_': 'same'}); C = type('C', (A,), {'_discriminator_': 'same'})
        db.bind('sqlite', ':memory:'); db.generate_mapping(create_tables=True)
        with db_session:
            b = B(a=1); flush(); pk = b.id
        with db_session:
            got = type(A[pk]).__name__
        ctx.case(['duplicate-discriminator'], kind='oracle:duplicate-discriminator')
        if got != 'B':
            ctx.count('oracle-fail:duplicate-discriminator-accepted')
            ctx.violation("two sibling entities with the same _discriminator_ value are accepted (code2cls silently overwrites); an object created as B is reloaded as C",
                          {'classes': "class A(db.Entity); class B(A): _discriminator_='same'; class C(A): _discriminator_='same'", 'created': 'B(a=1)'},
                          observed=got, expected='B', key='duplicate-discriminator-accepted')
        state['duplicate-discriminator-accepted'] = 'holds' if got == 'B' else 'reproduced: reloaded as ' + got
    except Exception as e:
        state['duplicate-discriminator-accepted'] = 'definition rejected: %s' % type(e).__name__       # a fix may refuse the definition
    finally:
        try: db.disconnect()
        except Exception: pass
    ctx.extra['witnesses'] = state


def run(ctx):
    rng = ctx.rng
    witnesses(ctx)
    reqs, checks = [], []
    worlds = ctx.scale(40, 400)
    made = 0; guard = 0
    while made < worlds and guard < worlds * 20:
        guard += 1
        h = gen_hier(rng)
        if not mro_ok(h['bases']): ctx.count('hier:rejected-by-python-mro'); continue
        nonroot = [i for i in range(h['n']) if h['bases'][i] and h['root'][i] == 0]
        h['subk'] = rng.choice(nonroot) if nonroot and rng.random() < 0.7 else None
        one_world(ctx, h, reqs, checks)
        made += 1
    if not ctx.driver.ok:
        ctx.note('driver unavailable: model correspondence skipped'); return
    outs = ctx.driver('C27', reqs)
    for (kind, inp, real), out in zip(checks, outs):
        if 'driver_error' in out:
            ctx.divergence('driver error', inp if kind != 'hier' else inp['bases'], model=out, impl=None); continue
        if kind == 'hier': compare_hier(ctx, inp, real, out)
        elif kind == 'rowclass':
            for e, (ml, rl) in enumerate(zip(out['rows'], real)):
                for r, (m, x) in enumerate(zip(ml, rl)):
                    if x is None: continue
                    ctx.case(['rowclass', inp, e, r], nontrivial=False, kind='tie:rowclass')
                    if m != x: ctx.divergence('class of an object built from a full row: model (flags read from _fetch_objects / _parse_row_) and the real _parse_row_ disagree', [inp, e, r], model=m, impl=x)
        elif kind == 'handout':
            ctx.case(['handout'] + inp[:2], nontrivial=False, kind='tie:handout:' + inp[0])
            # the model's worst case (the object WAS a seed when the site was entered): may it still be one when handed out?
            if real and not out['stillSeed']:
                ctx.divergence('an object is handed out as a seed (primary key only) where the model (guards regenerated from core.py) says it is loaded first', inp, model=out, impl={'stillSeed': real})
        elif kind == 'joins':
            ctx.case(['joins'] + inp, kind='tie:joins:%s:%s' % (inp[0], 'pk-first' if inp[2][0] else 'full-first'))
            if out != real: ctx.divergence('make_join / discriminator criteria: model (guards regenerated from the source) and the real method disagree', inp, model=out, impl=real)
        elif kind == 'refine':
            ctx.case(['refine'] + inp, kind='tie:refine:' + ('ok' if 'ok' in real else real['error']))
            if out != real: ctx.divergence('_get_from_identity_map_ class refinement: model and real code disagree', inp, model=out, impl=real)
        elif kind == 'isinstance':
            ctx.case(['isinstance-ast'] + inp, kind='tie:isinstance:' + (real['cond'] if isinstance(real['cond'], str) else 'IN'))
            mc = out['cond'] if isinstance(out['cond'], str) else sorted(set(out['cond']))     # the code collects the classes in a set
            if mc != real['cond']:
                ctx.divergence('FuncIsinstanceMonad: model and the condition in the real AST disagree', inp, model=mc, impl=real['cond'])
            # the theorem's statement on the model's output, restricted to rows in the extent of the iterated entity
            for r, (m, p, ext) in enumerate(zip(out['rows'], real['python'], real['extent'])):
                if ext and m != p:
                    ctx.divergence('isinstance condition evaluated on a row differs from Python isinstance (C27_isinstance would be violated)', inp + [r], model=m, impl=p)


def replay(ctx, data):
    run(ctx)
