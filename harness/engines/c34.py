"""C34 — permission checks follow the declared access rules.

Tie (correspondence): the hand model `Model/Perm.lean` (set_perms_for / perm / AccessRule.exclude / has_perm with its
perm_cache / can_* / the object filter of Database.to_json / the schema filter) is driven through the Lean driver with the
same declarations, users, objects and call sequences as the real functions inside `with db.set_perms_for(...)` and
`db_session`; answers are compared call by call (one warm session, and every call in a session of its own).

Property oracle (on the real code, every run):
  * real `has_perm` answer  ==  the declarative reading `spec` (written here in Python, independently of the Lean model);
  * a repeated call in the same session returns the same answer; a call in a session of its own returns the same answer;
  * declaring the same rules in another order does not change any answer;
  * every object in the "objects" part of `to_json` passes `can_view` (real and spec), every entity/attribute in the
    schema part passes `can_view`.
"""
import itertools, json, random
from collections import defaultdict
from pony.orm import Database, Required, Optional, Set, db_session, perm, has_perm
from pony.orm.core import can_view, can_edit, can_create, can_delete
from pony.orm import set_current_user, user_groups_getter, user_roles_getter, obj_labels_getter
from pony.orm import core

PERMS = ['view', 'edit', 'create', 'delete']

# ---------------------------------------------------------------------------------------------------- fixture

class U(object):
    """a plain (non-entity) user"""
    def __init__(self, uid): self.uid = uid
    def __repr__(self): return 'U%d' % self.uid

STATE = {'groups': {}, 'roles': {}, 'labels': {}, 'form': 0}   # what the provider functions answer (inputs)

def _form(names):
    return raw_form(names, STATE['form'])

def specific_part(names): return [n for n in names if n != 'g2']          # what the getter registered for the user's class answers
def extra_part(names): return [n for n in names if n in ('g2', 'zz')]      # what the getter registered for ALL users (cls=None) answers ('zz' twice)

def raw_form(names, f):
    """the value a getter returns: a list, a single name as str, None, a tuple or a set — has_perm must treat them alike"""
    names = sorted(names)
    if f == 1 and len(names) == 1: return names[0]            # a single name as a string
    if f == 2 and not names: return None
    if f == 3: return tuple(names)
    if f == 4: return ' '.join(names) if len(names) == 1 else set(names)
    return list(names)

_registered = []

def register_providers(P):
    if _registered: return
    _registered.append(True)
    @user_groups_getter(U)
    def u_groups(u): return _form(specific_part(STATE['groups'].get(('U', u.uid), ())))
    @user_roles_getter(U, None)
    def u_roles(u, obj): return _form([r for r in STATE['roles'].get((('U', u.uid), okey(obj)), ()) if r not in FILTERED_ROLE_NAMES])
    @obj_labels_getter()
    def o_labels(obj): return _form([l for l in STATE['labels'].get(okey(obj), ()) if l != 'lb'])

def register_string_user_providers():
    # long-lived hashable user keys (login names): the same key is used in every session of a thread
    @user_groups_getter(str)
    def s_groups(login): return _form(specific_part(STATE['groups'].get(('S', login), ())))
    @user_groups_getter()
    def any_groups(user):                     # registered last, for every kind of user
        key = ('U', user.uid) if isinstance(user, U) else ('S', user) if isinstance(user, str) else ('P', user.id)
        return _form(extra_part(STATE['groups'].get(key, ())))
    @user_roles_getter(str, None)
    def s_roles(login, obj): return _form([r for r in STATE['roles'].get((('S', login), okey(obj)), ()) if r not in FILTERED_ROLE_NAMES])

def ukey(user):
    return ('U', user.uid) if isinstance(user, U) else ('S', user) if isinstance(user, str) else ('P', user.id)

# Role getters registered with a class filter answer for a USER, whatever the object: whether the answer reaches a
# (user, object) pair is decided by the registration (user_cls, obj_cls) alone.  name -> (user kind or None, object classes or None)
FILTERED_ROLE_GETTERS = [('ra', None, (0, 1)),      # user_roles_getter(None, A): every user, objects of class A (A2 is a subclass)
                         ('rb', 'U', (2,)),         # user_roles_getter(U, B)
                         ('rp', 'P', (2,)),         # user_roles_getter(P, B)
                         ('rg', None, None)]        # user_roles_getter(): every user, every object
FILTERED_ROLE_NAMES = [g[0] for g in FILTERED_ROLE_GETTERS]

def role_set(roles, name):
    return roles.get(('set', name), ())

def getter_reaches(name, u, o):
    kind, classes = [(g[1], g[2]) for g in FILTERED_ROLE_GETTERS if g[0] == name][0]
    return (kind is None or u[0] == kind) and (classes is None or o[0] in classes)

def roles_of(roles, u, o):
    """the roles the declarations of the getters give user u on object o (the ground truth of the oracle)"""
    if u is None: return []
    out = [r for r in roles.get((u, o), ()) if r not in FILTERED_ROLE_NAMES]
    for name in FILTERED_ROLE_NAMES:
        if u in role_set(roles, name) and getter_reaches(name, u, o): out.append(name)
    return out

def register_class_filtered_role_provider(w):
    def answer(name, user): return _form([name]) if ukey(user) in role_set(STATE['roles'], name) else None
    @user_roles_getter(None, w.A)
    def a_roles(user, obj): return answer('ra', user)
    @user_roles_getter(U, w.B)
    def ub_roles(user, obj): return answer('rb', user)
    @user_roles_getter(w.P, w.B)
    def pb_roles(user, obj): return answer('rp', user)
    @user_roles_getter()
    def g_roles(user, obj): return answer('rg', user)

def register_class_filtered_label_provider(B):
    # registered after the generic label getter, for objects of class B only: the label 'lb'
    @obj_labels_getter(B)
    def b_labels(obj): return _form(['lb']) if 'lb' in STATE['labels'].get(okey(obj), ()) else None

def register_entity_user_providers(P):
    @user_groups_getter(P)
    def p_groups(p): return _form(specific_part(STATE['groups'].get(('P', p.id), ())))
    @user_roles_getter(P, None)
    def p_roles(p, obj): return _form([r for r in STATE['roles'].get((('P', p.id), okey(obj)), ()) if r not in FILTERED_ROLE_NAMES])

class World(object):
    pass

def okey(obj):
    return (W.eid[obj.__class__], obj._pkval_)

def build_world():
    w = World()
    db = Database()
    class A(db.Entity):
        n = Required(int)
        s = Optional(str, hidden=True)
        b = Optional('B')
    class A2(A):
        m = Optional(int)
    class B(db.Entity):
        k = Required(int)
        as_ = Set(A)
        cs = Set('C')
    class C(db.Entity):
        k = Required(int)
        bs = Set(B)
    class P(db.Entity):
        name = Required(str)
    class Z(db.Entity):
        k = Optional(int)
    db.bind('sqlite', ':memory:')
    db.generate_mapping(create_tables=True)
    with db_session:
        b1 = B(id=1, k=1); b2 = B(id=2, k=2)
        A(id=1, n=1, b=b1); A(id=2, n=2); A2(id=3, n=3, m=1, b=b1)
        c1 = C(id=1, k=1); c2 = C(id=2, k=2)
        b1.cs.add(c1); b1.cs.add(c2)
        P(id=1, name='p1'); P(id=2, name='p2')
        Z(id=1)          # never loaded by the checks: `Z(id=1)` in a session makes its commit fail
    w.db = db
    w.ents = [A, A2, B, C, P, Z]
    w.eid = {e: i for i, e in enumerate(w.ents)}
    w.sub = {w.eid[e]: sorted(w.eid[s] for s in e._subclasses_) for e in w.ents}
    w.attrs = []
    for e in w.ents:
        for a in e._new_attrs_: w.attrs.append(a)
    w.aid = {a: i for i, a in enumerate(w.attrs)}
    w.objs = [(0, 1), (0, 2), (1, 3), (2, 1), (2, 2), (3, 1), (3, 2), (4, 1), (4, 2)]   # (class id, pk); A2[3] is an A2
    w.graph = {  # attribute -> object -> related objects
        A.b: {(0, 1): [(2, 1)], (1, 3): [(2, 1)]},
        B.as_: {(2, 1): [(0, 1), (1, 3)]},
        B.cs: {(2, 1): [(3, 1), (3, 2)]},
        C.bs: {(3, 1): [(2, 1)], (3, 2): [(2, 1)]},
    }
    w.A, w.A2, w.B, w.C, w.P, w.Z = A, A2, B, C, P, Z
    return w

W = None

def attr_json(w, a):
    return {'id': w.aid[a], 'entity': w.eid[a.entity], 'hidden': bool(a.hidden), 'pk': a.pk_offset is not None,
            'reverse': [w.aid[a.reverse], w.eid[a.reverse.entity]] if a.reverse else None}

def load(w, o):
    e = w.ents[o[0]]
    base = w.A if e is w.A2 else e
    return base[o[1]]

# ---------------------------------------------------------------------------------------------------- inputs

GROUPS = ['g1', 'g2']
USERS = [None, ('U', 0), ('U', 1), ('U', 2), ('U', 3), ('P', 1), ('P', 2)]

SUSERS = [('S', 'alice'), ('S', 'bob')]

def user_json(u):
    if u is None: return None
    if u[0] == 'S': return 20 + [x[1] for x in SUSERS].index(u[1])
    return u[1] if u[0] == 'U' else 10 + u[1]

def gen_decl(w, rng, small=False):
    A, A2, B, C, P = w.eid[w.A], w.eid[w.A2], w.eid[w.B], w.eid[w.C], w.eid[w.P]
    ents = rng.choice([[A], [A], [A2], [B], [B], [A, B], [C], [B, C], [P], [A2, B]])
    perms = rng.choice([['view'], ['view'], ['edit'], ['view', 'edit'], ['delete'], ['create', 'view']])
    if rng.random() < 0.04: perms = []      # perm() without a permission name: TypeError, nothing is registered
    groups = rng.choice([[], [], ['g1'], ['g2'], ['g1', 'g2']])
    roles = rng.choice([[], [], [], ['r'], ['self'], ['ra'], ['r', 'ra'], ['rb'], ['rp'], ['rg'], ['rb', 'rg']])
    labels = rng.choice([[], [], ['l'], ['lb'], ['l', 'lb']])
    ex_choices = [{'e': A}, {'e': A2}, {'e': B}, {'e': C}, {'a': w.aid[w.A.b]}, {'a': w.aid[w.B.as_]}, {'a': w.aid[w.A.n]},
                  {'a': w.aid[w.B.cs]}, {'a': w.aid[w.C.bs]}, {'a': w.aid[w.A.id]}, {'a': w.aid[w.A2.m]}, {'a': w.aid[w.B.k]}]
    k = rng.choice([0, 0, 1, 1, 2])
    excl = [rng.choice(ex_choices) for _ in range(k)]
    return {'ents': ents, 'perms': perms, 'groups': groups, 'roles': roles, 'labels': labels, 'excl': excl}

def exhaustive_single_rules(w):
    """every single rule over the reduced grid (the exhaustive part of the tie)"""
    A, A2, B, C = w.eid[w.A], w.eid[w.A2], w.eid[w.B], w.eid[w.C]
    out = []
    for ents in ([A], [A2], [B], [A, B]):
        for perms in (['view'], ['edit']):
            for groups in ([], ['g1'], ['g1', 'g2']):
                for roles in ([], ['r']):
                    for labels in ([], ['l']):
                        for excl in ([], [{'e': A}], [{'e': A2}], [{'e': B}], [{'a': w.aid[w.A.b]}], [{'a': w.aid[w.B.as_]}], [{'a': w.aid[w.A.n]}]):
                            out.append({'ents': ents, 'perms': perms, 'groups': groups, 'roles': roles, 'labels': labels, 'excl': excl})
    return out

def add_role_sets(roles, rng, users):
    """which users the class-filtered role getters answer for"""
    for name in FILTERED_ROLE_NAMES:
        members = [u for u in users if rng.random() < 0.4]
        if members: roles[('set', name)] = members

def gen_inputs(w, rng):
    groups = {}
    for u in USERS:
        if u is not None: groups[u] = rng.choice([[], ['g1'], ['g2'], ['g1', 'g2'], ['g1', 'zz']])
    roles = {}
    for u in USERS:
        if u is None: continue
        for o in w.objs:
            r = rng.choice([[], [], ['r'], ['r', 'q'], ['self'] if rng.random() < 0.2 else []])
            if r: roles[(u, o)] = r
    add_role_sets(roles, rng, [u for u in USERS if u is not None])
    labels = {}
    for o in w.objs:
        l = rng.choice([[], ['l'], ['l', 'm'], ['m']])
        if o[0] == 2 and rng.random() < 0.5: l = l + ['lb']
        if l: labels[o] = l
    return groups, roles, labels

def all_targets(w):
    ts = [{'e': i} for i in range(len(w.ents))]
    ts += [{'a': i} for i in range(len(w.attrs))]
    ts += [{'o': list(o)} for o in w.objs]
    return ts

# ---------------------------------------------------------------------------------------------------- real code

def reset_rules(w):
    # test-fixture reset: forget the rules declared for the previous case
    for e in w.ents: e._access_rules_.clear()

def declare(w, decls):
    """declare the rules through the public API; returns per declaration the number of refused exclusions or the error name"""
    out = []
    for d in decls:
        try:
            with w.db.set_perms_for(*[w.ents[i] for i in d['ents']]):
                kw = {}
                if len(d['groups']) == 1: kw['group'] = d['groups'][0]
                elif d['groups']: kw['groups'] = d['groups'] if len(d['excl']) % 2 else ', '.join(d['groups'])     # a list or one 'g1, g2' string
                if d['roles']: kw['role'] = ' '.join(d['roles'])
                if d['labels']: kw['labels'] = d['labels']
                if len(d['perms']) > 1 and len(d['excl']) % 2 == 0: rule = perm((', ' if d['roles'] else ' ').join(d['perms']), **kw)    # 'view, edit' / 'view edit'
                else: rule = perm(*d['perms'], **kw) if len(d['perms']) != 1 else perm(', '.join(d['perms']), **kw)
                bad = 0
                for x in d['excl']:
                    try: rule.exclude(w.ents[x['e']] if 'e' in x else w.attrs[x['a']])
                    except TypeError: bad += 1
                out.append(bad)
        except TypeError:
            out.append('TypeError')
    return out

def mk_user(w, u, plain):
    if u is None: return None
    if u[0] == 'U': return plain[u[1]]
    if u[0] == 'S': return u[1]
    return w.P[u[1]]

def mk_target(w, t):
    if 'e' in t: return w.ents[t['e']]
    if 'a' in t: return w.attrs[t['a']]
    return load(w, tuple(t['o']))

def real_warm(w, calls):
    """all calls in one db_session"""
    plain = {i: U(i) for i in range(4)}
    out = []
    with db_session:
        for u, p, t in calls:
            try: out.append(bool(has_perm(mk_user(w, u, plain), p, mk_target(w, t))))
            except Exception as e: out.append(type(e).__name__)
    return out

def real_cold(w, calls):
    out = []
    for u, p, t in calls:
        plain = {i: U(i) for i in range(4)}
        with db_session:
            try: out.append(bool(has_perm(mk_user(w, u, plain), p, mk_target(w, t))))
            except Exception as e: out.append(type(e).__name__)
    return out

def real_can(w, pairs):
    plain = {i: U(i) for i in range(4)}
    out = []
    with db_session:
        for u, t in pairs:
            uu = mk_user(w, u, plain); x = mk_target(w, t)
            row = []
            for fn in (can_view, can_edit, can_create, can_delete):
                try: row.append(bool(fn(uu, x)))
                except Exception as e: row.append(type(e).__name__)
            out.append(row)
    return out

def real_to_json(w, u, data, include, with_schema):
    try: return _real_to_json(w, u, data, include, with_schema)
    except Exception as e:                     # whatever escapes from the real code is the observed outcome
        set_current_user(None)
        return {'error': 'raised ' + type(e).__name__}, None, None

def _real_to_json(w, u, data, include, with_schema):
    plain = {i: U(i) for i in range(4)}
    with db_session:
        uu = mk_user(w, u, plain)
        set_current_user(uu)
        try:
            objs = [load(w, o) for o in data]
            payload = {'items': objs[:1], 'rest': [objs[1:]]} if len(objs) > 1 else objs
            try:
                if len(objs) == 1 and len(include) % 2 == 1: txt = objs[0].to_json(include, (), None, with_schema)     # Entity.to_json
                elif len(objs) == 1 and len(include) == 2: txt = w.ents[data[0][0] if data[0][0] != 1 else 0].select(lambda q: q.id == data[0][1]).to_json(include, with_schema=with_schema)
                else: txt = w.db.to_json(payload, include=include, with_schema=with_schema)
            except core.PermissionError:
                return {'error': 'PermissionError'}, None, None
            except Exception as e:
                return {'error': 'raised ' + type(e).__name__}, None, None
            doc = json.loads(txt)
            got = []
            name2id = {e.__name__: i for i, e in enumerate(w.ents)}
            for cname, d in doc['objects'].items():
                for pk in d: got.append([name2id[cname], int(pk)])
            # the property on the real code: every object in the output passes can_view
            viewable = {tuple(o): bool(can_view(uu, load(w, tuple(o)))) for o in got}
            schema = None
            if with_schema:
                schema = {'entities': [], 'attrs': [], 'bad': []}
                for ed in doc['schema']:
                    e = w.db.entities[ed['name']]
                    schema['entities'].append(w.eid[e])
                    if not can_view(uu, e): schema['bad'].append(ed['name'])
                    for ad in ed['newAttrs']:
                        a = e._adict_[ad['name']]
                        schema['attrs'].append(w.aid[a])
                        if not can_view(uu, a): schema['bad'].append('%s.%s' % (ed['name'], ad['name']))
                        elif a.reverse and not (can_view(uu, a.reverse.entity) and can_view(uu, a.reverse)):
                            schema['bad'].append('%s.%s (its reverse side %s is not viewable)' % (ed['name'], ad['name'], a.reverse))
                schema['entities'].sort(); schema['attrs'].sort()
            return {'ok': sorted(got)}, viewable, schema
        finally:
            set_current_user(None)

# ---------------------------------------------------------------------------------------------------- the declarative reading

def closure(w, ents):
    s = set(ents)
    for e in ents: s.update(w.sub[e])
    return s

def spec(w, decls, inputs, u, p, t, reasons=None):
    """the declared rules read declaratively (independent of the Lean model and of has_perm's control flow)"""
    groups, roles, labels = inputs
    ug = {'anybody'} | set(groups.get(u, ())) if u is not None else {'anybody'}
    rules = []
    for d in decls:
        if not d['perms']: continue
        exE = closure(w, [x['e'] for x in d['excl'] if 'e' in x])
        exA = set(x['a'] for x in d['excl'] if 'a' in x and w.attrs[x['a']].pk_offset is None)
        rules.append((closure(w, d['ents']), set(d['perms']), set(d['groups']) | {'anybody'}, set(d['roles']), set(d['labels']), exE, exA))
    def on_entity(r, e): return e in r[0] and p in r[1] and r[2] <= ug and e not in r[5]
    if 'e' in t:
        return any(on_entity(r, t['e']) for r in rules)
    if 'a' in t:
        a = w.attrs[t['a']]
        if a.hidden: return False
        e = w.eid[a.entity]
        direct = any(on_entity(r, e) and t['a'] not in r[6] for r in rules)
        via = False
        if a.reverse is not None:
            ra = w.aid[a.reverse]; re = w.eid[a.reverse.entity]
            via = any(on_entity(r, re) and ra not in r[6] for r in rules)
        if reasons is not None:
            reasons.append('attr:' + ('direct' if direct else 'reverse-only' if via else 'denied'))
            if via and not direct and not any(e in r[0] and p in r[1] for r in rules): reasons.append('attr:reverse-only-without-forward-rule')
        return direct or via
    o = tuple(t['o'])
    ur = set()
    if u is not None:
        ur = set(roles_of(roles, u, o))
        if u[0] == 'P' and o == (4, u[1]): ur.add('self')
    ol = set(labels.get(o, ()))
    return any(on_entity(r, o[0]) and r[3] <= ur and r[4] <= ol for r in rules)

# ---------------------------------------------------------------------------------------------------- one case

def role_getters(u, o, roles, form):
    """raw answers of the seven registered role getters, in registration order:
       (U, any obj), (P, any obj), (str, any obj), then the class-filtered ones of FILTERED_ROLE_GETTERS"""
    plain = [r for r in roles.get((u, o), ()) if r not in FILTERED_ROLE_NAMES]
    gs = [{'applies': u[0] == k, 'answer': json_answer(raw_form(plain, form)) if u[0] == k else None} for k in ('U', 'P', 'S')]
    for name in FILTERED_ROLE_NAMES:
        reaches = getter_reaches(name, u, o)
        gs.append({'applies': reaches, 'answer': json_answer(raw_form([name], form)) if reaches and u in role_set(roles, name) else None})
    return {'getters': gs}

def label_getters(o, names, form):
    """raw answers of the two registered label getters: (any object), (B objects)"""
    is_b = o[0] == 2
    return {'getters': [{'applies': True, 'answer': json_answer(raw_form([l for l in names if l != 'lb'], form))},
                        {'applies': is_b, 'answer': json_answer(raw_form(['lb'], form)) if is_b and 'lb' in names else None}]}

def json_answer(a):
    return a if a is None or isinstance(a, str) else sorted(a)

def world_request(w, decls, inputs, calls, tojson, schema, form=None):
    groups, roles, labels = inputs
    users = []
    for u in USERS + SUSERS:
        if u is None: continue
        d = {'id': user_json(u), 'groups': list(groups.get(u, [])), 'obj': [4, u[1]] if u[0] == 'P' else None}
        if form is not None:
            # the raw answers of the four registered group getters, in registration order: (U), (P), (str), (None = everybody)
            names = groups.get(u, [])
            d['getters'] = [{'applies': u[0] == k, 'answer': json_answer(raw_form(specific_part(names), form)) if u[0] == k else None} for k in ('U', 'P', 'S')]
            d['getters'].append({'applies': True, 'answer': json_answer(raw_form(extra_part(names), form))})
        users.append(d)
    return {'op': 'world',
            'sub': [[e, s] for e, s in w.sub.items()],
            'attrs': [attr_json(w, a) for a in w.attrs],
            'decls': decls, 'users': users,
            'roles': [[user_json(u), list(o), role_getters(u, o, roles, form) if form is not None else roles_of(roles, u, o)]
                      for u in USERS + SUSERS if u is not None for o in w.objs if roles_of(roles, u, o)],
            'labels': [[list(o), label_getters(o, l, form) if form is not None else l] for o, l in labels.items()],
            'calls': [[user_json(u), p, t] for u, p, t in calls],
            'tojson': tojson, 'schema': schema}

def set_inputs(inputs, form):
    groups, roles, labels = inputs
    STATE['groups'] = dict(groups); STATE['roles'] = dict(roles); STATE['labels'] = dict(labels); STATE['form'] = form

WITNESS_KEY = 'attr-reverse-grant-requires-some-forward-rule'

def classify(w, decls, u, p, t, real, exp):
    """canonical key of a disagreement between the real answer and the declarative reading"""
    if 'a' in t and real is False and exp is True:
        a = w.attrs[t['a']]
        e = w.eid[a.entity]
        if a.reverse is not None and not any(e in closure(w, d['ents']) and p in d['perms'] for d in decls):
            return WITNESS_KEY
    return None

def run_case(ctx, w, decls, inputs, form, rng, full_cold, order_check, kind):
    set_inputs(inputs, form)
    reset_rules(w)
    declared = declare(w, decls)
    targets = all_targets(w)
    perms = ['view', 'edit'] + ([rng.choice(['create', 'delete'])] if any(set(d['perms']) & {'create', 'delete'} for d in decls) else [])
    calls = [(u, p, t) for u in USERS for p in perms for t in targets]
    # repeats inside the same session: every call once more somewhere later
    seq = calls + rng.sample(calls, min(len(calls), 60))
    rng.shuffle(seq)
    warm = real_warm(w, seq)
    cold_calls = calls if full_cold else rng.sample(calls, 25)
    cold = real_cold(w, cold_calls)
    pairs = [(u, t) for u in rng.sample(USERS, 3) for t in rng.sample(targets, 8)]
    cans = real_can(w, pairs)
    # to_json
    tj_req, tj_real = [], []
    def viewable(u, o):
        return spec(w, decls, inputs, u, 'view', {'o': list(o)}) or spec(w, decls, inputs, u, 'edit', {'o': list(o)})
    for tj_i in range(3):
        u = rng.choice(USERS)
        data = rng.sample(w.objs, rng.choice([1, 1, 2, 3]))
        if rng.random() < 0.75:
            # prefer a user who may view something, and data made of objects that user may view
            cands = [(uu, [o for o in w.objs if viewable(uu, o)]) for uu in USERS]
            cands = [c for c in cands if c[1]]
            if cands:
                u, vis = rng.choice(cands)
                data = rng.sample(vis, min(len(vis), rng.choice([1, 2, 3])))
        include = rng.sample([w.A.b, w.B.as_, w.B.cs, w.C.bs], rng.choice([0, 1, 2, 4]))
        related = defaultdict(list)
        for e in w.ents:
            for a in e._attrs_:
                if a in include:
                    for o, l in w.graph[a].items():
                        if w.ents[o[0]] is e: related[o].extend(l)
        with_schema = tj_i == 0 or rng.random() < 0.5
        tj_req.append({'user': user_json(u), 'data': [list(o) for o in data], 'fuel': 40,
                       'related': [[list(o), [list(i) for i in l]] for o, l in related.items()]})
        tj_real.append((u, data, include, real_to_json(w, u, data, include, with_schema)))
    schema_users = [u for u, _, _, (_, _, sch) in tj_real if sch is not None]
    schema_req = [{'user': user_json(u), 'ents': list(range(len(w.ents)))} for u in schema_users]
    schema_real = [sch for _, _, _, (_, _, sch) in tj_real if sch is not None]
    # order independence on the real code: same rules declared in another order
    perm_answers = None
    if order_check and len(decls) > 1:
        d2 = list(decls); rng.shuffle(d2)
        reset_rules(w); declare(w, d2)
        perm_answers = real_warm(w, calls)
        reset_rules(w); declare(w, decls)
    req = world_request(w, decls, inputs, seq, tj_req, schema_req, form)
    req2 = world_request(w, decls, inputs, cold_calls, [], [], form)
    req3 = world_request(w, decls, inputs, [(u, 'view', t) for u, t in pairs], [], [], form)
    return {'decls': decls, 'inputs': inputs, 'form': form, 'declared': declared, 'seq': seq, 'warm': warm, 'calls': calls,
            'cold_calls': cold_calls, 'cold': cold, 'pairs': pairs, 'cans': cans, 'tj': tj_real, 'schema_real': schema_real,
            'perm_answers': perm_answers, 'reqs': [req, req2, req3], 'kind': kind}

def jsonable_inputs(inputs):
    groups, roles, labels = inputs
    return {'groups': {repr(k): v for k, v in groups.items()}, 'roles': {repr(k): v for k, v in roles.items()},
            'labels': {repr(k): v for k, v in labels.items()}}

def describe(w, t):
    if 'e' in t: return w.ents[t['e']].__name__
    if 'a' in t: return '%s.%s' % (w.attrs[t['a']].entity.__name__, w.attrs[t['a']].name)
    return '%s[%d]' % (w.ents[t['o'][0]].__name__, t['o'][1])

def describe_decl(w, d):
    ex = [w.ents[x['e']].__name__ if 'e' in x else describe(w, x) for x in d['excl']]
    return 'set_perms_for(%s): perm(%s, groups=%s, roles=%s, labels=%s).exclude(%s)' % (
        ', '.join(w.ents[e].__name__ for e in d['ents']), d['perms'], d['groups'], d['roles'], d['labels'], ', '.join(ex))

def shrink(w, decls, inputs, form, u, p, t):
    """greedy minimisation of a has_perm-vs-spec disagreement: drop declarations, exclusions, names, provider answers"""
    def bad(ds, inp):
        set_inputs(inp, form); reset_rules(w); declare(w, ds)
        real = real_warm(w, [(u, p, t)])[0]
        return real != spec(w, ds, inp, u, p, t)
    ds = [dict(d) for d in decls]; groups, roles, labels = [dict(x) for x in inputs]
    changed = True
    while changed:
        changed = False
        for i in range(len(ds)):
            cand = ds[:i] + ds[i + 1:]
            if bad(cand, (groups, roles, labels)): ds = cand; changed = True; break
        if changed: continue
        for i, d in enumerate(ds):
            for f in ('excl', 'groups', 'roles', 'labels', 'ents', 'perms'):
                for j in range(len(d[f])):
                    if f in ('ents', 'perms') and len(d[f]) == 1: continue
                    d2 = dict(d); d2[f] = d[f][:j] + d[f][j + 1:]
                    cand = ds[:i] + [d2] + ds[i + 1:]
                    if bad(cand, (groups, roles, labels)): ds = cand; changed = True; break
                if changed: break
            if changed: break
        if changed: continue
        for name, m in (('groups', groups), ('roles', roles), ('labels', labels)):
            for k in list(m):
                m2 = dict(m); del m2[k]
                trial = {'groups': groups, 'roles': roles, 'labels': labels}; trial[name] = m2
                if bad(ds, (trial['groups'], trial['roles'], trial['labels'])):
                    if name == 'groups': groups = m2
                    elif name == 'roles': roles = m2
                    else: labels = m2
                    changed = True; break
            if changed: break
    bad(decls, inputs)   # restore the caller's declarations
    return ds, (groups, roles, labels)

def check_case(ctx, w, c, outs):
    decls, inputs = c['decls'], c['inputs']
    inp = {'decls': [describe_decl(w, d) for d in decls], 'decls_raw': decls, 'inputs': jsonable_inputs(inputs), 'form': c['form']}
    m1, m2, m3 = outs
    for m in outs:
        if 'driver_error' in m:
            ctx.divergence('driver error', inp, model=m, impl=None); return
    # declarations
    if m1['ruleErrors'] != c['declared']:
        ctx.divergence('perm()/exclude() outcome differs', inp, model=m1['ruleErrors'], impl=c['declared'])
    # warm sequence: model tie, spec oracle, repeat stability
    first = {}
    for (u, p, t), real, mw in zip(c['seq'], c['warm'], m1['warm']):
        key = (u, p, json.dumps(t))
        again = key in first
        ctx.case([inp['decls'], repr(u), p, t, c['form'], inp['inputs'] if 'o' in t else None], kind=c['kind'] + (':repeat' if again else ''))
        if real != mw:
            ctx.divergence('has_perm: model and real code disagree', dict(inp, user=repr(u), perm=p, x=describe(w, t)), model=mw, impl=real)
        if again:
            if first[key] != real:
                ctx.violation('a repeated has_perm call in the same session returned a different answer',
                              dict(inp, user=repr(u), perm=p, x=describe(w, t)), observed=real, expected=first[key],
                              key='repeat:%s' % json.dumps([inp['decls'], repr(u), p, describe(w, t)]))
            continue
        first[key] = real
        reasons = []
        exp = spec(w, decls, inputs, u, p, t, reasons)
        for r in reasons: ctx.count('spec:' + r)
        ctx.count('answer:%s:%s' % ('entity' if 'e' in t else 'attr' if 'a' in t else 'object', real))
        if real != exp:
            k = classify(w, decls, u, p, t, real, exp)
            vinp = dict(inp, user=repr(u), perm=p, x=describe(w, t))
            if k is None and ctx.extra.setdefault('shrunk', 0) < 5:
                ctx.extra['shrunk'] += 1
                d2, i2 = shrink(w, decls, inputs, c['form'], u, p, t)
                k = classify(w, d2, u, p, t, real, exp)
                vinp = {'decls': [describe_decl(w, d) for d in d2], 'decls_raw': d2, 'inputs': jsonable_inputs(i2), 'form': c['form'],
                        'user': repr(u), 'perm': p, 'x': describe(w, t)}
                k = k or 'spec:%s' % json.dumps([vinp['decls'], repr(u), p, describe(w, t), vinp['inputs']])
            ctx.violation('has_perm(%r, %r, %s) is %r but the declared rules %s it' % (u, p, describe(w, t), real, 'grant' if exp else 'do not grant'),
                          vinp, observed=real, expected=exp,
                          key=k or 'spec:%s' % json.dumps([inp['decls'], repr(u), p, describe(w, t), inp['inputs']]))
    # cold sessions
    for (u, p, t), real, mc in zip(c['cold_calls'], c['cold'], m2['cold']):
        ctx.case(['cold', inp['decls'], repr(u), p, t], nontrivial=False, kind='cold-session')
        if real != mc:
            ctx.divergence('has_perm in a fresh session: model and real code disagree', dict(inp, user=repr(u), perm=p, x=describe(w, t)), model=mc, impl=real)
        w1 = first.get((u, p, json.dumps(t)))
        if w1 is not None and w1 != real:
            ctx.violation('has_perm answers differently in a warm session and in a session of its own',
                          dict(inp, user=repr(u), perm=p, x=describe(w, t)), observed=w1, expected=real,
                          key='warm-cold:%s' % json.dumps([inp['decls'], repr(u), p, describe(w, t)]))
    # can_*
    for (u, t), real, mc in zip(c['pairs'], c['cans'], m3['can']):
        ctx.case(['can', inp['decls'], repr(u), t], nontrivial=False, kind='can_*')
        if real != mc:
            ctx.divergence('can_view/can_edit/can_create/can_delete: model and real code disagree', dict(inp, user=repr(u), x=describe(w, t)), model=mc, impl=real)
        exp = [spec(w, decls, inputs, u, 'view', t) or spec(w, decls, inputs, u, 'edit', t), spec(w, decls, inputs, u, 'edit', t),
               spec(w, decls, inputs, u, 'create', t), spec(w, decls, inputs, u, 'delete', t)]
        if real != exp and not any(classify(w, decls, u, p, t, False, True) for p in PERMS):
            ctx.violation('can_* differ from the declared rules', dict(inp, user=repr(u), x=describe(w, t)), observed=real, expected=exp,
                          key='can:%s' % json.dumps([inp['decls'], repr(u), describe(w, t)]))
    # order independence
    if c['perm_answers'] is not None:
        base = [first[(u, p, json.dumps(t))] for u, p, t in c['calls']]
        ctx.case(['order', inp['decls']], kind='declaration-order')
        if base != c['perm_answers']:
            i = [a != b for a, b in zip(base, c['perm_answers'])].index(True)
            u, p, t = c['calls'][i]
            ctx.violation('declaring the same rules in another order changes has_perm', dict(inp, user=repr(u), perm=p, x=describe(w, t)),
                          observed=c['perm_answers'][i], expected=base[i], key='order:%s' % json.dumps([inp['decls'], repr(u), p, describe(w, t)]))
    # to_json
    si = 0
    for (u, data, include, (real, viewable, schema)), mt in zip(c['tj'], m1['tojson']):
        ctx.case(['to_json', inp['decls'], repr(u), data, [a.name for a in include]], kind='to_json:' + ('PermissionError' if 'error' in real else 'ok'))
        tinp = dict(inp, user=repr(u), data=[describe(w, {'o': list(o)}) for o in data], include=['%s.%s' % (a.entity.__name__, a.name) for a in include])
        mm = {'error': mt['error']} if 'error' in mt else {'ok': sorted(mt['ok'])}
        if mm != real:
            ctx.divergence('to_json: model and real code disagree on the objects / the PermissionError', tinp, model=mm, impl=real)
        if 'error' in real and real['error'] != 'PermissionError':
            ctx.violation('to_json ended with %s instead of serialising the viewable objects or refusing with PermissionError' % real['error'], tinp,
                          observed=real, expected=mm, key='to_json-raised:%s' % json.dumps([inp['decls'], repr(u), tinp['data'], tinp['include'], real['error']]))
        if 'ok' in real:
            ctx.count('to_json:objects', len(real['ok']))
            for o in real['ok']:
                sv = spec(w, decls, inputs, u, 'view', {'o': o}) or spec(w, decls, inputs, u, 'edit', {'o': o})
                if not viewable[tuple(o)] or not sv:
                    ctx.violation('to_json output contains an object the user may not view', dict(tinp, object=describe(w, {'o': o})),
                                  observed=real, expected='PermissionError', key='to_json:%s' % json.dumps([inp['decls'], repr(u), tinp['data'], tinp['include'], describe(w, {'o': o})]))
            if schema is not None:
                ms = m1['schema'][si]; si += 1
                if sorted(ms['entities']) != schema['entities'] or sorted(ms['attrs']) != schema['attrs']:
                    ctx.divergence('to_json schema: model and real code list different entities/attributes', tinp,
                                   model={'entities': sorted(ms['entities']), 'attrs': sorted(ms['attrs'])}, impl=schema)
                ctx.count('to_json:schema-entities', len(schema['entities']))
                if schema['bad']:
                    ctx.violation('to_json schema lists an entity/attribute the user may not view', dict(tinp, listed=schema['bad']),
                                  observed=schema['bad'], expected=[], key='schema:%s' % json.dumps([inp['decls'], repr(u), schema['bad']]))
        elif schema is not None:
            si += 1

class Boom(Exception):
    pass

EXITS = ['commit', 'rollback', 'commitFails', 'allowed']

def gen_session(w, rng, targets):
    groups = {u: rng.choice([[], [], ['g1'], ['g2'], ['g1', 'g2']]) for u in SUSERS}
    roles = {}
    for u in SUSERS:
        for o in w.objs:
            r = rng.choice([[], [], ['r'], ['r', 'q']])
            if r: roles[(u, o)] = r
    add_role_sets(roles, rng, SUSERS)
    labels = {o: ['l'] + (['lb'] if o[0] == 2 and rng.random() < 0.5 else []) for o in w.objs if rng.random() < 0.5}
    users = SUSERS + [None]
    calls = [(rng.choice(users), rng.choice(['view', 'view', 'edit']), rng.choice(targets)) for _ in range(rng.choice([3, 6, 10]))]
    tj = (rng.choice(SUSERS), rng.choice(w.objs)) if rng.random() < 0.6 else None
    return {'inputs': (groups, roles, labels), 'calls': calls, 'exit': rng.choice(EXITS), 'form': rng.randrange(5), 'tojson': tj}

def real_thread(w, sessions):
    """the sessions one after the other on this thread; returns per session (answers, to_json outcome, how it really ended)"""
    with db_session: pass                        # a committing session first: every history starts with cleared thread caches
    out = []
    for sn in sessions:
        set_inputs(sn['inputs'], sn['form'])
        answers, tj, ended = [], None, 'commit'
        try:
            with (db_session(allowed_exceptions=[Boom]) if sn['exit'] == 'allowed' else db_session):
                for u, p, t in sn['calls']:
                    try: answers.append(bool(has_perm(mk_user(w, u, {}), p, mk_target(w, t))))
                    except Exception as e: answers.append(type(e).__name__)
                if sn['tojson'] is not None:
                    u, o = sn['tojson']
                    set_current_user(u[1])
                    try:
                        doc = json.loads(w.db.to_json([load(w, o)], with_schema=False))
                        tj = sorted(doc['objects'])
                    except core.PermissionError:
                        tj = 'PermissionError'
                    except Exception as e:
                        tj = 'raised ' + type(e).__name__
                    finally:
                        set_current_user(None)
                if sn['exit'] in ('rollback', 'allowed'): raise Boom()
                if sn['exit'] == 'commitFails': w.Z(id=1)
        except Boom:
            ended = 'rollback' if sn['exit'] == 'rollback' else 'commit-after-allowed-exception'
        except core.TransactionIntegrityError:
            ended = 'commit-failed'
        except Exception as e:
            ended = 'raised ' + type(e).__name__
        out.append((answers, tj, ended))
    return out

def part_threads(ctx, w, rng):
    """histories of db_sessions on one thread with memberships changing between the sessions and every kind of exit"""
    targets = [t for t in all_targets(w) if t.get('e') != 5]
    n = ctx.scale(40, 600)
    hists, reqs = [], []
    for i in range(n):
        decls = [gen_decl(w, rng) for _ in range(rng.choice([1, 2, 3]))]
        decls[0] = {'ents': rng.choice([[0, 2, 3], [0, 2], [2, 3], [0]]), 'perms': [rng.choice(['view', 'edit'])], 'groups': [rng.choice(['g1', 'g2'])],
                    'roles': rng.choice([[], [], ['r']]), 'labels': rng.choice([[], [], ['l']]), 'excl': []}
        sessions = [gen_session(w, rng, targets) for _ in range(rng.choice([2, 3, 4, 6]))]
        reset_rules(w); declare(w, decls)
        real = real_thread(w, sessions)
        hists.append((decls, sessions, real))
        reqs.append({'op': 'thread', 'sessions': [dict(world_request(w, decls, sn['inputs'], sn['calls'], [], [], sn['form']),
                                                       exit='commit' if sn['exit'] == 'allowed' else sn['exit']) for sn in sessions]})
    outs = ctx.driver('C34', reqs) if ctx.driver.ok else [None] * len(reqs)
    for (decls, sessions, real), out in zip(hists, outs):
        hinp = {'decls': [describe_decl(w, d) for d in decls],
                'sessions': [{'groups': {k[1]: v for k, v in sn['inputs'][0].items()}, 'exit': sn['exit'],
                              'calls': [[repr(u), p, describe(w, t)] for u, p, t in sn['calls']]} for sn in sessions]}
        ctx.case(['thread', hinp], kind='thread:%d-sessions' % len(sessions))
        expected_end = {'commit': 'commit', 'rollback': 'rollback', 'commitFails': 'commit-failed', 'allowed': 'commit-after-allowed-exception'}
        for i, (sn, (answers, tj, ended)) in enumerate(zip(sessions, real)):
            ctx.count('thread:exit:' + ended)
            if ended != expected_end[sn['exit']]:
                ctx.divergence('the session did not end the way the history asked for', dict(hinp, session=i), model=expected_end[sn['exit']], impl=ended)
            if out is not None:
                if 'answers' not in out: ctx.divergence('driver error', hinp, model=out, impl=None); break
                if out['answers'][i] != answers:
                    ctx.divergence('has_perm across db_sessions: model and real code disagree', dict(hinp, session=i), model=out['answers'][i], impl=answers)
            for (u, p, t), real_a in zip(sn['calls'], answers):
                exp = spec(w, decls, sn['inputs'], u, p, t)
                ctx.case(['thread-call', hinp['decls'], i, repr(u), p, t, sn['inputs'][0].get(u)], nontrivial=False, kind='thread-call')
                if real_a != exp and classify(w, decls, u, p, t, real_a, exp) is None:
                    report_stale(ctx, w, decls, sessions, i, (u, p, t), real_a, exp, hinp)
            if sn['tojson'] is not None:
                u, o = sn['tojson']
                exp_view = spec(w, decls, sn['inputs'], u, 'view', {'o': list(o)}) or spec(w, decls, sn['inputs'], u, 'edit', {'o': list(o)})
                ctx.count('thread:to_json:%s' % ('PermissionError' if tj == 'PermissionError' else 'ok'))
                if isinstance(tj, str) and tj.startswith('raised'):
                    ctx.violation('to_json on behalf of %r ended with %s instead of serialising the object or refusing with PermissionError' % (u[1], tj),
                                  dict(hinp, session=i, object=describe(w, {'o': list(o)})), observed=tj, expected='objects' if exp_view else 'PermissionError',
                                  key='to_json-raised:%s' % json.dumps([hinp['decls'], repr(u), describe(w, {'o': list(o)}), tj]))
                elif (tj != 'PermissionError') != exp_view:
                    report_stale(ctx, w, decls, sessions, i, (u, 'to_json', {'o': list(o)}), tj, 'objects' if exp_view else 'PermissionError', hinp)
    reset_rules(w)

def report_stale(ctx, w, decls, sessions, i, call, observed, expected, hinp):
    """an answer of session i does not follow the memberships of session i: find the shortest history that shows it"""
    u, p, t = call
    if p != 'to_json':
        # does the session fail on its own (nothing to do with earlier sessions)?  then it is a plain disagreement with the rules
        reset_rules(w); declare(w, decls)
        alone = real_thread(w, [dict(sessions[i], calls=[call], exit='commit', tojson=None)])[0][0][0]
        if alone != spec(w, decls, sessions[i]['inputs'], u, p, t):
            d2, i2 = shrink(w, decls, sessions[i]['inputs'], sessions[i]['form'], u, p, t)
            ctx.violation('has_perm(%r, %r, %s) is %r but the declared rules %s it' % (u, p, describe(w, t), alone, 'do not grant' if alone else 'grant'),
                          {'decls': [describe_decl(w, d) for d in d2], 'inputs': jsonable_inputs(i2), 'form': sessions[i]['form'], 'user': repr(u), 'perm': p, 'x': describe(w, t)},
                          observed=alone, expected=not alone, key='spec:%s' % json.dumps([[describe_decl(w, d) for d in d2], repr(u), p, describe(w, t), jsonable_inputs(i2)]))
            reset_rules(w); declare(w, decls)
            return
    if p == 'to_json':
        # the same for to_json: a session that is wrong on its own is not a stale-membership history
        reset_rules(w); declare(w, decls)
        alone = real_thread(w, [dict(sessions[i], calls=[], exit='commit', tojson=(u, tuple(t['o'])))])[0][1]
        if (alone != 'PermissionError') != (expected != 'PermissionError'):
            ctx.violation('to_json on behalf of %r %s %s although the declared rules say the opposite' % (u[1], 'serialises' if alone != 'PermissionError' else 'refuses', describe(w, t)),
                          {'decls': [describe_decl(w, d) for d in decls], 'inputs': jsonable_inputs(sessions[i]['inputs']), 'user': repr(u), 'object': describe(w, t)},
                          observed=alone, expected=expected, key='to_json-alone:%s' % json.dumps([[describe_decl(w, d) for d in decls], repr(u), describe(w, t)]))
            reset_rules(w); declare(w, decls)
            return
    def one(sn, exit_kind):
        c = [(u, 'view' if p == 'to_json' else p, t)]
        return dict(sn, calls=c, exit=exit_kind, tojson=(u, tuple(t['o'])) if p == 'to_json' else None)
    for j in range(i - 1, -1, -1):
        for kind in (sessions[j]['exit'],):
            small = [one(sessions[j], kind), one(sessions[i], 'commit')]
            reset_rules(w); declare(w, decls)
            r = real_thread(w, small)[1]
            got = r[1] if p == 'to_json' else r[0][0]
            exp2 = spec(w, decls, sessions[i]['inputs'], u, 'view' if p == 'to_json' else p, t) if p != 'to_json' else None
            bad = (got != 'PermissionError') != (expected != 'PermissionError') if p == 'to_json' else got != exp2
            if bad:
                # fewest declarations that still show it
                for d in decls:
                    reset_rules(w); declare(w, [d])
                    r1 = real_thread(w, small)[1]
                    g1 = r1[1] if p == 'to_json' else r1[0][0]
                    e1 = spec(w, [d], sessions[i]['inputs'], u, 'view' if p == 'to_json' else p, t) if p != 'to_json' else \
                        (spec(w, [d], sessions[i]['inputs'], u, 'view', t) or spec(w, [d], sessions[i]['inputs'], u, 'edit', t))
                    if ((g1 != 'PermissionError') != e1) if p == 'to_json' else (g1 != e1):
                        decls = [d]; got = g1
                        if p != 'to_json': exp2 = e1
                        else: expected = 'objects' if e1 else 'PermissionError'
                        break
                g_before = sessions[j]['inputs'][0].get(u); g_now = sessions[i]['inputs'][0].get(u)
                ctx.violation('after a db_session that ended by %s, %s for user %r is answered from the groups/roles the user had in that earlier session'
                              % (real_thread_end(kind), 'to_json' if p == 'to_json' else 'has_perm(%r, %s)' % (p, describe(w, t)), u[1]),
                              {'decls': [describe_decl(w, d) for d in decls],
                               'session 1': {'groups of %s' % u[1]: g_before, 'call': [p, describe(w, t)], 'ends by': kind},
                               'session 2': {'groups of %s' % u[1]: g_now, 'call': [p, describe(w, t)]}},
                              observed=got, expected=expected if p == 'to_json' else exp2,
                              key='stale-membership-after:%s:%s' % (kind, 'to_json' if p == 'to_json' else 'has_perm'))
                reset_rules(w); declare(w, decls)
                return
    reset_rules(w); declare(w, decls)
    ctx.violation('an answer in a db_session of a longer history does not follow the declared rules for the memberships of that session', dict(hinp, session=i, call=[repr(u), p, describe(w, t)]),
                  observed=observed, expected=expected, key='stale-membership:%s' % json.dumps([hinp['decls'], i, repr(u), p, describe(w, t)]))

def real_thread_end(kind):
    return {'commit': 'a commit', 'rollback': 'rollback (exception in the body)', 'commitFails': 'a failing commit', 'allowed': 'a commit after an allowed exception'}[kind]

def witness(ctx, w):
    """replayed on every run: the input of `C34_attr_full_false` on the real code"""
    A, B = w.eid[w.A], w.eid[w.B]
    decls = [{'ents': [B], 'perms': ['view'], 'groups': ['g1'], 'roles': [], 'labels': [], 'excl': []}]
    inputs = ({('U', 0): ['g1']}, {}, {})
    set_inputs(inputs, 0); reset_rules(w); declare(w, decls)
    u = ('U', 0)
    ta, tb = {'a': w.aid[w.A.b]}, {'a': w.aid[w.B.as_]}
    r = real_warm(w, [(u, 'view', ta), (u, 'view', tb)])
    decls2 = decls + [{'ents': [A], 'perms': ['view'], 'groups': ['g2'], 'roles': [], 'labels': [], 'excl': []}]
    reset_rules(w); declare(w, decls2)
    r2 = real_warm(w, [(u, 'view', ta)])
    ctx.case(['witness', r, r2], kind='witness')
    ctx.extra['witness'] = {'rules': [describe_decl(w, d) for d in decls], 'user_groups': ['g1'], 'has_perm(u, view, A.b)': r[0], 'has_perm(u, view, B.as_)': r[1],
                            'after adding a rule on A for a group the user is not in: has_perm(u, view, A.b)': r2[0]}
    exp = spec(w, decls, inputs, u, 'view', ta)
    if r[0] != exp:
        ctx.violation('has_perm(user, "view", A.b) is False although the rules on B grant the reverse attribute B.as_ to the user; it becomes True as soon as A has '
                      'ANY rule for "view", even one for a group the user is not in (the reverse-side lookup sits inside the loop over the forward rules, '
                      'after `if not access_rules: return False`)',
                      {'decls': [describe_decl(w, d) for d in decls], 'user_groups': ['g1'], 'x': 'A.b', 'perm': 'view'},
                      observed=r[0], expected=exp, key=WITNESS_KEY)
    reset_rules(w)

def run(ctx):
    global W
    if W is None:
        W = build_world()
        register_providers(W.P); register_entity_user_providers(W.P); register_string_user_providers(); register_class_filtered_role_provider(W); register_class_filtered_label_provider(W.B)
    w = W
    rng = ctx.rng
    witness(ctx, w)
    cases = []
    # has_perm on something that is not an entity / attribute / object
    with db_session:
        try: has_perm(None, 'view', 5); r = 'no error'
        except TypeError: r = 'TypeError'
    ctx.case(['bad-target', r], kind='bad-target')
    if r != 'TypeError': ctx.divergence('has_perm(None, "view", 5) did not raise TypeError', 5, model='TypeError', impl=r)
    singles = exhaustive_single_rules(w)
    if not ctx.thorough: singles = rng.sample(singles, 40)
    for d in singles:
        cases.append(run_case(ctx, w, [d], gen_inputs(w, rng), rng.randrange(5), rng, full_cold=False, order_check=False, kind='single-rule'))
    A_, B_, C_ = w.eid[w.A], w.eid[w.B], w.eid[w.C]
    def rule(ents, perms, excl=(), groups=(), roles=(), labels=()): return {'ents': ents, 'perms': perms, 'groups': list(groups), 'roles': list(roles), 'labels': list(labels), 'excl': list(excl)}
    P_ = w.eid[w.P]
    fixed_sets = [
        # A.b viewable, B viewable (through 'edit'), but B.as_ excluded: the schema must not list A.b
        [rule([A_], ['view']), rule([B_], ['edit'], [{'a': w.aid[w.B.as_]}])],
        [rule([B_], ['view']), rule([A_], ['edit'], [{'a': w.aid[w.A.b]}])],
        [rule([B_, C_], ['view'], [{'a': w.aid[w.C.bs]}]), rule([C_], ['edit'], [{'a': w.aid[w.C.bs]}])],
        [rule([A_, B_], ['view']), rule([B_], ['view'], [{'e': A_}])],
        # the role 'self': a user that IS the entity instance asked about
        [rule([P_], ['view'], roles=['self'])],
        [rule([P_], ['edit'], roles=['self'], groups=['g1']), rule([P_], ['view'], roles=['r'])],
        # labels decide object by object
        [rule([A_, B_], ['view'], labels=['l'])],
        [rule([C_], ['view'], labels=['l', 'm']), rule([C_], ['edit'], labels=['m'])],
    ]
    for decls in fixed_sets:
        cases.append(run_case(ctx, w, decls, gen_inputs(w, rng), rng.randrange(5), rng, full_cold=False, order_check=True, kind='fixed-rules'))
    n = ctx.scale(60, 1500)
    for i in range(n):
        k = rng.choice([0, 1, 2, 2, 3, 3]) if i else 0
        decls = [gen_decl(w, rng) for _ in range(k)]
        if k and rng.random() < 0.35:
            # a broad rule, so that whole object graphs are viewable
            decls[rng.randrange(k)] = {'ents': rng.choice([[0, 2, 3], [0, 2], [2, 3]]), 'perms': [rng.choice(['view', 'edit'])],
                                        'groups': rng.choice([[], ['g1']]), 'roles': [], 'labels': [], 'excl': rng.choice([[], [], [{'e': 1}]])}
        cases.append(run_case(ctx, w, decls, gen_inputs(w, rng), rng.randrange(5), rng, full_cold=(i % 20 == 1), order_check=(i % 3 == 0), kind='%d-rules' % k))
    reset_rules(w)
    part_threads(ctx, w, rng)
    if not ctx.driver.ok:
        ctx.note('driver unavailable: the model tie was skipped, only the oracle on the real code ran')
        for c in cases:
            m1 = {'ruleErrors': c['declared'], 'warm': c['warm'], 'tojson': [], 'schema': []}
            check_case(ctx, w, dict(c, tj=[]), [m1, {'cold': c['cold']}, {'can': c['cans']}])
        return
    reqs = [r for c in cases for r in c['reqs']]
    outs = ctx.driver('C34', reqs)
    for i, c in enumerate(cases):
        check_case(ctx, w, c, outs[3 * i: 3 * i + 3])

def replay(ctx, data):
    run(ctx)
