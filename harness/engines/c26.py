"""C26 — generated schemas are well formed and match the entity model.

Tie, part 1 (names): `normalize_name` and the `get_default_*_name` functions of the four providers vs the model, on a
    grid of names around each dialect's `max_name_len`.
Tie, part 2 (registries): random operation lists (add_table / add_column / add_index / add_foreign_key, valid and
    malformed) on the real `dbschema` classes of each dialect vs `runOps` of the model: error class or the whole schema
    (registries, flags, `schema.names`, `order_tables_to_create`, `get_objects_to_create`).
Tie, part 3 (mapping): random entity diagrams (source text, exec'ed) -> the declarations Pony holds after class creation
    are fed to the model's `generate`; compared with `db.schema` / `attr.columns` / `attr.table` after the real
    `generate_mapping`, for SQLite and (offline provider stubs) PostgreSQL, MySQL, Oracle.
Property oracle: on real in-memory SQLite `generate_mapping(create_tables=False)` either raises or `create_tables()`
    succeeds, the catalog (pragma table_info / index_list / index_info / foreign_key_list) has exactly the columns,
    nullability, primary key, unique constraints, indexes and foreign keys of the schema and of the entity model, and
    `check_tables()` passes; on the other dialects every identifier of the DDL text is within `max_name_len` unless it
    was given explicitly, identifiers are pairwise distinct, and declared names (fk_name, index) are the ones emitted.
    The witnesses of the `_full_false` theorems are replayed on every run.
"""
import itertools, json, re, sqlite3, sys, types
import ponyutil
ponyutil.add_stubs()
from pony.orm import core
from pony.orm.core import Database, Required, Optional, PrimaryKey, Set, Discriminator, EntityMeta, Attribute
from pony.orm.tests.testutils import TestDatabase

DIALECTS = ['sqlite', 'postgres', 'mysql', 'oracle']
MAXLEN = {'sqlite': 1024, 'postgres': 63, 'mysql': 64, 'oracle': 30}
_providers = {}

def provider(dialect):
    if dialect not in _providers:
        db = TestDatabase()
        db.bind(dialect, ':memory:')
        _providers[dialect] = db.provider
    return _providers[dialect]

def exc_cls(e):
    return type(e).__name__

# ---------------------------------------------------------------------------------------------------------------
# part 1: names
# ---------------------------------------------------------------------------------------------------------------

class _E:  # stand-in for an entity class
    def __init__(self, name, pk): self.__name__ = name; self._pk = pk
    def _get_pk_columns_(self): return list(self._pk)

def real_names(dialect, name, other, cols):
    p = provider(dialect)
    ent = _E(name, cols); oth = _E(other, cols)
    attr = types.SimpleNamespace(symmetric=False, entity=ent, name=other)
    sattr = types.SimpleNamespace(symmetric=True, entity=ent, name=other)
    rev = types.SimpleNamespace(entity=oth, name='r')
    cattr = types.SimpleNamespace(name=name)
    return {
        'normalize': p.normalize_name(name),
        'entity_table': p.get_default_entity_table_name(ent),
        'm2m_table': p.get_default_m2m_table_name(attr, rev),
        'm2m_table_sym': p.get_default_m2m_table_name(sattr, sattr),
        'column': p.get_default_column_names(cattr),
        'column_rel': p.get_default_column_names(cattr, list(cols)),
        'm2m_columns': p.get_default_m2m_column_names(ent),
        'index': p.get_default_index_name(name, cols),
        'index_unique': p.get_default_index_name(name, cols, is_unique=True),
        'index_m2m': p.get_default_index_name(name, cols, m2m=True),
        'index_pk': p.get_default_index_name(name, cols, is_pk=True),
        'fk': p.get_default_fk_name(name, other, cols),
    }

def name_pool(rng, dialect):
    m = MAXLEN[dialect]
    base = ['a', 'A', 'Ab', 'aB', 'Name', 'name', 'NAME', 'x_y', 'Order', 'item2', 'Z9', 'q']
    for ln in (m - 5, m - 4, m - 3, m - 2, m - 1, m, m + 1, m + 2, m + 7, m // 2, m // 2 + 1):
        if ln > 0:
            base.append(('Ab' * ln)[:ln]); base.append(('x' * (ln - 1)) + 'Y')
    return base

def names_tie(ctx):
    rng = ctx.rng
    reqs, reals, inputs = [], [], []
    for dialect in DIALECTS:
        pool = name_pool(rng, dialect)
        combos = [(n, rng.choice(pool), rng.choice([['id'], ['a', 'b'], ['K'], [rng.choice(pool)], [rng.choice(pool), 'C2', 'c3']]))
                  for n in pool for _ in range(ctx.scale(2, 6))]
        for n, o, cols in combos:
            reqs.append({'op': 'names', 'dialect': dialect, 'name': n, 'other': o, 'cols': cols})
            reals.append(real_names(dialect, n, o, cols)); inputs.append([dialect, n, o, cols])
    outs = ctx.driver('C26', reqs)
    for inp, real, out in zip(inputs, reals, outs):
        ctx.case(['names'] + inp, kind='tie:names:' + inp[0])
        if out != real:
            diff = {k: (out.get(k), real[k]) for k in real if out.get(k) != real[k]}
            ctx.divergence('default-name functions: model and provider disagree', inp, model={k: v[0] for k, v in diff.items()},
                           impl={k: v[1] for k, v in diff.items()})
        # property on the real functions: every produced default name fits the limit
        for k, v in real.items():
            for nm in (v if isinstance(v, list) else [v]):
                if len(nm) > MAXLEN[inp[0]]:
                    ctx.violation('default name longer than max_name_len', {'dialect': inp[0], 'function': k, 'args': inp[1:]},
                                  observed=len(nm), expected='<= %d' % MAXLEN[inp[0]], key='default-name-too-long:%s:%s' % (inp[0], k))

# ---------------------------------------------------------------------------------------------------------------
# canonical form of a real schema
# ---------------------------------------------------------------------------------------------------------------

def pk_json(v):
    return 'auto' if v == 'auto' else bool(v)

def obj_cmd(o):
    from pony.orm import dbschema
    if isinstance(o, dbschema.Table): return {'k': 'table', 't': o.name}
    if isinstance(o, dbschema.DBIndex): return {'k': 'index', 't': o.table.name, 'n': o.name}
    if isinstance(o, dbschema.ForeignKey): return {'k': 'fk', 't': o.child_table.name, 'n': o.name}
    return {'k': type(o).__name__, 'n': o.name if isinstance(o.name, str) else list(o.name)}

def canon_script(cmds):
    """per table segment: table, indexes (ordered), foreign keys (as a sorted list: part of their order comes from a Python set)"""
    out = []; seg = None
    for c in cmds:
        if c['k'] == 'table':
            seg = {'table': c['t'], 'indexes': [], 'fks': []}; out.append(seg)
        elif c['k'] == 'index': seg['indexes'].append([c['t'], c['n']])
        elif c['k'] == 'fk': seg['fks'].append([c['t'], c['n']])
    for s in out: s['fks'].sort()
    return out

def real_schema_json(schema, with_script=True):
    tables = []
    for t in schema.tables.values():
        tables.append({
            'name': t.name, 'm2m': bool(t.m2m),
            'entities': sorted(getattr(e, '__name__', None) or e.name for e in t.entities),
            'columns': [{'name': c.name, 'notNull': bool(c.is_not_null), 'isPk': pk_json(c.is_pk), 'isPkPart': bool(c.is_pk_part),
                         'unique': bool(c.is_unique)} for c in t.column_list],
            'indexes': [{'name': i.name, 'cols': [c.name for c in i.columns], 'isPk': pk_json(i.is_pk), 'unique': bool(i.is_unique)}
                        for i in t.indexes.values()],
            'fks': [{'name': f.name, 'cols': [c.name for c in f.child_columns], 'parent': f.parent_table.name,
                     'parentCols': [c.name for c in f.parent_columns]} for f in t.foreign_keys.values()],
            'parents': sorted(p.name for p in t.parent_tables)})
    res = {'tables': tables, 'names': list(schema.names), 'order': [t.name for t in schema.order_tables_to_create()]}
    if with_script:
        created = set(); cmds = []
        for t in schema.order_tables_to_create():
            for o in t.get_objects_to_create(created): cmds.append(obj_cmd(o))
        res['script_all'] = cmds
        res['script'] = canon_script(cmds)
    return res

def model_schema_json(ok):
    tables = []
    for t in ok['tables']:
        tables.append({'name': t['name'], 'm2m': t['m2m'], 'entities': sorted(t['entities']),
                       'columns': [{k: c[k] for k in ('name', 'notNull', 'isPk', 'isPkPart', 'unique')} for c in t['columns']],
                       'indexes': [{k: i[k] for k in ('name', 'cols', 'isPk', 'unique')} for i in t['indexes']],
                       'fks': [{k: f[k] for k in ('name', 'cols', 'parent', 'parentCols')} for f in t['fks']],
                       'parents': sorted(set(t['parents']))})
    return {'tables': tables, 'names': ok['names'], 'order': ok['order'], 'script': canon_script(ok['script'])}

def first_diff(a, b, path=''):
    if type(a) != type(b): return '%s: %r != %r' % (path, a, b)
    if isinstance(a, dict):
        for k in sorted(set(a) | set(b)):
            if k not in a or k not in b: return '%s.%s: missing on one side' % (path, k)
            d = first_diff(a[k], b[k], path + '.' + k)
            if d: return d
        return None
    if isinstance(a, list):
        if len(a) != len(b): return '%s: lengths %d != %d (%r vs %r)' % (path, len(a), len(b), a[:6], b[:6])
        for i, (x, y) in enumerate(zip(a, b)):
            d = first_diff(x, y, '%s[%d]' % (path, i))
            if d: return d
        return None
    return None if a == b else '%s: %r != %r' % (path, a, b)

# ---------------------------------------------------------------------------------------------------------------
# part 2: registries, driven directly
# ---------------------------------------------------------------------------------------------------------------

class _Root: pass

class _Conv:
    py_type = int
    attr = types.SimpleNamespace(kwargs={})
    def get_sql_type(self, attr=None): return 'INTEGER'

def fake_entity(name, root, roots):
    r = roots.setdefault(root, _Root())
    cls = type('FakeEntity', (), {'_table_options_': {}})
    e = cls(); e.name = name; e._root_ = r
    if name == root: e._table_options_ = {}   # what `_check_table_options_` does to every root entity
    return e

def real_ops(dialect, ops):
    p = provider(dialect)
    schema = p.dbschema_cls(p)
    roots = {}
    try:
        for op in ops:
            k = op['k']
            if k in ('column', 'index', 'entity') and op['table'] not in schema.tables: return {'error': 'Precondition'}
            if k == 'fk' and (op['table'] not in schema.tables or op['parent'] not in schema.tables): return {'error': 'Precondition'}
            if k == 'table':
                ent = fake_entity(op['entity'], op['root'], roots) if op.get('entity') else None
                schema.add_table(op['name'], ent)
            elif k == 'm2mtable':
                t = schema.add_table(op['name']); t.m2m.add(object())
            elif k == 'entity':
                schema.tables[op['table']].add_entity(fake_entity(op['entity'], op['root'], roots))
            elif k == 'column':
                schema.tables[op['table']].add_column(op['name'], 'INTEGER', _Conv(), op.get('notNull', False))
            elif k == 'index':
                t = schema.tables[op['table']]
                cols = tuple(t.column_dict[c] for c in op['cols'])
                kw = {}
                if op.get('unique') is not None: kw['is_unique'] = op['unique']
                t.add_index(op.get('name'), cols, is_pk=op.get('isPk', False), m2m=op.get('m2m', False), **kw)
            elif k == 'fk':
                t = schema.tables[op['table']]; pt = schema.tables[op['parent']]
                cols = tuple(t.column_dict[c] for c in op['cols'])
                pcols = tuple(pt.column_dict[c] for c in op['parentCols'])
                t.add_foreign_key(op.get('name'), cols, pt, pcols, op.get('index'))
    except Exception as e:
        return {'error': exc_cls(e)}
    # tables without a primary key cannot be rendered (`table.pk_index.columns`): abstract object list only
    try: return {'ok': real_schema_json(schema)}
    except Exception as e: return {'error': 'after-accept:' + exc_cls(e)}

def gen_ops(rng, dialect):
    m = MAXLEN[dialect]
    longs = [('T' + 'a' * m)[:ln] for ln in (m - 6, m - 1, m)]
    tnames = ['t', 'T', 'u', 'Order', 'a_b', 'idx_t__a', 'fk_t__a'] + longs
    cnames = ['a', 'b', 'c', 'A', 'id', 'a_b', 'k' * (m - 3)]
    inames = [None, None, None, True, False, 'ix1', 'IX1', 't', 'idx_t__a', 'u']
    ops = []; tables = []; cols = {}
    n = rng.choice([2, 4, 6, 9, 14])
    for _ in range(n):
        r = rng.random()
        if r < 0.2 or not tables:
            nm = rng.choice(tnames)
            kind = rng.choice(['table', 'table', 'm2mtable'])
            op = {'k': kind, 'name': nm}
            if kind == 'table' and rng.random() < 0.7:
                op['entity'] = rng.choice(['E1', 'E2', 'E3']); op['root'] = rng.choice(['E1', op['entity']])
            ops.append(op)
            if nm not in tables: tables.append(nm); cols[nm] = []
        elif r < 0.45:
            t = rng.choice(tables); c = rng.choice(cnames)
            ops.append({'k': 'column', 'table': t, 'name': c, 'notNull': rng.random() < 0.5}); cols[t].append(c)
        elif r < 0.5:
            ops.append({'k': 'entity', 'table': rng.choice(tables + ['nope']), 'entity': rng.choice(['E1', 'E2', 'E4']), 'root': rng.choice(['E1', 'E2'])})
        elif r < 0.75:
            t = rng.choice(tables)
            cs = rng.sample(cols[t], min(len(cols[t]), rng.choice([1, 1, 2, 3]))) if cols[t] and rng.random() < 0.93 else rng.choice([[], ['zz']])
            ops.append({'k': 'index', 'table': t, 'name': rng.choice(inames), 'cols': cs, 'isPk': rng.choice([False, False, True, 'auto']),
                        'unique': rng.choice([None, None, True, False]), 'm2m': rng.random() < 0.2})
        else:
            t = rng.choice(tables); pt = rng.choice(tables)
            k = rng.choice([1, 1, 2])
            cs = rng.sample(cols[t], min(len(cols[t]), k)) if cols[t] else []
            pcs = rng.sample(cols[pt], min(len(cols[pt]), len(cs) if rng.random() < 0.9 else 1)) if cols[pt] else []
            if rng.random() < 0.05: cs = cs + ['zz']
            ops.append({'k': 'fk', 'table': t, 'name': rng.choice([None, None, None, 'fk1', 'FK1', 'ix1', 't']), 'cols': cs, 'parent': pt, 'parentCols': pcs,
                        'index': rng.choice([None, None, True, False, 'ix2', 'ix1'])})
    return ops

def compare_schema(ctx, what, inp, model_out, real_out):
    """returns True when model and implementation agree"""
    if 'error' in real_out or 'error' in model_out:
        m = model_out.get('error'); r = real_out.get('error')
        ctx.count('outcome:' + (r or 'ok'))
        if m != r:
            ctx.divergence(what + ': outcome differs', inp, model=model_out if m else 'ok', impl=real_out if r else 'ok'); return False
        ctx.count('model-tag:' + model_out.get('tag', '?'))
        return True
    ctx.count('outcome:ok')
    order = real_out['ok']['order']
    if any(p in order and order.index(p) > order.index(t['name']) for t in real_out['ok']['tables'] for p in t['parents']):
        ctx.count('order:pop-branch (a table precedes one of its parents)')
    if any(t['parents'] for t in real_out['ok']['tables']): ctx.count('order:with-foreign-keys')
    ms = model_schema_json(model_out['ok']); rs = {k: v for k, v in real_out['ok'].items() if k != 'script_all'}
    d = first_diff(ms, rs, 'schema')
    if d:
        ctx.divergence(what + ': schemas differ at ' + d, inp, model=None, impl=None); return False
    return True

def check_schema_property(ctx, dialect, real_json, explicit, inp, where):
    """the property's naming clause evaluated on a REAL schema: distinct per namespace, derived names within the limit"""
    m = MAXLEN[dialect]
    tn = [t['name'] for t in real_json['tables']]
    problems = []
    if len(set(tn)) != len(tn): problems.append(('duplicate-table', tn))
    objs = list(tn)
    for t in real_json['tables']:
        cn = [c['name'] for c in t['columns']]
        if len(set(cn)) != len(cn): problems.append(('duplicate-column', t['name'], cn))
        objs += [i['name'] for i in t['indexes'] if i['name'] is not None] + [f['name'] for f in t['fks'] if f['name'] is not None]
        for kind, nms in (('column', cn), ('index', [i['name'] for i in t['indexes']]), ('fk', [f['name'] for f in t['fks']]), ('table', [t['name']])):
            for nm in nms:
                if nm is not None and len(nm) > m and nm not in explicit: problems.append(('too-long', nm, kind))
    if len(set(objs)) != len(objs): problems.append(('duplicate-object-name', sorted(o for o in set(objs) if objs.count(o) > 1)))
    for pr in problems:
        kind = pr[0]
        if kind == 'too-long':
            ctx.count('derived-name-too-long:' + dialect)
            ctx.violation('%s: a derived (not user-given) name is longer than max_name_len=%d' % (where, m), {'dialect': dialect, 'input': inp, 'name': pr[1], 'len': len(pr[1])},
                          observed=len(pr[1]), expected='<= %d' % m, key='derived-name-too-long:' + classify_long(pr[1], pr[2]))
        else:
            ctx.violation('%s: accepted schema has %s' % (where, kind), {'dialect': dialect, 'input': inp, 'detail': pr[1:]}, key='accepted-' + kind + (':registry' if where.startswith('dbschema') else ':mapping'))

def classify_long(nm, kind):
    if kind == 'table' and re.search(r'_\d+$', nm): return 'm2m-table-suffix'
    if kind == 'column' and nm.endswith('_2'): return 'column-suffix-_2'
    return kind

def directed_ops(dialect):
    p = provider(dialect)
    ix = p.get_default_index_name('t', ['a'])
    uq = p.get_default_index_name('t', ['a', 'b'], is_unique=True)
    fk = p.get_default_fk_name('t', 'u', ['a'])
    base = [{'k': 'table', 'name': 't'}, {'k': 'column', 'table': 't', 'name': 'a'}, {'k': 'column', 'table': 't', 'name': 'b'},
            {'k': 'table', 'name': 'u'}, {'k': 'column', 'table': 'u', 'name': 'id', 'notNull': True}]
    out = []
    for nm, mk in ((ix, {'k': 'index', 'table': 't', 'name': None, 'cols': ['a']}),
                   (uq, {'k': 'index', 'table': 't', 'name': None, 'cols': ['a', 'b'], 'unique': True}),
                   ('my_ix', {'k': 'index', 'table': 't', 'name': 'my_ix', 'cols': ['a']}),
                   (fk, {'k': 'fk', 'table': 't', 'name': None, 'cols': ['a'], 'parent': 'u', 'parentCols': ['id'], 'index': False}),
                   ('my_fk', {'k': 'fk', 'table': 't', 'name': 'my_fk', 'cols': ['a'], 'parent': 'u', 'parentCols': ['id'], 'index': False}),
                   (ix, {'k': 'fk', 'table': 't', 'name': None, 'cols': ['a'], 'parent': 'u', 'parentCols': ['id'], 'index': None})):
        for tk in ('table', 'm2mtable'):
            out.append(base + [mk, {'k': tk, 'name': nm}])             # constraint first, table of the same name later
            out.append(base + [{'k': tk, 'name': nm}, mk])             # table first
    for first in ({'k': 'index', 'table': 't', 'name': None, 'cols': ['a'], 'unique': True}, {'k': 'index', 'table': 't', 'name': None, 'cols': ['a'], 'isPk': True},
                  {'k': 'index', 'table': 't', 'name': None, 'cols': ['a'], 'isPk': 'auto'}):
        for later in ({'k': 'index', 'table': 't', 'name': None, 'cols': ['a', 'b']}, {'k': 'index', 'table': 't', 'name': None, 'cols': ['b', 'a'], 'unique': True},
                      {'k': 'fk', 'table': 't', 'name': None, 'cols': ['a', 'b'], 'parent': 't', 'parentCols': ['a', 'b'], 'index': None},
                      {'k': 'index', 'table': 't', 'name': 'again', 'cols': ['a'], 'unique': False}):
            out.append(base + [first, later]); out.append(base + [later, first])
    out.append(base + [{'k': 'index', 'table': 't', 'name': 'same', 'cols': ['a']}, {'k': 'fk', 'table': 't', 'name': 'same', 'cols': ['b'], 'parent': 'u', 'parentCols': ['id'], 'index': False}])
    out.append(base + [{'k': 'fk', 'table': 't', 'name': 'same', 'cols': ['b'], 'parent': 'u', 'parentCols': ['id'], 'index': False}, {'k': 'index', 'table': 't', 'name': 'same', 'cols': ['a']}])
    out.append(base + [{'k': 'fk', 'table': 't', 'name': 'same', 'cols': ['b'], 'parent': 'u', 'parentCols': ['id'], 'index': 'same'}])
    return out

def ops_tie(ctx):
    rng = ctx.rng
    n = ctx.scale(500, 6000)
    batch = [(dialect, ops) for dialect in DIALECTS for ops in directed_ops(dialect)]
    for i in range(n):
        dialect = DIALECTS[i % 4]
        batch.append((dialect, gen_ops(rng, dialect)))
    outs = ctx.driver('C26', [{'op': 'ops', 'dialect': d, 'ops': ops} for d, ops in batch])
    for (dialect, ops), out in zip(batch, outs):
        real = real_ops(dialect, ops)
        ctx.case(['ops', dialect, ops], kind='tie:ops:' + dialect)
        if 'driver_error' in out:
            ctx.divergence('driver rejected an op list', [dialect, ops], model=out, impl=real); continue
        compare_schema(ctx, 'registry ops', [dialect, ops], out, real)
        if 'ok' in real:
            explicit = set()
            for op in ops:
                for k in ('name',):
                    if isinstance(op.get(k), str): explicit.add(op[k])
                if isinstance(op.get('index'), str): explicit.add(op['index'])
            check_schema_property(ctx, dialect, real['ok'], explicit, ops, 'dbschema registries')

# ---------------------------------------------------------------------------------------------------------------
# part 3: diagrams
# ---------------------------------------------------------------------------------------------------------------

HEADER = 'from pony.orm import *\nfrom pony.orm.core import Discriminator\n'

def lit(v):
    return repr(v)

def attr_src(a):
    """source text of one attribute declaration"""
    kind = a['kind']
    args = [a['type'] if not a.get('target') else lit(a['target'])]
    for k in ('reverse', 'column', 'columns', 'reverse_column', 'reverse_columns', 'table', 'index', 'reverse_index', 'fk_name',
              'reverse_fk_name', 'unique', 'nullable', 'auto', 'cascade_delete'):
        if k in a and a[k] is not None: args.append('%s=%s' % (k, lit(a[k])))
    return '%s = %s(%s)' % (a['name'], kind, ', '.join(args))

def diagram_src(spec):
    lines = []
    for e in spec['entities']:
        lines.append('class %s(%s):' % (e['name'], ', '.join(e.get('bases') or ['db.Entity'])))
        if e.get('table') is not None: lines.append('    _table_ = %s' % lit(e['table']))
        if e.get('discriminator') is not None: lines.append('    _discriminator_ = %s' % lit(e['discriminator']))
        for a in e['attrs']: lines.append('    ' + attr_src(a))
        for c in e.get('composites', []): lines.append('    %s(%s)' % (c['f'], ', '.join(c['attrs'])))
        if not e['attrs'] and not e.get('composites') and e.get('table') is None and e.get('discriminator') is None: lines.append('    pass')
    return '\n'.join(lines) + '\n'

def build(spec, db):
    ns = {'db': db}
    exec(HEADER + diagram_src(spec), ns)
    return ns

ID = lambda rng, pool: rng.choice(pool)

def gen_spec(rng, thorough=False):
    """random diagram: <= 4 entities, every attribute kind / option, names around the length limits, case variants"""
    focus = rng.choice(['plain', 'plain', 'inherit', 'inherit', 'long30', 'long63', 'case', 'custom', 'long1024' if rng.random() < 0.3 else 'plain'])
    def long_id(prefix, ln):
        return (prefix + 'abcdefghij' * (ln // 10 + 1))[:ln]
    def ent_name(i):
        base = ['Alpha', 'Beta', 'Gamma', 'Delta'][i]
        if focus == 'long30' and rng.random() < 0.6: return long_id(base, rng.choice([13, 14, 15, 27, 28, 29, 30, 31]))
        if focus == 'long63' and rng.random() < 0.6: return long_id(base, rng.choice([30, 31, 32, 58, 62, 63, 64, 65]))
        if focus == 'long1024' and rng.random() < 0.5: return long_id(base, rng.choice([510, 511, 512, 1023, 1024, 1025]))
        if focus == 'case' and i > 0 and rng.random() < 0.4: return 'ALPHA' if rng.random() < 0.5 else 'AlphA'
        return base
    def attr_name(used):
        pool = ['a', 'b', 'c', 'val', 'name', 'x1', 'owner', 'items', 'link', 'peer', 'tag', 'kind']
        if focus == 'case': pool += ['Name', 'NAME', 'A', 'Val']
        if focus == 'long30': pool += [long_id('at', ln) for ln in (26, 29, 30, 31)]
        if focus == 'long63': pool += [long_id('at', ln) for ln in (60, 62, 63, 64, 66)]
        if focus == 'long1024': pool += [long_id('at', ln) for ln in (1023, 1024, 1025)]
        for _ in range(30):
            n = rng.choice(pool)
            if n not in used: used.add(n); return n
        n = 'z%d' % len(used); used.add(n); return n
    def custom(kind):
        if focus not in ('custom', 'case', 'long30', 'long63') or rng.random() < 0.55: return None
        pool = {'column': ['col_a', 'COL_A', 'a', 'id', 'classtype', 'ref'], 'table': ['tbl', 'TBL', 'alpha', 'Alpha', 'Alpha_Beta', 'link_t'],
                'index': ['ix_a', 'IX_A', 'tbl', 'alpha', 'ix_b'], 'fk': ['fk_a', 'FK_A', 'ix_a', 'fk_b']}[kind]
        if focus == 'long30': pool = pool + [long_id(kind[0], ln) for ln in (29, 30, 31)]
        if focus == 'long63': pool = pool + [long_id(kind[0], ln) for ln in (62, 63, 64)]
        return rng.choice(pool)
    n_ent = rng.choice([1, 2, 2, 3, 3, 4]) if focus != 'inherit' else rng.choice([3, 4, 4])
    ents = []
    used_names = set()
    for i in range(n_ent):
        nm = ent_name(i)
        while nm in used_names: nm = nm + 'X'
        used_names.add(nm)
        e = {'name': nm, 'attrs': [], 'composites': [], 'used': set(), 'bases': None}
        if (i > 0 and rng.random() < 0.3) or (focus == 'inherit' and i > 1 and rng.random() < 0.8):
            base = rng.choice(ents) if focus != 'inherit' else rng.choice(ents[1:] or ents)
            e['bases'] = [base['name']]
            if rng.random() < 0.9: e['used'] = base['used']      # one name pool per hierarchy (else: 'hides base attribute' rejections)
            if rng.random() < 0.15 and len(ents) > 1: e['bases'].append(rng.choice([x for x in ents if x['name'] != e['bases'][0]])['name'])
            if rng.random() < 0.1: e['table'] = custom('table') or 'sub_t'
        else:
            t = custom('table')
            if t is not None: e['table'] = t
        if rng.random() < 0.1: e['discriminator'] = rng.choice([1, 'D' + str(i)])
        ents.append(e)
    def is_root(e): return not e['bases']
    # basic attributes
    for e in ents:
        k = rng.choice([0, 1, 2, 2, 3])
        own_pk = False
        for j in range(k):
            a = {'name': attr_name(e['used']), 'type': rng.choice(['int', 'str', 'str']), 'kind': rng.choice(['Required', 'Required', 'Optional'])}
            if is_root(e) and not own_pk and rng.random() < 0.25:
                a['kind'] = 'PrimaryKey'; own_pk = True
                if a['type'] == 'int' and rng.random() < 0.5: a['auto'] = True
            if rng.random() < 0.25: a['unique'] = True
            if rng.random() < 0.2: a['nullable'] = rng.choice([True, False])
            if rng.random() < 0.25: a['index'] = rng.choice([True, True, False, custom('index') or 'ix_' + a['name'], 'ix_' + a['name']])
            if a.get('index') is False and a.get('unique') and rng.random() < 0.8: a.pop('unique')
            c = custom('column')
            if c is not None: a['column'] = c
            if a['kind'] == 'PrimaryKey': a.pop('unique', None)
            if rng.random() < 0.03: a.pop('column', None); a['columns'] = ['m1', 'm2']
            e['attrs'].append(a)
        if rng.random() < 0.08 and is_root(e):
            e['attrs'].append({'name': attr_name(e['used']), 'type': 'str', 'kind': 'Discriminator', 'column': custom('column')})
        e['own_pk'] = own_pk
    # relationships
    n_rel = rng.choice([0, 1, 1, 2, 2, 3]) if focus != 'inherit' else rng.choice([1, 2, 2, 3])
    for _ in range(n_rel):
        e1 = rng.choice(ents); e2 = rng.choice(ents)
        kind = rng.choice(['o2m', 'o2m', 'm2m', 'm2m', 'o2o', 'sym'])
        if focus == 'inherit' and rng.random() < 0.7:      # references to the composite-key entity, declared in (sub)classes
            e1 = ents[0]; e2 = rng.choice(ents[1:]); kind = rng.choice(['o2m', 'o2m', 'o2m', 'o2o', 'm2m'])
        if kind == 'sym':
            n1 = attr_name(e1['used'])
            a = {'name': n1, 'kind': 'Set', 'target': e1['name'], 'reverse': n1}
            if rng.random() < 0.3: a['table'] = custom('table')
            if rng.random() < 0.3: a['column'] = custom('column')
            if rng.random() < 0.3: a['reverse_column'] = custom('column')
            if rng.random() < 0.2: a['reverse_index'] = custom('index')
            if rng.random() < 0.2: a['index'] = custom('index')
            if rng.random() < 0.2: a['fk_name'] = custom('fk')
            if rng.random() < 0.2: a['reverse_fk_name'] = custom('fk')
            e1['attrs'].append(a); continue
        n1 = attr_name(e1['used']); n2 = attr_name(e2['used'])
        explicit_rev = rng.random() < 0.5 or e1 is e2
        a1 = {'name': n1, 'target': e2['name']}; a2 = {'name': n2, 'target': e1['name']}
        if explicit_rev: a1['reverse'] = n2; a2['reverse'] = n1
        if kind == 'o2m':
            a1['kind'] = 'Set'; a2['kind'] = rng.choice(['Required', 'Optional'])
            if is_root(e2) and not e2['own_pk'] and e1 is not e2 and ents.index(e1) < ents.index(e2) and rng.random() < 0.2:
                a2['kind'] = 'PrimaryKey'; e2['own_pk'] = True
            if rng.random() < 0.3: a2['column'] = custom('column')
            if rng.random() < 0.3: a2['index'] = rng.choice([True, False, custom('index')])
            if rng.random() < 0.12: a2.pop('column', None); a2['columns'] = rng.choice([['r1', 'r2'], ['r1', 'R1'], ['r1']])
            if rng.random() < 0.3: a2['fk_name'] = custom('fk')
            if rng.random() < 0.15: a2['unique'] = True
            if rng.random() < 0.05: a1['table'] = 'bad_t'
            if rng.random() < 0.05: a1['column'] = 'bad_c'
            if rng.random() < 0.15 and a2['kind'] == 'Optional': a2['nullable'] = rng.choice([True, False])
            if rng.random() < 0.12 and a2['kind'] == 'Required': a2['nullable'] = True
        elif kind == 'm2m':
            a1['kind'] = 'Set'; a2['kind'] = 'Set'
            for a in (a1, a2):
                if rng.random() < 0.25: a['table'] = custom('table')
                if rng.random() < 0.25: a['column'] = custom('column')
                if rng.random() < 0.2: a['index'] = rng.choice([True, False, custom('index')])
                if rng.random() < 0.2: a['fk_name'] = custom('fk')
        else:
            a1['kind'] = rng.choice(['Optional', 'Optional', 'Required']); a2['kind'] = 'Optional'
            for a in (a1, a2):
                if rng.random() < 0.2: a['column'] = custom('column')
                if rng.random() < 0.2: a['fk_name'] = custom('fk')
                if rng.random() < 0.2: a['index'] = rng.choice([True, custom('index')])
                if rng.random() < 0.15: a['unique'] = True
        e1['attrs'].append(a1); e2['attrs'].append(a2)
    # composite keys / indexes / primary keys
    for e in ents:
        cand = [a['name'] for a in e['attrs'] if a['kind'] in ('Required', 'Optional')]
        if len(cand) >= 2 and rng.random() < 0.35:
            f = rng.choice(['composite_key', 'composite_index', 'composite_index'])
            e['composites'].append({'f': f, 'attrs': rng.sample(cand, 2)})
        if e['bases']:      # composite keys / indexes of a subclass over inherited (unique, pk, relationship) attributes
            inherited = []; todo = list(e['bases'])
            while todo:
                bn = todo.pop(); b = next(x for x in ents if x['name'] == bn)
                inherited += [b['name'] + '.' + a['name'] for a in b['attrs'] if a['kind'] in ('Required', 'Optional', 'PrimaryKey')]
                todo += list(b['bases'] or [])
            if inherited and rng.random() < 0.6:
                f = rng.choice(['composite_key', 'composite_index'])
                k = rng.choice([1, 1, 2])
                picked = rng.sample(inherited, min(k, len(inherited))) + (rng.sample(cand, 1) if cand else [])
                if len(set(picked)) >= 2: e['composites'].append({'f': f, 'attrs': rng.sample(picked, len(picked))})
        req = [a['name'] for a in e['attrs'] if a['kind'] == 'Required' and a.get('type') != 'float']
        if is_root(e) and not e['own_pk'] and len(req) >= 2 and rng.random() < 0.3:
            e['composites'].append({'f': 'PrimaryKey', 'attrs': rng.sample(req, 2)}); e['own_pk'] = True
    if focus == 'inherit' and not ents[0]['own_pk'] and not any(a['kind'] == 'PrimaryKey' for a in ents[0]['attrs']):
        e0 = ents[0]
        k1 = attr_name(e0['used']); k2 = attr_name(e0['used'])
        e0['attrs'][:0] = [{'name': k1, 'type': 'str', 'kind': 'Required'}, {'name': k2, 'type': 'int', 'kind': 'Required'}]
        e0['composites'].append({'f': 'PrimaryKey', 'attrs': [k1, k2]}); e0['own_pk'] = True
    for e in ents:
        e.pop('used'); e.pop('own_pk')
        for a in e['attrs']:
            for k in [k for k, v in a.items() if v is None]: a.pop(k)
    return {'entities': ents, 'focus': focus}

def idx_json(v):
    return v if v is None or isinstance(v, (bool, str)) else repr(v)

def extract_decls(db):
    """the declarations as Pony holds them after class creation (before generate_mapping); reverse is filled in afterwards"""
    ents = []
    for entity in sorted(db.entities.values(), key=lambda e: e._id_):
        attrs = []
        for a in entity._new_attrs_:
            kind = ('set' if isinstance(a, Set) else 'discriminator' if isinstance(a, Discriminator) else 'pk' if isinstance(a, PrimaryKey)
                    else 'required' if isinstance(a, Required) else 'optional')
            t = a.py_type
            target = t if isinstance(t, str) else (t.__name__ if isinstance(t, EntityMeta) else None)
            attrs.append({'name': a.name, 'kind': kind, 'target': target, 'reverse': None, 'isString': bool(a.type_has_empty_value),
                          'auto': bool(a.auto), 'unique': a.is_unique, 'nullable': a.nullable, 'columns': list(a.columns),
                          'reverseColumns': list(getattr(a, 'reverse_columns', None) or []),
                          'table': getattr(a, 'table', None), 'index': idx_json(a.index), 'reverseIndex': idx_json(getattr(a, 'reverse_index', None)),
                          'fkName': a.fk_name, 'reverseFkName': getattr(a, 'reverse_fk_name', None), '_attr': a})
        ents.append({'name': entity.__name__, 'root': entity._root_.__name__, 'table': entity._table_, 'attrs': attrs,
                     'pkAttrs': [a.name for a in entity._pk_attrs_],
                     'indexes': [{'attrs': [[a.entity.__name__, a.name] for a in ix.attrs], 'isPk': bool(ix.is_pk), 'unique': bool(ix.is_unique)}
                                 for ix in entity._indexes_], '_entity': entity})
    return ents

def finish_decls(decls):
    """fill in the linked reverse attributes; False when linking did not complete (rejection before the modelled part)"""
    ok = True
    for e in decls:
        for a in e['attrs']:
            at = a.pop('_attr')
            if a['target'] is not None:
                r = at.reverse
                if isinstance(r, Attribute) and r.entity is not None and r.entity.__name__ == a['target']: a['reverse'] = r.name
                else: ok = False
            if not (a['table'] is None or isinstance(a['table'], str)): ok = False
        if not (e['table'] is None or isinstance(e['table'], str)): ok = False
        e.pop('_entity')
    return ok

def explicit_names(decls):
    s = set()
    for e in decls:
        if e['table']: s.add(e['table'])
        for a in e['attrs']:
            s.update(a['columns']); s.update(a['reverseColumns'])
            for k in ('table', 'index', 'reverseIndex', 'fkName', 'reverseFkName'):
                if isinstance(a[k], str): s.add(a[k])
    return s

def real_attr_state(db):
    out = []
    for entity in sorted(db.entities.values(), key=lambda e: e._id_):
        for a in entity._new_attrs_:
            out.append({'entity': entity.__name__, 'attr': a.name, 'columns': list(a.columns),
                        'reverseColumns': list(getattr(a, 'reverse_columns', None) or []), 'table': getattr(a, 'table', None)})
    return out

def real_logs(db):
    """what the entity model says is stored where (from the attributes, not from db.schema), in processing order"""
    placed = []; linked = []
    for entity in sorted(db.entities.values(), key=lambda e: e._id_):
        for a in entity._new_attrs_:
            r = a.reverse
            if a.is_collection:
                if not r.is_collection: continue
                sym = r is a
                pkc = list(entity._pk_columns_)
                linked.append({'entity': entity.__name__, 'attr': a.name, 'child': a.table, 'cols': list(r.columns), 'parent': entity._table_, 'parentCols': pkc})
                if sym: linked.append({'entity': entity.__name__, 'attr': a.name, 'child': a.table, 'cols': list(a.reverse_columns), 'parent': entity._table_, 'parentCols': pkc})
                n1, n2 = entity.__name__, r.entity.__name__
                if n1 > n2 or (entity is r.entity and a.name > r.name): continue
                if sym: cols = list(a.columns) + list(a.reverse_columns)
                elif entity is r.entity: cols = list(a.columns) + list(r.columns)
                else: cols = list(r.columns) + list(a.columns)
                placed.append({'table': a.table, 'entity': entity.__name__, 'attr': a.name, 'cols': cols, 'notNull': True})
            else:
                if a.columns:
                    placed.append({'table': entity._table_, 'entity': entity.__name__, 'attr': a.name, 'cols': list(a.columns), 'notNull': not a.nullable})
                    if r:
                        linked.append({'entity': entity.__name__, 'attr': a.name, 'child': entity._table_, 'cols': list(a.columns),
                                       'parent': r.entity._table_, 'parentCols': list(r.entity._pk_columns_)})
    return placed, linked

def real_index_log(db):
    """the indexes the entity model calls for (from entities / attributes, not from db.schema), in the order generate_mapping registers them"""
    out = []
    ents = sorted(db.entities.values(), key=lambda e: e._id_)
    for entity in ents:
        for a in entity._new_attrs_:
            r = a.reverse
            if a.is_collection and r.is_collection:
                n1, n2 = entity.__name__, r.entity.__name__
                if n1 > n2 or (entity is r.entity and a.name > r.name): continue
                if r is a: cols = list(a.columns) + list(a.reverse_columns)
                elif entity is r.entity: cols = list(a.columns) + list(r.columns)
                else: cols = list(r.columns) + list(a.columns)
                out.append({'table': a.table, 'entity': entity.__name__, 'cols': cols, 'isPk': True, 'unique': False})
        if entity._root_ is entity:
            auto = len(entity._pk_columns_) == 1 and bool(entity._pk_attrs_[0].auto)
            out.append({'table': entity._table_, 'entity': entity.__name__, 'cols': list(entity._pk_columns_), 'isPk': 'auto' if auto else True, 'unique': False})
        for ix in entity._indexes_:
            if ix.is_pk: continue
            cols = [c for a in ix.attrs for c in a.columns]
            out.append({'table': entity._table_, 'entity': entity.__name__, 'cols': cols, 'isPk': False, 'unique': bool(ix.is_unique)})
    for entity in ents:
        for a in entity._new_attrs_:
            if a.is_collection or a.reverse or not a.index or not a.columns: continue
            out.append({'table': entity._table_, 'entity': entity.__name__, 'cols': list(a.columns), 'isPk': False, 'unique': bool(a.is_unique)})
    return out

def run_real_mapping(src, dialect, sqlite_real=False):
    """build the diagram, extract declarations, run the real generate_mapping. Returns dict(decls, linked, outcome, db)"""
    if sqlite_real:
        db = Database(); db.bind('sqlite', ':memory:')
    else:
        db = TestDatabase(); db.bind(dialect, ':memory:')
    res = {'db': db, 'decls': None, 'linked': False}
    try:
        exec(HEADER + src, {'db': db})
    except Exception as e:
        res['define_error'] = exc_cls(e); return res
    decls = extract_decls(db)
    try:
        Database.generate_mapping(db, create_tables=False, check_tables=False)
        res['outcome'] = {'ok': real_schema_json(db.schema)}
        res['attrs'] = real_attr_state(db)
        res['log_placed'], res['log_linked'] = real_logs(db)
        res['log_indexed'] = real_index_log(db)
    except RecursionError as e:
        res['outcome'] = {'error': 'RecursionError'}
    except Exception as e:
        res['outcome'] = {'error': exc_cls(e), 'msg': str(e)[:200]}
    res['linked'] = finish_decls(decls)
    res['decls'] = decls
    return res

# --- SQLite catalog --------------------------------------------------------------------------------------------

def q(name):
    return '"' + name.replace('"', '""') + '"'

def catalog(con, tables):
    cat = {}
    for t in tables:
        cols = con.execute('pragma table_info(%s)' % q(t)).fetchall()
        idx = []
        for row in con.execute('pragma index_list(%s)' % q(t)).fetchall():
            iname, unique, origin = row[1], row[2], row[3]
            icols = [r[2] for r in con.execute('pragma index_info(%s)' % q(iname)).fetchall()]
            idx.append({'name': iname, 'unique': bool(unique), 'origin': origin, 'cols': icols})
        fks = {}
        for row in con.execute('pragma foreign_key_list(%s)' % q(t)).fetchall():
            fk = fks.setdefault(row[0], {'parent': row[2], 'cols': [], 'parentCols': [], 'on_delete': row[6]})
            fk['cols'].append(row[3]); fk['parentCols'].append(row[4])
        cat[t] = {'columns': [{'name': c[1], 'notnull': bool(c[3]), 'pk': c[5]} for c in cols], 'indexes': idx, 'fks': list(fks.values())}
    return cat

def ci_collisions(schema_json):
    """names that differ ONLY in letter case (SQLite compares identifiers case-insensitively); exact duplicates are not
    case collisions and are never attributed to the known case-insensitivity findings"""
    def only_case(names):
        groups = {}
        for n in names: groups.setdefault(n.lower(), []).append(n)
        if any(len(g) != len(set(g)) for g in groups.values()): return None      # an exact duplicate: something else is wrong
        return any(len(set(g)) > 1 for g in groups.values())
    out = []
    objs = [t['name'] for t in schema_json['tables']]
    for t in schema_json['tables']:
        r = only_case([c['name'] for c in t['columns']])
        if r is None: return []
        if r: out.append('column')
        objs += [i['name'] for i in t['indexes'] if i['name'] is not None and not i['isPk'] and not i['unique']]
    r = only_case(objs)
    if r is None: return []
    if r: out.append('table' if only_case([t['name'] for t in schema_json['tables']]) else 'index')
    return out

class _Skip(Exception): pass

def store_objects(ctx, db, inp):
    """store one valid object of EVERY entity (each base and each subclass of a hierarchy share a table): values for the
    required attributes only; an integrity error of the database on such an object means the created schema does not
    match the entity model (e.g. a NOT NULL column for an attribute the entity does not have)"""
    counter = itertools.count(1)
    def make(entity, depth):
        if depth > 5: raise _Skip()
        kw = {}
        for a in entity._attrs_:
            if a.is_collection or a.is_discriminator or not a.is_required or a.auto: continue
            if a.reverse: kw[a.name] = make(a.py_type, depth + 1)
            elif a.py_type is int: kw[a.name] = next(counter)
            elif a.py_type is str: kw[a.name] = 's%d' % next(counter)
            else: raise _Skip()
        return entity(**kw)
    for entity in sorted(db.entities.values(), key=lambda e: e._id_):
        try:
            with core.db_session:
                make(entity, 0)
                core.flush()
            ctx.count('stored-object')
        except _Skip:
            ctx.count('store-skipped (cycle of required references)')
        except (core.TransactionIntegrityError, core.IntegrityError) as e:
            ctx.violation('a valid %s object (required attributes only) cannot be stored in the schema Pony created: %s' % (entity.__name__, str(e)[:200]),
                          dict(inp, entity=entity.__name__), observed=exc_cls(e), expected='stored', key='store-integrity-error')
        except Exception as e:
            ctx.count('store-other:' + exc_cls(e))
            ctx.extra.setdefault('store_other_samples', [])
            if len(ctx.extra['store_other_samples']) < 5: ctx.extra['store_other_samples'].append([entity.__name__, exc_cls(e), str(e)[:160], inp['source'][:600]])

def sqlite_oracle(ctx, spec, src, res, model_ok):
    """the property on real SQLite for an ACCEPTED diagram"""
    db = res['db']; real = res['outcome']['ok']
    inp = {'source': src}
    try:
        db.create_tables()
    except Exception as e:
        coll = ci_collisions(real)
        ctx.count('create-failed:' + exc_cls(e))
        if coll:
            ctx.violation('SQLite: generate_mapping accepts names that differ only in letter case, then table creation fails (%s: %s)' % (exc_cls(e), str(e)[:120]),
                          inp, observed=exc_cls(e), expected='rejection by generate_mapping, or successful creation', key='sqlite-case-insensitive-' + coll[0])
        else:
            ctx.violation('generate_mapping accepted the declarations but create_tables failed: %s: %s' % (exc_cls(e), str(e)[:200]), inp,
                          observed=exc_cls(e), expected='tables created', key=None)
        return
    ctx.count('created')
    with core.db_session:
        con = db.get_connection()
        cat = catalog(con, [t['name'] for t in real['tables']])
    expected_schema = model_schema_json(model_ok) if model_ok is not None else real
    def bad(what, table, observed, expected):
        ctx.violation('SQLite catalog differs from the generated schema: ' + what, dict(inp, table=table), observed=observed, expected=expected,
                      key='catalog:' + what)
    for t in expected_schema['tables']:
        c = cat[t['name']]
        if [x['name'] for x in c['columns']] != [x['name'] for x in t['columns']]:
            bad('columns', t['name'], [x['name'] for x in c['columns']], [x['name'] for x in t['columns']]); continue
        pk_idx = [i for i in t['indexes'] if i['isPk']]
        pk_cols = pk_idx[0]['cols'] if pk_idx else []
        cat_pk = [x['name'] for x in sorted((x for x in c['columns'] if x['pk']), key=lambda x: x['pk'])]
        if cat_pk != pk_cols: bad('primary key', t['name'], cat_pk, pk_cols)
        for x, m in zip(c['columns'], t['columns']):
            if m['name'] in pk_cols: continue
            if x['notnull'] != m['notNull']: bad('nullability', t['name'], [x['name'], x['notnull']], [m['name'], m['notNull']])
        exp_unique = sorted(tuple(i['cols']) for i in t['indexes'] if i['unique'] and not i['isPk'])
        got_unique = sorted(tuple(i['cols']) for i in c['indexes'] if i['unique'] and i['origin'] != 'pk')
        if exp_unique != got_unique: bad('unique constraints', t['name'], got_unique, exp_unique)
        exp_idx = sorted((i['name'], tuple(i['cols'])) for i in t['indexes'] if not i['unique'] and not i['isPk'])
        got_idx = sorted((i['name'], tuple(i['cols'])) for i in c['indexes'] if not i['unique'] and i['origin'] == 'c')
        if exp_idx != got_idx: bad('indexes', t['name'], got_idx, exp_idx)
        exp_fk = sorted((f['parent'], tuple(f['cols']), tuple(f['parentCols'])) for f in t['fks'])
        got_fk = sorted((f['parent'], tuple(f['cols']), tuple(f['parentCols'])) for f in c['fks'])
        if exp_fk != got_fk: bad('foreign keys', t['name'], got_fk, exp_fk)
    # the entity model itself (independent of db.schema): one column per mapped attribute column, declared nullability, pk
    for entity in db.entities.values():
        c = cat[entity._table_]
        colnames = [x['name'] for x in c['columns']]
        if entity._root_ is entity:
            cat_pk = [x['name'] for x in sorted((x for x in c['columns'] if x['pk']), key=lambda x: x['pk'])]
            if cat_pk != list(entity._pk_columns_):
                ctx.violation('primary key of the table differs from the entity primary key', dict(inp, entity=entity.__name__), observed=cat_pk,
                              expected=list(entity._pk_columns_), key='entity-pk')
        for a in entity._new_attrs_:
            if a.is_collection: continue
            for col in a.columns:
                if colnames.count(col) != 1:
                    ctx.violation('attribute column missing or duplicated in the created table', dict(inp, attr=repr(a), column=col), observed=colnames,
                                  expected='exactly one ' + col, key='entity-column')
                elif not a.is_pk and a.pk_offset is None:
                    x = c['columns'][colnames.index(col)]
                    if x['notnull'] != (not a.nullable):
                        ctx.violation('declared nullability differs in the created table', dict(inp, attr=repr(a), column=col), observed=x['notnull'],
                                      expected=not a.nullable, key='entity-nullability')
            if a.is_unique and not a.is_pk and a.columns:
                if not any(i['unique'] and i['cols'] == list(a.columns) for i in c['indexes']):
                    ctx.violation('unique attribute has no unique constraint in the created table', dict(inp, attr=repr(a)), observed=c['indexes'],
                                  expected='unique ' + repr(a.columns), key='entity-unique')
            if a.reverse and a.columns:
                pt = a.reverse.entity._table_
                if not any(f['parent'] == pt and f['cols'] == list(a.columns) for f in c['fks']):
                    ctx.violation('relationship attribute has no foreign key in the created table', dict(inp, attr=repr(a)), observed=c['fks'],
                                  expected=[pt, a.columns], key='entity-fk')
    for entity in db.entities.values():
        c = cat[entity._table_]
        for ix in entity._indexes_:
            if not ix.is_unique or ix.is_pk: continue
            cols = [col for a in ix.attrs for col in a.columns]
            if cols and not any(i['unique'] and i['cols'] == cols for i in c['indexes']):
                ctx.violation('a unique key of the entity model is not enforced by the created table (no UNIQUE constraint / index on its columns)',
                              dict(inp, entity=entity.__name__, key_columns=cols), observed=[i for i in c['indexes'] if i['unique']], expected=cols, key='entity-unique-key-not-enforced')
    # converse: every UNIQUE constraint / index of the created tables is one the entity model declares
    for tname, c in cat.items():
        declared = set()
        for entity in db.entities.values():
            if entity._table_ != tname: continue
            for ix in entity._indexes_:
                if ix.is_unique and not ix.is_pk: declared.add(tuple(col for a in ix.attrs for col in a.columns))
        for i in c['indexes']:
            if i['unique'] and i['origin'] != 'pk' and tuple(i['cols']) not in declared and any(e._table_ == tname for e in db.entities.values()):
                ctx.violation('the created table has a UNIQUE constraint the entity model does not declare', dict(inp, table=tname), observed=i['cols'],
                              expected=sorted(declared), key='entity-undeclared-unique')
    store_objects(ctx, db, inp)
    try:
        db.check_tables()
        ctx.count('check_tables-ok')
    except Exception as e:
        ctx.violation('check_tables() fails on the schema Pony has just created: %s: %s' % (exc_cls(e), str(e)[:160]), inp, observed=exc_cls(e),
                      expected='passes', key='check_tables')

IDENT = {'postgres': r'"((?:[^"]|"")*)"', 'oracle': r'"((?:[^"]|"")*)"', 'mysql': r'`((?:[^`]|``)*)`', 'sqlite': r'"((?:[^"]|"")*)"'}

def unq(dialect, text):
    """identifiers of a parenthesised / single quoted-identifier list"""
    return [x.replace('""', '"').replace('``', '`') for x in re.findall(IDENT[dialect], text)]

def parse_ddl(dialect, script):
    """structure of the DDL text: tables (columns with PRIMARY KEY / UNIQUE / NOT NULL, composite primary key, named composite
    unique constraints), CREATE INDEX commands, ADD FOREIGN KEY commands. Independent of dbschema's objects: text only."""
    I = IDENT[dialect]
    tables = {}; indexes = []; fks = []; other = []
    for cmd in script.split(';\n\n'):
        cmd = cmd.strip()
        m = re.match(r'CREATE TABLE (%s) \(\n(.*)\n\)$' % I, cmd, re.S)
        if m:
            t = {'columns': [], 'pk': None, 'unique': []}
            for line in m.group(3 if False else len(m.groups())).split('\n'):
                line = line.strip().rstrip(',')
                if line.startswith('PRIMARY KEY ('): t['pk'] = unq(dialect, line); continue
                mc = re.match(r'CONSTRAINT (%s) UNIQUE (\(.*\))$' % I, line)
                if mc: t['unique'].append((unq(dialect, mc.group(1))[0], unq(dialect, line[mc.end(1):]))); continue
                mc = re.match(r'(%s) (.*)$' % I, line)
                if not mc: other.append(line); continue
                rest = mc.group(len(mc.groups()))
                t['columns'].append({'name': unq(dialect, mc.group(1))[0], 'pk': 'PRIMARY KEY' in rest, 'unique': bool(re.search(r'\bUNIQUE\b', rest)),
                                     'notnull': 'NOT NULL' in rest})
            tables[unq(dialect, m.group(1))[0]] = t; continue
        m = re.match(r'CREATE (UNIQUE )?INDEX (%s) ON (%s)( USING GIN)? (\(.*\))$' % (I, I), cmd)
        if m:
            ids = unq(dialect, cmd); indexes.append((ids[0], ids[1], ids[2:], bool(m.group(1)))); continue
        m = re.match(r'ALTER TABLE (%s) ADD CONSTRAINT (%s) FOREIGN KEY (\([^)]*\)) REFERENCES (%s) (\([^)]*\))' % (I, I, I), cmd)
        if m:
            g = m.groups()
            parts = re.split(r' FOREIGN KEY | REFERENCES ', cmd)
            fks.append((unq(dialect, parts[0])[0], unq(dialect, parts[0])[1], unq(dialect, parts[1]), unq(dialect, parts[2])[0],
                        unq(dialect, parts[2].split(' ON DELETE')[0])[1:])); continue
        other.append(cmd.split('\n')[0][:60])
    return tables, indexes, fks, other

def ddl_structure_oracle(ctx, dialect, script, schema, inp):
    """PostgreSQL / MySQL / Oracle: the DDL text declares exactly the columns (order, NOT NULL), primary keys, unique constraints,
    indexes and foreign keys of the generated schema (the model's when the correspondence holds)"""
    tables, indexes, fks, other = parse_ddl(dialect, script)
    def bad(what, table, observed, expected):
        ctx.violation('%s DDL text differs from the generated schema: %s' % (dialect, what), dict(inp, table=table), observed=observed, expected=expected,
                      key='ddl:' + what)
    for o in other:
        if not (dialect == 'oracle' and (o.startswith('CREATE SEQUENCE') or o.startswith('CREATE TRIGGER'))): ctx.count('ddl-unparsed:' + o[:24])
    if sorted(tables) != sorted(t['name'] for t in schema['tables']): bad('tables', None, sorted(tables), sorted(t['name'] for t in schema['tables'])); return
    exp_idx = []; exp_fk = []
    for t in schema['tables']:
        d = tables[t['name']]
        if [c['name'] for c in d['columns']] != [c['name'] for c in t['columns']]:
            bad('columns', t['name'], [c['name'] for c in d['columns']], [c['name'] for c in t['columns']]); continue
        pk = [i for i in t['indexes'] if i['isPk']]
        pk_cols = pk[0]['cols'] if pk else []
        got_pk = d['pk'] if d['pk'] is not None else [c['name'] for c in d['columns'] if c['pk']]
        if got_pk != pk_cols: bad('primary key', t['name'], got_pk, pk_cols)
        for c, m in zip(d['columns'], t['columns']):
            single_pk = len(pk_cols) == 1 and m['name'] in pk_cols
            if single_pk: continue
            if c['notnull'] != m['notNull']: bad('nullability', t['name'], [c['name'], c['notnull']], [m['name'], m['notNull']])
            uq = any(i['unique'] and not i['isPk'] and i['cols'] == [m['name']] for i in t['indexes'])
            if c['unique'] != uq: bad('inline unique', t['name'], [c['name'], c['unique']], [m['name'], uq])
        exp_u = sorted((i['name'], tuple(i['cols'])) for i in t['indexes'] if i['unique'] and not i['isPk'] and len(i['cols']) > 1)
        got_u = sorted((n, tuple(c)) for n, c in d['unique'])
        if exp_u != got_u: bad('composite unique constraints', t['name'], got_u, exp_u)
        exp_idx += [(i['name'], t['name'], tuple(i['cols'])) for i in t['indexes'] if not i['unique'] and not i['isPk']]
        exp_fk += [(t['name'], f['name'], tuple(f['cols']), f['parent'], tuple(f['parentCols'])) for f in t['fks']]
    got_idx = sorted((n, t, tuple(c)) for n, t, c, u in indexes)
    if sorted(exp_idx) != got_idx: bad('indexes', None, got_idx, sorted(exp_idx))
    if any(u for n, t, c, u in indexes): bad('unexpected CREATE UNIQUE INDEX', None, indexes, None)
    got_fk = sorted((c, n, tuple(cc), p, tuple(pc)) for c, n, cc, p, pc in fks)
    if sorted(exp_fk) != got_fk: bad('foreign keys', None, got_fk, sorted(exp_fk))
    ctx.count('ddl-structure-checked:' + dialect)

def ddl_oracle(ctx, spec, src, dialect, res, decls, model_ok=None):
    """other dialects: the DDL text Pony would execute"""
    db = res['db']; real = res['outcome']['ok']
    inp = {'source': src, 'dialect': dialect}
    try:
        script = db.schema.generate_create_script()
    except Exception as e:
        ctx.violation('generate_create_script raised %s on an accepted mapping' % exc_cls(e), inp, observed=str(e)[:200], expected='DDL text', key=None)
        return
    ctx.count('ddl:' + dialect)
    if dialect != 'sqlite': ddl_structure_oracle(ctx, dialect, script, model_schema_json(model_ok) if model_ok is not None else real, inp)
    explicit = explicit_names(decls)
    m = MAXLEN[dialect]
    check_schema_property(ctx, dialect, real, explicit, inp, 'generate_mapping')
    idents = set(x.replace('""', '"').replace('``', '`') for x in re.findall(IDENT[dialect], script))
    names_in_schema = set(t['name'] for t in real['tables'])
    for t in real['tables']:
        names_in_schema.update(c['name'] for c in t['columns'])
        names_in_schema.update(i['name'] for i in t['indexes'] if i['name'])
        names_in_schema.update(f['name'] for f in t['fks'] if f['name'])
    for nm in sorted(idents):
        if len(nm) > m and nm not in explicit:
            if nm in names_in_schema: continue     # reported by check_schema_property
            kind = 'other'
            if dialect == 'oracle' and (nm.endswith('_SEQ') or nm.endswith('_BI')):
                base = nm[:-4] if nm.endswith('_SEQ') else nm[:-3]
                if len(base) > m: continue         # the table name itself is an over-long explicit / suffixed name
                kind = 'oracle-sequence-trigger'
            ctx.count('ddl-identifier-too-long:' + kind)
            ctx.violation('%s DDL contains a derived identifier longer than max_name_len=%d' % (dialect, m), dict(inp, identifier=nm), observed=len(nm),
                          expected='<= %d' % m, key='ddl-identifier-too-long:' + kind)
    # creation script: every foreign key is added exactly once, after both of its tables
    if dialect != 'sqlite':
        created = set(); emitted = []
        fk_tables = {(t['name'], f['name']): f['parent'] for t in real['tables'] for f in t['fks']}
        for c in real['script_all']:
            if c['k'] == 'table': created.add(c['t'])
            elif c['k'] == 'fk':
                emitted.append((c['t'], c['n']))
                if c['t'] not in created or fk_tables.get((c['t'], c['n'])) not in created:
                    ctx.violation('creation script adds a foreign key before both of its tables exist', dict(inp, fk=c), observed=sorted(created), key='fk-before-table')
        if sorted(emitted) != sorted(fk_tables):
            ctx.violation('creation script does not add every foreign key exactly once', inp, observed=sorted(emitted), expected=sorted(fk_tables), key='fk-not-once')
    # every table / column / named non-unique index / foreign key of the schema is emitted under its name
    for t in real['tables']:
        want = [t['name']] + [c['name'] for c in t['columns']] + [i['name'] for i in t['indexes'] if i['name'] and not i['isPk'] and not (i['unique'] and len(i['cols']) == 1)]
        want += [f['name'] for f in t['fks']]
        for nm in want:
            if nm not in idents:
                ctx.violation('%s DDL does not mention schema object %r' % (dialect, nm), inp, observed=sorted(idents)[:20], expected=nm, key='ddl-missing-object')
    # a link-table foreign key named by `fk_name=` of a Set attribute is the one on that attribute's own columns
    for e in decls:
        for a in e['attrs']:
            if a['kind'] == 'set' and a['fkName'] and a['target']:
                post = next((x for x in res['attrs'] if x['entity'] == e['name'] and x['attr'] == a['name']), None)
                for t in real['tables']:
                    for f in t['fks']:
                        if f['name'] == a['fkName'] and post and t['name'] == post['table'] and f['cols'] != post['columns']:
                            ctx.violation('fk_name=%r of a Set attribute names the foreign key on the wrong link columns (%s)' % (a['fkName'], dialect),
                                          dict(inp, attr=e['name'] + '.' + a['name']), observed=f['cols'], expected=post['columns'], key='m2m-fk_name-on-wrong-columns')
    # declared constraint names are the ones emitted (the entity model names them)
    for e in decls:
        for a in e['attrs']:
            cols = next((x['columns'] for x in res['attrs'] if x['entity'] == e['name'] and x['attr'] == a['name']), [])
            if a['kind'] != 'set' and a['target'] and a['fkName'] and cols:
                if a['fkName'] not in idents:
                    ctx.count('fk_name-ignored')
                    ctx.violation('fk_name=%r declared on the relationship attribute that holds the column is not used for the foreign key (%s DDL)' % (a['fkName'], dialect),
                                  dict(inp, attr=e['name'] + '.' + a['name']), observed=[f['name'] for t in real['tables'] for f in t['fks']],
                                  expected=a['fkName'], key='fk_name-ignored-on-to-one-attribute')

# diagrams run on every run, whatever the seed: inheritance x composite-key references x nullability
_CK = "class Country(db.Entity):\n    code = Required(str)\n    region = Required(int)\n    sites = Set('%s')\n    PrimaryKey(code, region)\n"
FIXED = [
    ('subclass-required-composite-ref',
     _CK % 'Warehouse' + "class Site(db.Entity):\n    name = Required(str)\nclass Warehouse(Site):\n    country = Required(Country)\n    capacity = Required(int)\nclass Office(Site):\n    floor = Optional(int)\n"),
    ('subclass-optional-composite-ref',
     _CK % 'Warehouse' + "class Site(db.Entity):\n    name = Required(str)\nclass Warehouse(Site):\n    country = Optional(Country)\n"),
    ('root-required-nullable-composite-ref',
     _CK % 'Site' + "class Site(db.Entity):\n    name = Required(str, nullable=True)\n    country = Required(Country, nullable=True)\n"),
    ('root-required-composite-ref-custom-columns',
     _CK % 'Site' + "class Site(db.Entity):\n    country = Required(Country, columns=['c_code', 'c_region'], index='ix_site_country', fk_name='fk_site_country')\n"),
    ('sub-subclass-composite-ref-and-key',
     _CK % 'Depot' + "class Site(db.Entity):\n    name = Required(str, unique=True)\nclass Warehouse(Site):\n    capacity = Required(int)\nclass Depot(Warehouse):\n    country = Required(Country)\n    tag = Required(str)\n    composite_key(country, tag)\n"),
    ('composite-pk-with-relation-and-one-to-one',
     "class Person(db.Entity):\n    first = Required(str)\n    last = Required(str)\n    passport = Optional('Passport')\n    stamps = Set('Stamp')\n"
     "    spouse_of = Set('PersonX', reverse='spouse')\n    PrimaryKey(first, last)\n"
     "class Passport(db.Entity):\n    owner = Required(Person)\n    number = Required(int)\n    visas = Set('Visa')\n    PrimaryKey(owner, number)\n"
     "class Visa(db.Entity):\n    passport = Required(Passport)\n    stamps = Set('Stamp')\n"
     "class Stamp(db.Entity):\n    visas = Set(Visa)\n    holder = Optional(Person, nullable=True)\n"
     "class PersonX(Person):\n    spouse = Required(Person, reverse='spouse_of')\n"),
    ('m2m-composite-self',
     "class Node(db.Entity):\n    a = Required(int)\n    b = Required(str)\n    links = Set('Node', reverse='links')\n    out = Set('Node', reverse='inc')\n    inc = Set('Node', reverse='out')\n    PrimaryKey(a, b)\nclass Leaf(Node):\n    parent = Required(Node, reverse='leaves')\n"
     .replace("    PrimaryKey(a, b)\n", "    leaves = Set('Leaf', reverse='parent')\n    PrimaryKey(a, b)\n")),
] + [
    # explicit `table=` of a many-to-many pair: on the primary side (smaller entity / attribute name), on the other side,
    # on both, on neither; colliding with an entity table or with another link table; both declaration orders
    ('m2m-table-later-side-collides-with-entity-table',
     "class Alpha(db.Entity):\n    _table_ = 'Shared'\n    betas = Set('Beta')\nclass Beta(db.Entity):\n    alphas = Set(Alpha, table='Shared')\n"),
    ('m2m-table-primary-side-collides-with-entity-table',
     "class Alpha(db.Entity):\n    _table_ = 'Shared'\n    betas = Set('Beta', table='Shared')\nclass Beta(db.Entity):\n    alphas = Set(Alpha)\n"),
    ('m2m-table-later-side-collides-with-third-entity-default-table',
     "class Alpha(db.Entity):\n    betas = Set('Beta')\nclass Beta(db.Entity):\n    alphas = Set(Alpha, table='Aaa')\nclass Aaa(db.Entity):\n    x = Required(int)\n"),
    ('m2m-table-later-side-collides-reversed-declaration-order',
     "class Beta(db.Entity):\n    alphas = Set('Alpha', table='Shared')\nclass Alpha(db.Entity):\n    _table_ = 'Shared'\n    betas = Set(Beta)\n"),
    ('two-m2m-same-explicit-table-second-on-later-side',
     "class Alpha(db.Entity):\n    betas = Set('Beta', reverse='alphas', table='Link')\n    betas2 = Set('Beta', reverse='alphas2')\n"
     "class Beta(db.Entity):\n    alphas = Set(Alpha, reverse='betas')\n    alphas2 = Set(Alpha, reverse='betas2', table='Link')\n"),
    ('two-m2m-same-explicit-table-both-on-primary-side',
     "class Alpha(db.Entity):\n    betas = Set('Beta', reverse='alphas', table='Link')\n    betas2 = Set('Beta', reverse='alphas2', table='Link')\n"
     "class Beta(db.Entity):\n    alphas = Set(Alpha, reverse='betas')\n    alphas2 = Set(Alpha, reverse='betas2')\n"),
    ('m2m-table-later-side-no-collision',
     "class Alpha(db.Entity):\n    betas = Set('Beta')\nclass Beta(db.Entity):\n    alphas = Set(Alpha, table='Link')\n"),
    ('m2m-table-both-sides-equal',
     "class Alpha(db.Entity):\n    betas = Set('Beta', table='Link')\nclass Beta(db.Entity):\n    alphas = Set(Alpha, table='Link')\n"),
    ('m2m-table-both-sides-different',
     "class Alpha(db.Entity):\n    betas = Set('Beta', table='Link')\nclass Beta(db.Entity):\n    alphas = Set(Alpha, table='Link2')\n"),
    ('two-m2m-default-tables',
     "class Alpha(db.Entity):\n    betas = Set('Beta', reverse='alphas')\n    betas2 = Set('Beta', reverse='alphas2')\n"
     "class Beta(db.Entity):\n    alphas = Set(Alpha, reverse='betas')\n    alphas2 = Set(Alpha, reverse='betas2')\n"),
    ('m2m-default-table-collides-with-entity-table',
     "class Alpha(db.Entity):\n    betas = Set('Beta')\nclass Beta(db.Entity):\n    alphas = Set(Alpha)\nclass Gamma(db.Entity):\n    _table_ = 'Alpha_Beta'\n    x = Required(int)\n"),
    ('entity-default-table-collides-with-default-m2m-table',
     "class Alpha_Beta(db.Entity):\n    x = Required(int)\nclass Alpha(db.Entity):\n    betas = Set('Beta')\nclass Beta(db.Entity):\n    alphas = Set(Alpha)\n"),
    ('self-m2m-table-on-later-attribute-collides-with-own-table',
     "class Node(db.Entity):\n    _table_ = 'Graph'\n    inc = Set('Node', reverse='out')\n    out = Set('Node', reverse='inc', table='Graph')\n"),
    ('self-m2m-table-on-earlier-attribute-collides-with-own-table',
     "class Node(db.Entity):\n    _table_ = 'Graph'\n    inc = Set('Node', reverse='out', table='Graph')\n    out = Set('Node', reverse='inc')\n"),
    ('self-m2m-table-on-later-attribute-no-collision',
     "class Node(db.Entity):\n    inc = Set('Node', reverse='out')\n    out = Set('Node', reverse='inc', table='Edges')\n"),
    ('m2m-fk-names-and-indexes-on-both-sides',
     "class Alpha(db.Entity):\n    betas = Set('Beta', fk_name='fk_to_beta', index='ix_to_beta', column='beta_ref')\n"
     "class Beta(db.Entity):\n    alphas = Set(Alpha, fk_name='fk_to_alpha', index='ix_to_alpha', column='alpha_ref')\n"),
    ('self-m2m-fk-names', "class Node(db.Entity):\n    inc = Set('Node', reverse='out', fk_name='fk_inc')\n    out = Set('Node', reverse='inc', fk_name='fk_out')\n"),
    ('one-to-one-custom-column-on-later-side',
     "class Alpha(db.Entity):\n    beta = Optional('Beta')\nclass Beta(db.Entity):\n    alpha = Optional(Alpha, column='alpha_ref', fk_name='fk_beta_alpha')\n"),
    ('one-to-one-required-and-self',
     "class Alpha(db.Entity):\n    beta = Required('Beta')\n    prev = Optional('Alpha', reverse='next')\n    next = Optional('Alpha', reverse='prev')\n"
     "class Beta(db.Entity):\n    alpha = Optional(Alpha)\n"),
    # a table whose name equals the (derived or explicit) name of an index registered earlier, and the other orders
    ('table-named-like-earlier-composite-index',
     "class Reading(db.Entity):\n    sensor = Required(int)\n    ts = Required(int)\n    composite_index(sensor, ts)\n"
     "class Archive(db.Entity):\n    _table_ = 'idx_reading__sensor_ts'\n    payload = Required(str)\n"),
    ('table-named-like-earlier-composite-key',
     "class Reading(db.Entity):\n    sensor = Required(int)\n    ts = Required(int)\n    composite_key(sensor, ts)\n"
     "class Archive(db.Entity):\n    _table_ = 'unq_reading__sensor_ts'\n    payload = Required(str)\n"),
    ('default-table-named-like-earlier-explicit-unique-index',
     "class Reading(db.Entity):\n    sensor = Required(int, unique=True, index='Archive')\nclass Archive(db.Entity):\n    payload = Required(str)\n"),
    ('m2m-table-named-like-earlier-composite-index',
     "class Areading(db.Entity):\n    sensor = Required(int)\n    ts = Required(int)\n    composite_index(sensor, ts)\n"
     "class Box(db.Entity):\n    items = Set('Item', table='idx_areading__sensor_ts')\nclass Item(db.Entity):\n    boxes = Set(Box)\n"),
    ('default-m2m-table-named-like-earlier-explicit-unique-index',
     "class Areading(db.Entity):\n    sensor = Required(int, unique=True, index='Box_Item')\nclass Box(db.Entity):\n    items = Set('Item')\nclass Item(db.Entity):\n    boxes = Set(Box)\n"),
    ('composite-index-named-like-earlier-table',
     "class Archive(db.Entity):\n    _table_ = 'idx_reading__sensor_ts'\n    payload = Required(str)\n"
     "class Reading(db.Entity):\n    sensor = Required(int)\n    ts = Required(int)\n    composite_index(sensor, ts)\n"),
    ('attribute-index-named-like-later-table',
     "class Reading(db.Entity):\n    sensor = Required(int, index='Archive')\nclass Archive(db.Entity):\n    payload = Required(str)\n"),
    ('foreign-key-named-like-table',
     "class Owner(db.Entity):\n    pets = Set('Pet')\nclass Pet(db.Entity):\n    owner = Required(Owner)\nclass Other(db.Entity):\n    _table_ = 'fk_pet__owner'\n    x = Required(int)\n"),
    ('foreign-key-explicit-name-like-index-and-table',
     "class Owner(db.Entity):\n    tag = Required(int, index='shared_name')\n    pets = Set('Pet')\nclass Pet(db.Entity):\n    owner = Required(Owner, fk_name='shared_name')\n"),
    ('indexed-attribute-inside-composite-key',
     "class Alpha(db.Entity):\n    a = Required(int, index=True)\n    b = Required(int)\n    c = Optional(str, index='ix_c')\n    composite_key(a, b)\n    composite_index(b, c)\n"),
    # subclasses adding composite indexes / keys / attribute indexes over inherited unique, primary-key and relationship attributes
    ('subclass-composite-index-over-inherited-unique',
     "class Person(db.Entity):\n    email = Required(str, unique=True)\n    name = Required(str)\nclass Student(Person):\n    group = Optional(int)\n    composite_index(Person.email, group)\n"),
    ('subclass-composite-key-over-inherited-unique-and-pk',
     "class Person(db.Entity):\n    code = PrimaryKey(str)\n    email = Required(str, unique=True)\n    nick = Optional(str, unique=True)\n"
     "class Student(Person):\n    group = Optional(int)\n    composite_key(Person.email, group)\n    composite_index(Person.code, group)\nclass Tutor(Student):\n    room = Optional(int)\n    composite_index(Person.nick, room, Person.email)\n"),
    ('subclass-composite-index-over-inherited-unique-relationship',
     "class Dept(db.Entity):\n    head = Optional('Person')\n    members = Set('Person', reverse='dept')\n"
     "class Person(db.Entity):\n    heads = Required(Dept, reverse='head', unique=True)\n    dept = Optional(Dept, reverse='members')\n    ssn = Required(int, unique=True)\n"
     "class Student(Person):\n    year = Optional(int)\n    composite_index(Person.heads, year)\n    composite_key(Person.ssn, Person.dept)\n    composite_index(Person.dept, Person.ssn)\n"),
    ('same-entity-unique-then-composite-and-attribute-index',
     "class Person(db.Entity):\n    email = Required(str, unique=True, index='ux_email')\n    name = Required(str, index=True)\n    composite_index(name, email)\n    composite_key(email, name)\n"),
    ('composite-pk-part-unique-and-subclass-index',
     "class Seat(db.Entity):\n    row = Required(int)\n    num = Required(int, unique=True)\n    PrimaryKey(row, num)\nclass Vip(Seat):\n    perk = Optional(str)\n    composite_index(Seat.num, perk)\n    composite_key(Seat.row, perk)\n"),
    ('symmetric-m2m-table-collides-with-other-link-table',
     "class Node(db.Entity):\n    peers = Set('Node', reverse='peers', table='Edges')\n    inc = Set('Node', reverse='out')\n    out = Set('Node', reverse='inc', table='Edges')\n"),
]

def one_to_one_oracle(ctx, dialect, src, res):
    """accepted mapping: a one-to-one relationship is stored on at least one side. (Both sides holding columns is a
    supported configuration, pinned by pony/orm/tests/test_relations_one2one2.py and test_mapping.test_relations4.)"""
    db = res['db']
    for entity in db.entities.values():
        for a in entity._new_attrs_:
            r = a.reverse
            if a.is_collection or not r or r.is_collection: continue
            ctx.count('one-to-one:' + ('both sides stored' if a.columns and r.columns else 'one side stored' if a.columns or r.columns else 'NOT stored'))
            if not a.columns and not r.columns:
                ctx.violation('one-to-one relationship %r - %r is accepted but stored on neither side (no column, no foreign key)' % (a, r),
                              {'source': src, 'dialect': dialect}, observed=[list(a.columns), list(r.columns)], expected='columns on at least one side', key='one-to-one-not-stored')

def declared_tables_oracle(ctx, dialect, src, res):
    """accepted mapping: the link table of a many-to-many pair IS the declared `table=` (given on either side); hence a
    declaration whose explicit link-table name is already taken must have been rejected by generate_mapping"""
    post = {(x['entity'], x['attr']): x for x in res['attrs']}
    tables = [t['name'] for t in res['outcome']['ok']['tables']]
    for e in res['decls']:
        for a in e['attrs']:
            if a['kind'] != 'set' or not isinstance(a['table'], str) or a['target'] is None or a['reverse'] is None: continue
            got = [post[(e['name'], a['name'])]['table'], post.get((a['target'], a['reverse']), {}).get('table')]
            ctx.count('declared-m2m-table-checked')
            if got != [a['table'], a['table']] or tables.count(a['table']) != 1:
                ctx.violation("many-to-many link table differs from the declared table=%r (the name is taken: the declaration should have been rejected "
                              "with MappingError 'Table name ... is already in use')" % a['table'],
                              {'source': src, 'dialect': dialect, 'attr': e['name'] + '.' + a['name']}, observed=got, expected=a['table'],
                              key='m2m-explicit-table-renamed')

def diagrams(ctx):
    rng = ctx.rng
    n = ctx.scale(140, 2500)
    specs = [{'focus': 'fixed:' + name, 'src': src} for name, src in FIXED]
    for _ in range(n):
        spec = gen_spec(rng, ctx.thorough); spec['src'] = diagram_src(spec); specs.append(spec)
    jobs = []   # (spec, src, dialect, res)
    for spec in specs:
        src = spec['src']
        for dialect in DIALECTS:
            res = run_real_mapping(src, dialect, sqlite_real=(dialect == 'sqlite'))
            jobs.append((spec, src, dialect, res))
    reqs = []; idx = []
    for i, (spec, src, dialect, res) in enumerate(jobs):
        if res.get('decls') is not None and res['linked']:
            reqs.append({'op': 'generate', 'dialect': dialect, 'decls': res['decls']}); idx.append(i)
    outs = ctx.driver('C26', reqs) if reqs else []
    model = dict(zip(idx, outs))
    for i, (spec, src, dialect, res) in enumerate(jobs):
        ctx.case(['diagram', dialect, src], kind='diagram:' + dialect)
        ctx.count('focus:' + spec['focus'])
        if 'define_error' in res:
            ctx.count('rejected-at-class-definition:' + res['define_error']); continue
        out = res['outcome']
        m = model.get(i)
        model_ok = None
        if m is None:
            ctx.count('unmodelled-rejection:' + out.get('error', 'ok'))
            if 'ok' in out: ctx.divergence('linking did not complete but generate_mapping succeeded', [dialect, src])
        elif 'driver_error' in m:
            ctx.divergence('driver rejected the declarations', [dialect, src], model=m)
        else:
            if 'error' in out and m.get('error') is None and out['error'] in ('ERDiagramError', 'TypeError') and not mapping_error_is_modelled(out):
                ctx.count('unmodelled-rejection:' + out['error'])
            else:
                agree = compare_schema(ctx, 'generate_mapping[%s]' % dialect, {'dialect': dialect, 'source': src}, m, {k: v for k, v in out.items() if k != 'msg'})
                if agree and 'ok' in m:
                    model_ok = m['ok']
                    ma = [{k: x[k] for k in ('entity', 'attr', 'columns', 'reverseColumns', 'table')} for x in m['attrs']]
                    d = first_diff(ma, res['attrs'], 'attrs')
                    if d: ctx.divergence('attr.columns / attr.table differ at ' + d, [dialect, src])
                    # the logs the theorems C26_columns / C26_foreign_keys speak about vs the entity model of the real code
                    d = first_diff([p for p in m['placed'] if p['cols']], res['log_placed'], 'placed')
                    if d: ctx.divergence('column placement log differs from attr.columns / attr.nullable at ' + d, [dialect, src])
                    d = first_diff(m['linked'], res['log_linked'], 'linked')
                    if d: ctx.divergence('foreign-key log differs from the relationship attributes at ' + d, [dialect, src])
                    d = first_diff(m['indexed'], res['log_indexed'], 'indexed')
                    if d: ctx.divergence('index log differs from the primary keys / declared indexes of the entity model at ' + d, [dialect, src])
                    ctx.count('log:placed', len(res['log_placed'])); ctx.count('log:linked', len(res['log_linked'])); ctx.count('log:indexed', len(res['log_indexed']))
                    # ghost provenance tags: `explicit` only for names that really are user-given
                    explicit = explicit_names(res['decls'])
                    for t in m['ok']['tables']:
                        for nm, s in [(t['name'], t['src'])] + [(c['name'], c['src']) for c in t['columns']] + \
                                     [(x['name'], x['src']) for x in t['indexes'] + t['fks'] if x['name'] is not None]:
                            ctx.count('src:' + s)
                            if s == 'explicit' and nm not in explicit:
                                ctx.divergence('model tags a derived name as explicit', [dialect, src, nm])
                            if s == 'norm' and len(nm) > MAXLEN[dialect]:
                                ctx.divergence('model tags an over-long name as normalised', [dialect, src, nm])
        if 'ok' in out:
          try:
            if dialect == 'sqlite': check_schema_property(ctx, dialect, out['ok'], explicit_names(res['decls']), {'source': src}, 'generate_mapping')
            if res['linked']: declared_tables_oracle(ctx, dialect, src, res)
            one_to_one_oracle(ctx, dialect, src, res)
            if dialect == 'sqlite': sqlite_oracle(ctx, spec, src, res, model_ok)
            else: ddl_oracle(ctx, spec, src, dialect, res, res['decls'], model_ok)
          except Exception as e:
            import traceback
            ctx.count('oracle-exception:' + exc_cls(e))
            ctx.violation('an exception escaped from the real code while the accepted mapping was being checked: %s: %s' % (exc_cls(e), str(e)[:200]),
                          {'source': src, 'dialect': dialect, 'traceback': traceback.format_exc()[-600:]}, observed=exc_cls(e), expected='no exception', key=None)
        else:
            ctx.count('rejected-at-generate:' + out['error'])
        try: res['db'].disconnect()
        except Exception: pass

def mapping_error_is_modelled(out):
    msg = out.get('msg', '')
    return 'must be nullable' in msg and 'Optional attribute with non-string type' in msg or 'In Oracle, optional string' in msg

# ---------------------------------------------------------------------------------------------------------------
# witnesses of the `_full_false` theorems, replayed on the real code
# ---------------------------------------------------------------------------------------------------------------

WITNESSES = [
    ('sqlite-case-insensitive-column', 'class Alpha(db.Entity):\n    Name = Required(str)\n    name = Required(str)\n'),
    ('sqlite-case-insensitive-table', 'class Ab(db.Entity):\n    x = Required(str)\nclass AB(db.Entity):\n    x = Required(str)\n'),
    ('sqlite-case-insensitive-index', "class Alpha(db.Entity):\n    x = Required(str, index='IX')\n    y = Required(str, index='ix')\n"),
]

def witnesses(ctx):
    for key, src in WITNESSES:
        db = Database(); db.bind('sqlite', ':memory:')
        exec(HEADER + src, {'db': db})
        ctx.case(['witness', key], kind='witness')
        try:
            db.generate_mapping(create_tables=False, check_tables=False)
        except Exception as e:
            ctx.note('witness %s is now rejected by generate_mapping (%s)' % (key, exc_cls(e))); continue
        try:
            db.create_tables()
            ctx.note('witness %s: tables are now created' % key)
        except Exception as e:
            ctx.violation('SQLite: generate_mapping accepts names that differ only in letter case, then table creation fails (%s: %s)' % (exc_cls(e), str(e)[:120]),
                          {'source': src}, observed=exc_cls(e), expected='rejection by generate_mapping, or successful creation', key=key)
    # witness of C26_len_full_false (Lean: `lenWitness`), and its table-name variant: suffixes appended after normalisation
    n29 = 'A' + 'a' * 28
    a14 = 'A' + 'a' * 13; b15 = 'B' + 'b' * 14
    LEN = [
        ('column-suffix-_2', 'oracle', "class %s(db.Entity):\n    x = Set('%s', reverse='x', fk_name='f1', reverse_fk_name='f2')\n" % (n29, n29)),
        ('m2m-table-suffix', 'oracle',
         ("class %s(db.Entity):\n    x = Set('%s', reverse='p', fk_name='f1', index='i1')\n    y = Set('%s', reverse='q', fk_name='f3', index='i3')\n"
          "class %s(db.Entity):\n    p = Set('%s', reverse='x', fk_name='f2', index='i2')\n    q = Set('%s', reverse='y', fk_name='f4', index='i4')\n") % (a14, b15, b15, b15, a14, a14)),
    ]
    for kind, dialect, src in LEN:
        db = TestDatabase(); db.bind(dialect, ':memory:')
        exec(HEADER + src, {'db': db})
        ctx.case(['witness', 'len', kind], kind='witness')
        decls = extract_decls(db)
        try:
            Database.generate_mapping(db, create_tables=False, check_tables=False)
        except Exception as e:
            ctx.note('length witness %s is now rejected by generate_mapping (%s)' % (kind, exc_cls(e))); continue
        real = real_schema_json(db.schema)
        finish_decls(decls)
        before = len(ctx.violations) + len(ctx.known_hits)
        check_schema_property(ctx, dialect, real, explicit_names(decls), {'source': src}, 'generate_mapping')
        if len(ctx.violations) + len(ctx.known_hits) == before:
            ctx.note('length witness %s: all derived names now fit' % kind)
    # Oracle: sequence / trigger names derived from a table name that fits
    src = 'class CustomerOrderLineItemDiscounts(db.Entity):\n    x = Required(str)\n'
    res = run_real_mapping(src, 'oracle')
    ctx.case(['witness', 'oracle-sequence'], kind='witness')
    if 'ok' in res.get('outcome', {}): ddl_oracle(ctx, None, src, 'oracle', res, res['decls'])
    # creation order: a table that merely depends on a cycle
    p = provider('postgres')
    schema = p.dbschema_cls(p)
    for t in 'abc':
        tb = schema.add_table(t); tb.add_column('id', 'INTEGER', _Conv(), True); tb.add_column('r', 'INTEGER', _Conv(), True)
        tb.add_index(None, (tb.column_dict['id'],), is_pk=True)
    ta, tb, tc = (schema.tables[t] for t in 'abc')
    ta.add_foreign_key(None, (ta.column_dict['r'],), tb, (tb.column_dict['id'],))
    tb.add_foreign_key(None, (tb.column_dict['r'],), ta, (ta.column_dict['id'],))
    tc.add_foreign_key(None, (tc.column_dict['r'],), ta, (ta.column_dict['id'],))
    order = [t.name for t in schema.order_tables_to_create()]
    ctx.case(['witness', 'order-cycle', order], kind='witness')
    ctx.extra['order_witness'] = order
    if order.index('c') > order.index('a'):
        ctx.note('order witness: c is now created after its parent a')
    # ... which is harmless: every foreign key is emitted once, after both of its tables
    created = set(); seen = []
    for t in schema.order_tables_to_create():
        for o in t.get_objects_to_create(created):
            c = obj_cmd(o)
            if c['k'] == 'fk':
                f = o
                if f.child_table not in created or f.parent_table not in created:
                    ctx.violation('foreign key emitted before both tables exist', {'order': order, 'fk': c}, key='fk-before-table')
                seen.append(c['n'])
    if sorted(seen) != sorted(f.name for t in schema.tables.values() for f in t.foreign_keys.values()):
        ctx.violation('foreign keys not emitted exactly once', {'order': order, 'emitted': seen}, key='fk-not-once')

def run(ctx):
    if not ctx.driver.ok:
        ctx.note('driver unavailable: ties skipped')
    else:
        names_tie(ctx)
        ops_tie(ctx)
    witnesses(ctx)
    if ctx.driver.ok:
        diagrams(ctx)

def replay(ctx, data):
    inp = data.get('input') or {}
    src = inp.get('source') if isinstance(inp, dict) else None
    if src:
        dialect = inp.get('dialect', 'sqlite')
        res = run_real_mapping(src, dialect, sqlite_real=(dialect == 'sqlite'))
        ctx.case(['replay', dialect, src], kind='replay')
        if 'ok' in res.get('outcome', {}):
            if res['linked']: declared_tables_oracle(ctx, dialect, src, res)
            one_to_one_oracle(ctx, dialect, src, res)
            if dialect == 'sqlite': sqlite_oracle(ctx, None, src, res, None)
            else: ddl_oracle(ctx, None, src, dialect, res, res['decls'])
    else:
        run(ctx)
