"""C31 — serialised and pickled objects reflect current state and round-trip.

Tie (correspondence): the hand model of `Bag._reduce_composite_pk` (Lean: Model/Serial.lean, `reducePk`/`decodePk`) is run
by the Lean driver on the same keys as the real function: exhaustive over short strings of the metacharacters `*` `,`
plus random longer keys, non-string parts (through `str()`), and in the other direction (Lean decoder output re-encoded
by the real function).  The keys the real `Bag.to_dict` emits in the state oracle are decoded by the Lean decoder too.

Property oracle (differential only — no theorem is claimed about this part): random small models (composite / simple /
reference keys, one-to-many, one-to-one, many-to-many) and random states on real Pony over SQLite;
  * `Entity.to_dict` (all option combinations), `serialization.to_dict`/`Bag`/`to_json` are compared with an independent
    shadow of the intended state after random modifications (flushed or not);
  * `pickle.dumps` of entities / lists / QueryResult / Query / SetInstance in one db_session, `pickle.loads` in another,
    every attribute compared with the shadow.
The real-code injectivity oracle (no two distinct keys share an encoding) is part of the tie run.
"""
import itertools, json, os, pickle, sys
from datetime import date
from decimal import Decimal
from pony.orm import Database, Required, Optional, Set, PrimaryKey, LongStr, db_session, select, commit, flush
from pony.orm import core
from pony.orm import serialization
from pony.orm.serialization import Bag

THIS = sys.modules[__name__]

# ----------------------------------------------------------------------------------------------------------------
# part 1: key encoding — model vs real, real-code injectivity
# ----------------------------------------------------------------------------------------------------------------

def ref_reduce(parts):
    """engine-side reference of the intended encoding (escape * as **, , as *, ; join with ,) — used only to build expectations"""
    out = []
    for p in parts:
        s = ''
        for ch in str(p):
            s += '**' if ch == '*' else '*,' if ch == ',' else ch
        out.append(s)
    return ','.join(out)

def real_reduce(pk):
    try:
        return {'ok': Bag._reduce_composite_pk(None, pk)}
    except Exception as e:
        return {'error': type(e).__name__}

def short_strings(alph, n):
    out = ['']
    for k in range(1, n + 1):
        out += [''.join(t) for t in itertools.product(alph, repeat=k)]
    return out

def key_tie(ctx):
    rng = ctx.rng
    ss = short_strings('*,a', 3)                       # 40 strings
    keys = [[a, b] for a in ss for b in ss]             # every 2-part key over them
    big = ['*', ',', 'a', 'b', ' ', "'", '"', '\\', 'é', '中', '\U0001f600', '\n', '0', '-']
    for _ in range(ctx.scale(1500, 30000)):
        n = rng.choice([1, 2, 2, 3, 3, 4, 5])
        if rng.random() < 0.6: keys.append([rng.choice(ss) for _ in range(n)])
        else: keys.append([''.join(rng.choice(big[:3] if rng.random() < 0.7 else big) for _ in range(rng.choice([0, 1, 2, 4, 7, 12]))) for _ in range(n)])
    # adversarial pairs: the same concatenation split at different places
    for s in ['a,b', 'a*,b', '**,,**', ',*,*,', '*,*,*', 'a**b,,c']:
        for i in range(len(s) + 1):
            keys.append([s[:i], s[i:]])
            for j in range(i, len(s) + 1): keys.append([s[:i], s[i:j], s[j:]])
    typed = []
    for _ in range(ctx.scale(200, 2000)):
        typed.append([rng.choice([0, 1, -1, 10, -10, 2**63, True, None, date(2020, 1, rng.randint(1, 28)), Decimal('1.50'), 1.5, 'x,*'])
                      for _ in range(rng.choice([2, 3]))])
    reals = [real_reduce(tuple(k)) for k in keys] + [real_reduce(tuple(k)) for k in typed]
    strkeys = keys + [[str(i) for i in k] for k in typed]
    # real-code injectivity oracle (string keys only: str() of differently typed parts may coincide by design)
    seen = {}
    for k, r in zip(keys, reals):
        ctx.case(['encode', k], kind='oracle:key-injective', nontrivial=any(('*' in p or ',' in p) for p in k))
        if 'ok' not in r:
            ctx.violation('_reduce_composite_pk raised on a string key', {'key': k}, observed=r, expected='a string', key='reduce-raises:%r' % (k,)); continue
        prev = seen.setdefault(r['ok'], k)
        if prev != k:
            a, b = sorted([prev, k])
            ctx.violation('two distinct composite keys have the same encoding', {'key1': a, 'key2': b, 'encoding': r['ok']},
                          observed=r['ok'], expected='distinct encodings', key='pk-collision:%r|%r' % (a, b))
        if r['ok'] != ref_reduce(k):
            ctx.count('real-differs-from-reference-encoding')
    ctx.count('tie:keys-with-star', sum(1 for k in keys if any('*' in p for p in k)))
    ctx.count('tie:keys-with-comma', sum(1 for k in keys if any(',' in p for p in k)))
    ctx.count('tie:keys-with-empty-part', sum(1 for k in keys if any(p == '' for p in k)))
    if not ctx.driver.ok:
        ctx.note('driver unavailable: key-encoding tie skipped'); return
    outs = ctx.driver('C31', [{'op': 'reduce', 'parts': k} for k in strkeys])
    good = []
    for k, r, o in zip(strkeys, reals, outs):
        ctx.case(['tie-reduce', k], kind='tie:reduce')
        m = {'ok': o['ok']} if 'ok' in o else o
        if m != r:
            ctx.divergence('Lean reducePk and the real _reduce_composite_pk disagree', {'parts': k}, model=m, impl=r)
        elif 'ok' in r: good.append((k, r['ok']))
    # the Lean decoder applied to the REAL encodings gives the key back
    outs = ctx.driver('C31', [{'op': 'decode', 's': s} for _, s in good])
    for (k, s), o in zip(good, outs):
        ctx.case(['tie-decode', s], kind='tie:decode-of-real-encoding')
        if o.get('ok') != k:
            ctx.divergence('Lean decodePk does not invert the real encoding', {'parts': k, 'encoding': s}, model=o, impl=k)
    # the other direction: arbitrary texts; whatever the Lean decoder accepts must re-encode (real function) to the text
    texts = short_strings('*,a', 4) + [''.join(rng.choice('*,ab') for _ in range(rng.randint(5, 12))) for _ in range(ctx.scale(300, 5000))]
    outs = ctx.driver('C31', [{'op': 'decode', 's': s} for s in texts])
    for s, o in zip(texts, outs):
        parts = o.get('ok')
        ctx.case(['tie-redecode', s], kind='tie:decode-arbitrary-text', nontrivial=parts is not None)
        ctx.count('decode:' + ('accepted' if parts is not None else 'rejected'))
        if parts is not None:
            r = real_reduce(tuple(parts))
            if r != {'ok': s}:
                ctx.divergence('text accepted by the Lean decoder is not the real encoding of the decoded key', {'text': s, 'decoded': parts}, model=s, impl=r)

# ----------------------------------------------------------------------------------------------------------------
# part 2: random models and states on real Pony
# ----------------------------------------------------------------------------------------------------------------

PARTS = ['', '*', ',', 'a', 'b', '**', '*,', ',*', ',,', 'a*', 'a,', ',a', '*a', '*,*', 'a,b', 'é']
K_TRUNC = 'bag:collection-keys-truncated:single-pk-attribute-over-composite-key'
K_LOSES = 'bag:given-object-also-related-loses-collection-attrs'
K_M2M = 'pickle:m2m-SetInstance-unpickles-empty'
K_CYCLE = 'pickle:RecursionError-on-loaded-reference-cycle'

def register(classes):
    """pickle finds entity classes by module attribute: (re)bind the classes of the current round in this module"""
    for c in classes:
        c.__module__ = THIS.__name__
        c.__qualname__ = c.__name__
        setattr(THIS, c.__name__, c)

class World:
    """a random schema, the real database, and an independent shadow of the intended state"""
    def __init__(self, cfg):
        self.cfg = cfg
        db = self.db = Database()
        a_pk, b_pk, m_pk = cfg['a_pk'], cfg['b_pk'], cfg['m_pk']
        names = [] if a_pk == 'auto' else ['x', 'y', 'z'][:len(a_pk)]
        if a_pk != 'auto':
            # PrimaryKey(x, y) must be called in the class body: build the class with exec
            src = 'class A(db.Entity):\n'
            for nm, t in zip(names, a_pk): src += '    %s = Required(%s)\n' % (nm, 'str' if t == 's' else 'int')
            src += '    PrimaryKey(%s)\n' % ', '.join(names)
            src += '    v = Optional(int); s = Optional(str); dt = Optional(date); bio = Optional(LongStr)\n'
            src += "    b = Optional('B')\n" if b_pk == 'ref' else "    bs = Set('B')\n"
            src += "    ms = Set('M')\n"
        else:
            src = 'class A(db.Entity):\n    id = PrimaryKey(int)\n    v = Optional(int); s = Optional(str); dt = Optional(date); bio = Optional(LongStr)\n'
            src += "    b = Optional('B')\n" if b_pk == 'ref' else "    bs = Set('B')\n"
            src += "    ms = Set('M')\n"
        src += 'class B(db.Entity):\n'
        if b_pk == 'auto':
            src += '    id = PrimaryKey(int)\n    a = %s(A)\n    n = Optional(str)\n' % ('Required' if cfg['b_a_required'] else 'Optional')
        elif b_pk == 'an':
            src += '    a = Required(A)\n    n = Required(str)\n    PrimaryKey(a, n)\n'
        else:
            src += '    a = PrimaryKey(A)\n    n = Optional(str)\n'
        src += "    w = Optional(int)\n    d = Optional('D')\n"
        src += 'class M(db.Entity):\n'
        src += '    id = PrimaryKey(int)\n' if m_pk == 'auto' else '    p = Required(str); q = Required(str)\n    PrimaryKey(p, q)\n'
        src += '    t = Optional(str)\n    as_ = Set(A)\n'
        src += 'class D(db.Entity):\n    id = PrimaryKey(int)\n    bs = Set(B)\n'
        ns = dict(db=db, Required=Required, Optional=Optional, Set=Set, PrimaryKey=PrimaryKey, LongStr=LongStr, date=date)
        exec(src, ns)
        self.src = src
        self.A, self.B, self.M, self.D = ns['A'], ns['B'], ns['M'], ns['D']
        register([self.A, self.B, self.M, self.D])
        db.bind('sqlite', ':memory:')
        db.generate_mapping(create_tables=True)
        self.E = {'A': self.A, 'B': self.B, 'M': self.M, 'D': self.D}
        # shadow: entity -> raw pk tuple -> {scalar attrs and to-one relations (raw pk tuple / None)}
        self.S = {'A': {}, 'B': {}, 'M': {}, 'D': {}}
        self.pairs = set()      # many-to-many (a_raw, m_raw)
        self.next_id = 1
    # ---- shadow helpers
    def a_names(self):
        return [] if self.cfg['a_pk'] == 'auto' else ['x', 'y', 'z'][:len(self.cfg['a_pk'])]
    def b_raw(self, a_raw, n, id_):
        k = self.cfg['b_pk']
        return (id_,) if k == 'auto' else (tuple(a_raw) + (n,)) if k == 'an' else tuple(a_raw)
    def coll(self, ename, raw, attr):
        if ename == 'A' and attr == 'bs': return sorted(r for r, v in self.S['B'].items() if v['a'] == raw)
        if ename == 'A' and attr == 'ms': return sorted(m for a, m in self.pairs if a == raw)
        if ename == 'M' and attr == 'as_': return sorted(a for a, m in self.pairs if m == raw)
        if ename == 'D' and attr == 'bs': return sorted(r for r, v in self.S['B'].items() if v['d'] == raw)
        raise KeyError((ename, attr))
    def value(self, ename, raw, attr):
        """shadow value of an attribute: ('scalar', v) | ('one', target_entity, raw|None) | ('many', target_entity, [raws])"""
        if (ename, attr) in (('A', 'bs'), ('D', 'bs')): return ('many', 'B', self.coll(ename, raw, attr))
        if (ename, attr) == ('A', 'ms'): return ('many', 'M', self.coll(ename, raw, attr))
        if (ename, attr) == ('M', 'as_'): return ('many', 'A', self.coll(ename, raw, attr))
        if (ename, attr) == ('A', 'b'):
            bs = [r for r, v in self.S['B'].items() if v['a'] == raw]
            return ('one', 'B', bs[0] if bs else None)
        if (ename, attr) == ('B', 'a'): return ('one', 'A', self.S['B'][raw]['a'])
        if (ename, attr) == ('B', 'd'): return ('one', 'D', self.S['B'][raw]['d'])
        return ('scalar', self.S[ename][raw][attr])
    def obj(self, ename, raw):
        e = self.E[ename]
        if ename == 'B' and self.cfg['b_pk'] != 'auto':
            na = len(raw) - (1 if self.cfg['b_pk'] == 'an' else 0)
            a = self.obj('A', raw[:na])
            return e[a] if self.cfg['b_pk'] == 'ref' else e[a, raw[na]]
        return e[raw] if len(raw) > 1 else e[raw[0]]
    def raw_of(self, o):
        return tuple(o._get_raw_pkval_())
    # ---- operations (applied to real Pony and to the shadow)
    def new_a(self, rng):
        for _ in range(20):
            if self.cfg['a_pk'] == 'auto':
                raw = (self.next_id,); self.next_id += 1
            else:
                raw = tuple(rng.choice(PARTS) or 'e' if t == 's' else rng.choice([0, 1, -1, 7, 10]) for t in self.cfg['a_pk'])
            if raw not in self.S['A']: break
        else: return None
        kw = dict(zip(self.a_names() or ['id'], raw))
        sc = dict(v=rng.choice([None, 0, 1, -5]), s=rng.choice(['', 'a,b', '*', 'txt']), dt=rng.choice([None, date(2020, 2, 29)]), bio=rng.choice(['', 'long text']))
        self.A(**kw, **sc)
        self.S['A'][raw] = dict(sc, **kw)
        return raw
    def new_b(self, rng):
        k = self.cfg['b_pk']; As = sorted(self.S['A'])
        a = rng.choice(As) if As and (k != 'auto' or self.cfg['b_a_required'] or rng.random() < 0.7) else None
        if a is None and (k != 'auto' or self.cfg['b_a_required']): return None
        n = rng.choice(PARTS) or 'n'
        id_ = None
        if k == 'auto': id_ = self.next_id; self.next_id += 1
        raw = self.b_raw(a, n, id_)
        if raw in self.S['B']: return None
        if k == 'ref' and any(v['a'] == a for v in self.S['B'].values()): return None
        Ds = sorted(self.S['D']); d = rng.choice(Ds) if Ds and rng.random() < 0.7 else None
        w = rng.choice([None, 0, 3])
        kw = dict(w=w, d=self.obj('D', d) if d else None, a=self.obj('A', a) if a else None)
        if k == 'auto': kw['id'] = id_; kw['n'] = n
        elif k == 'an': kw['n'] = n
        else: kw['n'] = n
        self.B(**kw)
        self.S['B'][raw] = dict(a=a, n=n, w=w, d=d)
        if k == 'auto': self.S['B'][raw]['id'] = id_
        return raw
    def new_m(self, rng):
        if self.cfg['m_pk'] == 'auto':
            raw = (self.next_id,); self.next_id += 1; kw = dict(id=raw[0])
        else:
            raw = (rng.choice(PARTS) or 'p', rng.choice(PARTS) or 'q'); kw = dict(p=raw[0], q=raw[1])
            if raw in self.S['M']: return None
        t = rng.choice(['', 't'])
        As = [a for a in sorted(self.S['A']) if rng.random() < 0.5]
        self.M(t=t, as_=[self.obj('A', a) for a in As], **kw)
        self.S['M'][raw] = dict(t=t, **kw)
        for a in As: self.pairs.add((a, raw))
        return raw
    def new_d(self, rng):
        raw = (self.next_id,); self.next_id += 1
        self.D(id=raw[0]); self.S['D'][raw] = dict(id=raw[0])
        return raw
    def populate(self, rng):
        for _ in range(rng.choice([1, 2, 3, 4])): self.new_a(rng)
        for _ in range(rng.choice([1, 2])): self.new_d(rng)
        for _ in range(rng.choice([0, 2, 3, 5])): self.new_b(rng)
        for _ in range(rng.choice([0, 1, 2, 3])): self.new_m(rng)
    def mutate(self, rng, ctx, log):
        op = rng.choice(['scalar', 'scalar', 'b.a', 'b.d', 'm2m', 'm2m', 'new', 'del', 'flush'])
        ctx.count('op:' + op)
        if op == 'scalar':
            en = rng.choice(['A', 'B', 'M'])
            if not self.S[en]: return
            raw = rng.choice(sorted(self.S[en], key=repr))
            attr, val = {'A': rng.choice([('v', rng.choice([None, 2, 99])), ('s', rng.choice(['', '*,', 'new'])), ('dt', rng.choice([None, date(1999, 12, 31)])), ('bio', 'bio2')]),
                         'B': rng.choice([('w', rng.choice([None, 8])), ('n', rng.choice(['', 'nn']))]) if self.cfg['b_pk'] != 'an' else ('w', rng.choice([None, 8])),
                         'M': ('t', rng.choice(['', 'tt']))}[en]
            setattr(self.obj(en, raw), attr, val); self.S[en][raw][attr] = val
            log.append([op, en, list(raw), attr, repr(val)])
        elif op == 'b.a':
            if self.cfg['b_pk'] != 'auto' or not self.S['B'] or not self.S['A']: return
            raw = rng.choice(sorted(self.S['B'])); a = rng.choice(sorted(self.S['A'], key=repr) + ([] if self.cfg['b_a_required'] else [None]))
            self.obj('B', raw).a = self.obj('A', a) if a else None; self.S['B'][raw]['a'] = a
            log.append([op, list(raw), list(a) if a else None])
        elif op == 'b.d':
            if not self.S['B'] or not self.S['D']: return
            raw = rng.choice(sorted(self.S['B'], key=repr)); d = rng.choice(sorted(self.S['D']) + [None])
            self.obj('B', raw).d = self.obj('D', d) if d else None; self.S['B'][raw]['d'] = d
            log.append([op, list(raw), list(d) if d else None])
        elif op == 'm2m':
            if not self.S['A'] or not self.S['M']: return
            a = rng.choice(sorted(self.S['A'], key=repr)); m = rng.choice(sorted(self.S['M'], key=repr))
            ao, mo = self.obj('A', a), self.obj('M', m)
            if (a, m) in self.pairs:
                if rng.random() < 0.5: ao.ms.remove(mo)
                else: mo.as_.remove(ao)
                self.pairs.discard((a, m)); log.append([op, 'remove', list(a), list(m)])
            else:
                if rng.random() < 0.5: ao.ms.add(mo)
                else: mo.as_.add(ao)
                self.pairs.add((a, m)); log.append([op, 'add', list(a), list(m)])
        elif op == 'new':
            what = rng.choice(['A', 'B', 'M'])
            r = {'A': self.new_a, 'B': self.new_b, 'M': self.new_m}[what](rng)
            log.append([op, what, list(r) if r else None])
        elif op == 'del':
            en = rng.choice(['B', 'M'])
            if not self.S[en]: return
            raw = rng.choice(sorted(self.S[en], key=repr))
            self.obj(en, raw).delete(); del self.S[en][raw]
            if en == 'M': self.pairs = {(a, m) for a, m in self.pairs if m != raw}
            log.append([op, en, list(raw)])
        else:
            flush(); log.append([op])
    # ---- expectations
    def pk_cols(self, ename):
        return len(self.E[ename]._pk_columns_)
    def attr_names(self, ename, only=None, exclude=None, with_collections=False, with_lazy=False):
        """the attribute selection documented for to_dict: `only` names win; otherwise collections / lazy attributes are opt-in"""
        e = self.E[ename]
        if only: names = list(only)
        else:
            names = [a.name for a in e._attrs_ if (with_collections or not a.is_collection) and (a.is_collection or with_lazy or not a.lazy)]
        if exclude: names = [n for n in names if n not in exclude]
        return names
    def plain(self, raw):
        return raw[0] if len(raw) == 1 else tuple(raw)
    def expected_entity_dict(self, ename, raw, names, related_objects):
        d = {}
        for n in names:
            v = self.value(ename, raw, n)
            if v[0] == 'scalar': d[n] = v[1]
            elif v[0] == 'one':
                d[n] = None if v[2] is None else (('obj', v[1], tuple(v[2])) if related_objects else self.plain(v[2]))
            else:
                d[n] = sorted((('obj', v[1], tuple(r)) for r in v[2]), key=repr) if related_objects else sorted(self.plain(r) for r in v[2])
        return d
    def bag_key(self, ename, raw):
        return ref_reduce(raw) if self.pk_cols(ename) > 1 else raw[0]
    def expected_bag(self, given, ro=None):
        """given: list of (ename, raw).  Every given object: all non-lazy attributes incl. collections; objects related to a
        given object (one level): their non-collection attributes; relationship values as keys."""
        res = {}
        def cell(ename, raw, with_coll):
            d = {}
            for n in self.attr_names(ename, with_collections=with_coll):
                v = self.value(ename, raw, n)
                if v[0] == 'scalar': d[n] = v[1]
                elif v[0] == 'one': d[n] = None if v[2] is None else self.plain(v[2])
                else: d[n] = sorted(self.bag_key(v[1], r) for r in v[2])
            return d
        related = {}      # (entity, raw) -> [(given entity, given raw, attribute, through a collection?)]
        for ename, raw in given:
            res.setdefault(ename, {})[self.bag_key(ename, raw)] = cell(ename, raw, True)
            if ro is not None and not ro[ename]: continue       # bag.config(entity, related_objects=False): keys only, no related entries
            for n in self.attr_names(ename, with_collections=True):
                v = self.value(ename, raw, n)
                if v[0] == 'one' and v[2] is not None: related.setdefault((v[1], tuple(v[2])), []).append((ename, raw, n, False))
                elif v[0] == 'many':
                    for r in v[2]: related.setdefault((v[1], tuple(r)), []).append((ename, raw, n, True))
        for ename, raw in related:
            if (ename, raw) not in given:
                res.setdefault(ename, {})[self.bag_key(ename, raw)] = cell(ename, raw, False)
        return res, related

def norm_real(v):
    """real to_dict value -> comparable (entities -> ('obj', name, raw))"""
    if isinstance(v, core.Entity): return ('obj', type(v).__name__, tuple(v._get_raw_pkval_()))
    if isinstance(v, list): return [norm_real(i) for i in v]
    return v

def jsonable(x):
    return json.loads(json.dumps(x, default=lambda o: str(o) if isinstance(o, (date, Decimal)) else repr(o), sort_keys=True))

def random_cfg(rng):
    return dict(a_pk=rng.choice(['auto', 'ss', 'ss', 'si', 'sss']), b_pk=rng.choice(['auto', 'auto', 'an', 'ref']),
                m_pk=rng.choice(['auto', 'ss']), b_a_required=rng.random() < 0.4)

def scenario(w, log):
    return {'schema': w.src, 'cfg': w.cfg, 'ops': log}

def check_entity_to_dict(ctx, w, rng, log):
    for ename in 'ABMD':
        for raw in sorted(w.S[ename], key=repr):
            if rng.random() < 0.5: continue
            allnames = [a.name for a in w.E[ename]._attrs_]
            opts = dict(with_collections=rng.random() < 0.6, with_lazy=rng.random() < 0.3, related_objects=rng.random() < 0.3)
            r = rng.random()
            if r < 0.2: opts['only'] = rng.sample(allnames, rng.randint(1, len(allnames)))
            elif r < 0.4: opts['exclude'] = rng.sample(allnames, rng.randint(1, max(1, len(allnames) - 1)))
            elif r < 0.5: opts['only'] = ' '.join(rng.sample(allnames, 2)) if len(allnames) > 1 else allnames[0]
            o = w.obj(ename, raw)
            try:
                real_d = o.to_dict(**opts)
                if not opts['related_objects']: queue_cells('entity', w, ename, raw, real_d)
                got = {k: norm_real(v) for k, v in real_d.items()}
            except Exception as e:
                got = 'raised ' + type(e).__name__
            only = opts.get('only'); only = only.split() if isinstance(only, str) else only
            names = w.attr_names(ename, only, opts.get('exclude'), opts['with_collections'], opts['with_lazy'])
            exp = w.expected_entity_dict(ename, raw, names, opts['related_objects'])
            if isinstance(got, dict):
                got = {k: (sorted(v, key=repr) if isinstance(v, list) and opts['related_objects'] else v) for k, v in got.items()}
            ctx.case(['Entity.to_dict', w.cfg, ename, list(raw), sorted(opts.items(), key=repr), len(log)], kind='oracle:Entity.to_dict')
            ctx.count('Entity.to_dict:pkcols=%d' % w.pk_cols(ename))
            if got != exp:
                diff = sorted(exp) if not isinstance(got, dict) else sorted((set(exp) ^ set(got)) | {k for k in exp if k in got and exp[k] != got[k]})
                ctx.violation('Entity.to_dict() does not report the current attribute values / relationship keys',
                              dict(scenario(w, log), entity=ename, pk=list(raw), options={k: v for k, v in opts.items()}),
                              observed=got, expected=exp, key='Entity.to_dict:%s:%s:%s' % (ename, diff, got if not isinstance(got, dict) else ''))

def classify_bag_diff(w, given, related, got, exp):
    """per (entity, key, attr) cell differences, each mapped to a canonical id"""
    out = []
    for ename in sorted(set(got) | set(exp)):
        g, e = got.get(ename, {}), exp.get(ename, {})
        for k in sorted(set(g) | set(e), key=repr):
            if k not in g:
                # a related object is missing: canonical id of the known defect when every path to it starts at a given
                # object that was itself reached as "related" of another given object (and so was only processed with process_related=False)
                srcs = [v for (en, r), v in related.items() if en == ename and str(w.bag_key(en, r)) == str(k)]
                if srcs and all((ge, gr) in related for (ge, gr, _, coll) in srcs[0]):
                    out.append((K_LOSES, ename, k, None))
                else: out.append(('bag:object-missing:%s' % ename, ename, k, None))
                continue
            if k not in e: out.append(('bag:unexpected-object:%s' % ename, ename, k, None)); continue
            for n in sorted(set(g[k]) | set(e[k])):
                if n in g[k] and n in e[k] and g[k][n] == e[k][n]: continue
                attr = getattr(w.E[ename], n)
                raws = [r for (en, r) in given if en == ename and str(w.bag_key(en, r)) == str(k)]
                if n not in g[k] and attr.is_collection and raws and (ename, raws[0]) in related:
                    out.append((K_LOSES, ename, k, n))
                elif n in g[k] and attr.is_collection and len(attr.reverse.entity._pk_attrs_) == 1 and len(attr.reverse.entity._pk_columns_) > 1:
                    out.append((K_TRUNC, ename, k, n))
                else:
                    out.append(('bag:wrong-cell:%s.%s' % (ename, n), ename, k, n))
    return out

walk_queue = []
cell_queue = []

def queue_cells(which, w, ename, raw, real_dict):
    """relationship cells of one reported object, for the Lean cell model (Model/Report.lean): (request, real cell in the model's shape)"""
    if len(cell_queue) > 2500 or not isinstance(real_dict, dict): return
    for n, real in real_dict.items():
        try: v = w.value(ename, raw, n)
        except KeyError: continue
        if v[0] == 'scalar': continue
        cols = w.pk_cols(v[1])
        S = lambda t: [str(x) for x in t]
        if v[0] == 'one':
            val = {'one': None if v[2] is None else S(v[2])}
            r = {'null': True} if real is None else {'tuple': S(real)} if isinstance(real, (tuple, list)) else {'single': str(real)}
        else:
            val = {'many': [S(k) for k in v[2]]}
            if which == 'bag': r = {'keys': sorted(json.dumps({'text': x} if cols > 1 else {'single': str(x)}) for x in real)}
            else: r = {'tuples': sorted(json.dumps(S(x)) for x in real)} if cols > 1 else {'keys': sorted(json.dumps({'single': str(x)}) for x in real)}
        cell_queue.append(({'op': 'cell', 'which': which, 'cols': cols, 'val': val}, r, [ename, list(map(str, raw)), n]))

def check_bag(ctx, w, rng, log, decode_queue):
    objs = [(en, raw) for en in 'ABMD' for raw in sorted(w.S[en], key=repr)]
    if not objs: return
    for _ in range(2):
        given = rng.sample(objs, rng.randint(1, min(4, len(objs))))
        real_objs = [w.obj(en, raw) for en, raw in given]
        via = rng.choice(['to_dict', 'Bag', 'to_json'])
        ro = None
        try:
            if via == 'to_dict': got = serialization.to_dict(real_objs if len(real_objs) > 1 or rng.random() < 0.5 else real_objs[0])
            elif via == 'Bag':
                bag = Bag(w.db)
                ro = {en: rng.random() < 0.7 for en in 'ABMD'}
                for en in 'ABMD':
                    if not ro[en] or rng.random() < 0.3: bag.config(w.E[en], related_objects=ro[en])
                for o in real_objs: bag.put(o)
                got = dict(bag.to_dict())
            else: got = json.loads(serialization.to_json(real_objs))
            got = {k: dict(v) for k, v in got.items()}
        except Exception as e:
            got = 'raised ' + type(e).__name__
        exp, related = w.expected_bag(given, ro)
        if via == 'to_json': exp = jsonable(exp)
        if isinstance(got, dict) and len(walk_queue) < 3000:
            # the traversal model (Lean bagWalk) on the same object graph: which objects appear, and with a full or a reduced entry
            idx = {o: i for i, o in enumerate(objs)}
            rel = []
            for en, raw in objs:
                r = []
                for n in w.attr_names(en, with_collections=True):
                    v = w.value(en, raw, n)
                    if v[0] == 'one' and v[2] is not None: r.append(idx[(v[1], tuple(v[2]))])
                    elif v[0] == 'many': r += [idx[(v[1], tuple(x))] for x in v[2]]
                rel.append(r)
            real = []
            for (en, raw), i in idx.items():
                d = {str(k): v for k, v in got.get(en, {}).items()}.get(str(w.bag_key(en, raw)))
                if d is None: continue
                colls = [a.name for a in w.E[en]._attrs_ if a.is_collection]
                real.append([i, (all(c in d for c in colls) if colls else None)])
            walk_queue.append(({'op': 'bagwalk', 'rel': rel, 'ro': [ro[en] if ro else True for en, _ in objs], 'given': [idx[g] for g in given]},
                               sorted(real), [[en, list(r)] for en, r in objs], via))
        ctx.case(['bag', via, w.cfg, [[en, list(r)] for en, r in given], len(log)], kind='oracle:bag-' + via)
        if isinstance(got, dict) and via != 'to_json':
            for en, d in got.items():
                if w.pk_cols(en) > 1:
                    for k in d:
                        if isinstance(k, str) and len(decode_queue) < 4000: decode_queue.append((k, en))
        if isinstance(got, dict) and via != 'to_json':
            for en, raw in given:
                queue_cells('bag', w, en, raw, got.get(en, {}).get(w.bag_key(en, raw)))
        if got == exp: continue
        if not isinstance(got, dict):
            ctx.violation('serialization.%s raised' % via, dict(scenario(w, log), given=[[en, list(r)] for en, r in given]), observed=got, expected=exp, key='bag:%s' % got)
            continue
        for key, ename, k, n in classify_bag_diff(w, given, related, got, exp):
            ctx.count('bag-diff:' + key)
            ctx.violation('serialization.%s: the output does not report the current values / relationship keys of the objects given' % via,
                          dict(scenario(w, log), given=[[en, list(r)] for en, r in given], entity=ename, key=k, attr=n),
                          observed=got.get(ename, {}).get(k), expected=exp.get(ename, {}).get(k), key=key)

def compare_unpickled(w, o):
    """every attribute of an unpickled entity against the shadow; returns list of (attr, got, exp)"""
    ename = type(o).__name__; raw = tuple(o._get_raw_pkval_()); bad = []
    if raw not in w.S[ename]: return [('<identity>', raw, 'an existing object')]
    for a in w.E[ename]._attrs_:
        v = w.value(ename, raw, a.name)
        got = getattr(o, a.name)
        if v[0] == 'scalar': exp = v[1]
        elif v[0] == 'one':
            got = None if got is None else tuple(got._get_raw_pkval_()); exp = None if v[2] is None else tuple(v[2])
        else:
            got = sorted(tuple(i._get_raw_pkval_()) for i in got); exp = sorted(tuple(r) for r in v[2])
        if got != exp: bad.append((a.name, got, exp))
    return bad

def check_pickle(ctx, w, rng, log):
    """session 1: load + dumps; session 2 (one per payload): loads + compare with the shadow of the committed state"""
    payloads = []
    with db_session:
        def dumps(kind, x, exp):
            try: payloads.append((kind, pickle.dumps(x, protocol=rng.choice([2, pickle.HIGHEST_PROTOCOL])), exp))
            except RecursionError: payloads.append((kind, RecursionError, exp))
            except Exception as e: payloads.append((kind, e, exp))
        touch = rng.random() < 0.5
        for en in 'ABMD':
            raws = sorted(w.S[en], key=repr)
            if not raws: continue
            objs = [w.obj(en, r) for r in raws]
            if touch:
                for o in objs:
                    for a in w.E[en]._attrs_:
                        v = getattr(o, a.name)
                        if a.is_collection: list(v)
            r = rng.random()
            if r < 0.35: dumps('entity', objs[0], ('entities', [(en, raws[0])]))
            elif r < 0.55: dumps('list', objs, ('entities', [(en, x) for x in raws]))
            elif r < 0.75:
                q = w.E[en].select()
                r2 = rng.random()
                qr = q[:] if r2 < 0.35 else q.page(1, 50) if r2 < 0.65 else q        # page() gives a LAZY QueryResult: pickling has to fetch it
                dumps('QueryResult' if r2 < 0.35 else 'QueryResult-lazy' if r2 < 0.65 else 'Query', qr, ('entity-set', [(en, x) for x in raws]))
            else:
                E_ = w.E[en]
                q = select(x for x in E_)
                dumps('Query', q, ('entity-set', [(en, x) for x in raws]))
        for en, attr, kind in [('A', 'ms', 'm2m'), ('M', 'as_', 'm2m'), ('A', 'bs', 'o2m'), ('D', 'bs', 'o2m')]:
            if not hasattr(w.E[en], attr) or not w.S[en]: continue
            raw = rng.choice(sorted(w.S[en], key=repr))
            v = w.value(en, raw, attr)
            dumps('SetInstance:' + kind, getattr(w.obj(en, raw), attr), ('set', en, raw, attr, sorted(tuple(r) for r in v[2])))
    for kind, data, exp in payloads:
        ctx.case(['pickle', kind, w.cfg, exp[0], len(exp[-1]) if isinstance(exp[-1], list) else 0, len(log)], kind='oracle:pickle-' + kind)
        inp = dict(scenario(w, log), pickled=kind, what=repr(exp)[:300])
        if data is RecursionError:
            ctx.count('pickle:RecursionError')
            ctx.violation('pickle.dumps of loaded objects raises RecursionError (objects that reference each other are pickled through __reduce__ arguments)',
                          inp, observed='RecursionError', expected='a pickle', key=K_CYCLE)
            continue
        if isinstance(data, Exception):
            ctx.violation('pickle.dumps of loaded objects raised', inp, observed=type(data).__name__ + ': ' + str(data)[:200], expected='a pickle', key='pickle-dumps:' + type(data).__name__)
            continue
        with db_session:
            try:
                x = pickle.loads(data)
                if exp[0] == 'set':
                    got = sorted(tuple(i._get_raw_pkval_()) for i in x)
                    owner_bad = tuple(x._obj_._get_raw_pkval_()) != tuple(exp[2])
                    if got != exp[4] or owner_bad:
                        key = K_M2M if kind == 'SetInstance:m2m' and got == [] else 'pickle:%s:wrong-items' % kind
                        ctx.violation('an unpickled collection does not have the items of the pickled one', inp, observed=got, expected=exp[4], key=key)
                    else: ctx.count('pickle-set-ok:%s:%d' % (kind, len(got)))
                    continue
                items = [x] if isinstance(x, core.Entity) else list(x)
                ids = [(type(i).__name__, tuple(i._get_raw_pkval_())) for i in items]
                want = exp[1]
                if exp[0] == 'entity-set': ids, want = sorted(ids, key=repr), sorted(want, key=repr)
                if ids != want:
                    ctx.violation('unpickling yields different objects', inp, observed=ids, expected=want, key='pickle:%s:identity' % kind); continue
                for i in items:
                    bad = compare_unpickled(w, i)
                    if bad:
                        a = bad[0][0]
                        is_m2m = a in ('ms', 'as_')
                        ctx.violation('attribute of an unpickled object differs from the pickled object', dict(inp, object=repr(ids[items.index(i)]), diffs=repr(bad)[:400]),
                                      observed=bad[0][1], expected=bad[0][2], key='pickle:%s:attr:%s.%s' % (kind, type(i).__name__, a))
            except Exception as e:
                ctx.violation('pickle.loads in a new session raised', inp, observed=type(e).__name__ + ': ' + str(e)[:200], expected='objects', key='pickle-loads:%s:%s' % (kind, type(e).__name__))

# ---- regression corpus (harness/corpus/C31/*.json: minimised past failures, now repaired in /repo; they must pass) and
# ---- the fixed witness of the one recorded known finding.  The random search reports the same canonical keys.

def corpus_cases():
    d = os.path.join(os.path.dirname(os.path.dirname(os.path.abspath(__file__))), 'corpus', 'C31')
    return [(f, json.load(open(os.path.join(d, f)))) for f in sorted(os.listdir(d)) if f.endswith('.json')] if os.path.isdir(d) else []

def run_corpus(ctx):
    for fname, c in corpus_cases():
        w = World(c['cfg'])
        def val(v):
            if isinstance(v, dict) and 'ref' in v: return w.obj(v['ref'][0], tuple(v['ref'][1]))
            if isinstance(v, list): return [val(i) for i in v]
            return v
        with db_session:
            for en, kw in c['create']:
                w.E[en](**{k: val(v) for k, v in kw.items()})
                flush()
        chk = c['check']
        inp = {'corpus': fname, 'schema': w.src, 'create': c['create'], 'check': chk}
        ctx.case(['corpus', fname], kind='oracle:corpus')
        if chk['kind'] == 'to_dict':
            results = []
            with db_session:
                for order in chk['orders']:
                    r = jsonable(serialization.to_dict([w.obj(en, tuple(raw)) for en, raw in order]))
                    results.append(r)
                    x = r
                    for k in chk['path']: x = x.get(k) if isinstance(x, dict) else None
                    if x != chk['expect']:
                        ctx.violation(c['what'], dict(inp, order=order), observed=x, expected=chk['expect'], key=c['key'])
                if chk.get('same_for_all_orders') and any(r != results[0] for r in results):
                    ctx.violation(c['what'], inp, observed=results, expected='the same result for every order', key=c['key'])
                if c.get('model_collkey') and ctx.driver.ok:
                    outs = ctx.driver('C31', [{'op': 'collkey', 'raw': raw} for raw in c['model_collkey']])
                    model = sorted(list(o['ok'].values())[0] for o in outs)
                    x = results[0]
                    for k in chk['path']: x = x.get(k) if isinstance(x, dict) else None
                    ctx.case(['corpus-model', fname], kind='tie:collection-key')
                    if model != x:
                        ctx.divergence('model bagCollectionKey and the real Bag._process_object collection keys disagree', inp, model=model, impl=x)
        elif chk['kind'] == 'pickle-set':
            with db_session:
                data = pickle.dumps(getattr(w.obj(chk['owner'][0], tuple(chk['owner'][1])), chk['attr']))
            with db_session:
                try: got = sorted(list(i._get_raw_pkval_()) for i in pickle.loads(data))
                except Exception as e: got = 'raised %s: %s' % (type(e).__name__, str(e)[:100])
            if got != chk['expect']:
                ctx.violation(c['what'], inp, observed=got, expected=chk['expect'], key=c['key'])
        w.db.disconnect()

def witnesses(ctx):
    # dictionary keys: model bagDictKey vs real Bag.to_dict on a two-column key
    w = World(dict(a_pk='ss', b_pk='auto', m_pk='auto', b_a_required=False))
    with db_session:
        w.A(x='k', y='1'); w.A(x='k,', y='*')
    with db_session:
        keys = sorted(serialization.to_dict(list(w.A.select()))['A'])
        ctx.case(['witness', 'dict-keys'], kind='tie:dict-key')
        if ctx.driver.ok:
            outs = ctx.driver('C31', [{'op': 'dictkey', 'raw': ['k', '1']}, {'op': 'dictkey', 'raw': ['k,', '*']}])
            model = sorted(o['ok'].get('text') for o in outs)
            if model != keys: ctx.divergence('model bagDictKey and real Bag.to_dict keys disagree', 'dict-keys', model=model, impl=keys)
    w.db.disconnect()
    # known finding (not repaired in /repo): loaded one-to-one pair
    w = World(dict(a_pk='auto', b_pk='ref', m_pk='auto', b_a_required=False))
    with db_session:
        a = w.A(id=1); w.B(a=a)
    with db_session:
        a = w.A[1]; a.b.a
        ctx.case(['witness', 'cycle'], kind='oracle:witness')
        try: pickle.dumps(a); got = 'pickled'
        except RecursionError: got = 'RecursionError'
        if got != 'pickled':
            ctx.violation('pickle.dumps of a loaded object whose one-to-one partner is loaded raises RecursionError (Entity.__reduce__ passes the attribute values, including related entities, as constructor arguments, so reference cycles recurse forever)',
                          {'schema': w.src, 'objects': 'a = A(id=1); B(a=a)', 'call': 'a = A[1]; a.b.a; pickle.dumps(a)'}, observed=got, expected='a pickle', key=K_CYCLE)

K_EMPTY_SEL = 'Entity.to_dict:empty-list-selector:TypeError'

def attrs_tie(ctx):
    """`EntityMeta._get_attrs_` (selection + per-entity cache) against the Lean model `runHist` on random call histories;
    plus the property oracle on the real function: a warm cache never changes an answer"""
    rng = ctx.rng
    reqs, reals, infos = [], [], []
    for rd in range(ctx.scale(8, 80)):
        w = World(random_cfg(rng))
        for en in 'ABMD':
            E = w.E[en]
            attrs = [[a.name, bool(a.is_collection), bool(a.lazy)] for a in E._attrs_]
            names = [a[0] for a in attrs]
            def sel():
                r = rng.random()
                if r < 0.3: return None, None
                toks = [rng.choice(names + ['nope'] if rng.random() < 0.15 else names) for _ in range(rng.choice([1, 1, 2, 3]))]
                if r < 0.4: return '', ''
                if r < 0.45: return ((), []) if rng.random() < 0.5 else ([], [])
                if r < 0.7:
                    text = rng.choice([' ', ',', ', ', '  ']).join(toks)
                    if rng.random() < 0.3: text = ' ' + text + ', '
                    return text, text
                return (tuple(toks) if rng.random() < 0.5 else list(toks)), list(toks)
            hist = []
            pool_q = []
            for _ in range(rng.randint(4, 14)):
                if pool_q and rng.random() < 0.35: hist.append(rng.choice(pool_q)); continue      # repeat an earlier call: a cache hit
                (o_real, o_mod), (e_real, e_mod) = sel(), sel()
                q = (o_real, e_real, rng.random() < 0.5, rng.random() < 0.4, o_mod, e_mod)
                pool_q.append(q); hist.append(q)
            E._attrnames_cache_.clear()
            real = []; cold = []
            for o, e, wc, wl, _, _ in hist:
                def call():
                    try: return {'ok': [a.name for a in E._get_attrs_(o, e, wc, wl)]}
                    except AttributeError as x: return {'error': str(x).split()[-1]}
                    except Exception as x: return {'raised': type(x).__name__}
                real.append(call())
            for o, e, wc, wl, _, _ in hist:      # the same calls, each on an emptied cache
                E._attrnames_cache_.clear()
                try: cold.append({'ok': [a.name for a in E._get_attrs_(o, e, wc, wl)]})
                except AttributeError as x: cold.append({'error': str(x).split()[-1]})
                except Exception as x: cold.append({'raised': type(x).__name__})
            ctx.case(['get_attrs', en, attrs, [list(map(repr, h[:4])) for h in hist]], kind='oracle:get_attrs-cache')
            if real != cold:
                i = next(i for i in range(len(hist)) if real[i] != cold[i])
                ctx.violation('EntityMeta._get_attrs_ (attribute selection of to_dict / Bag.config) returns a different selection from a warm cache than from a cold one',
                              {'schema': w.src, 'entity': en, 'calls': [list(map(repr, h[:4])) for h in hist[:i + 1]]}, observed=real[i], expected=cold[i],
                              key='get_attrs-cache:%s:%s' % (en, [list(map(repr, h[:4])) for h in hist[max(0, i - 1):i + 1]]))
            reqs.append({'op': 'getattrs', 'attrs': attrs, 'history': [[h[4], h[5], h[2], h[3]] for h in hist]})
            reals.append(real); infos.append((en, w.src))
            for r in real: ctx.count('get_attrs:' + next(iter(r)))
        w.db.disconnect()
    if ctx.driver.ok:
        outs = ctx.driver('C31', reqs)
        for req, real, o, (en, src) in zip(reqs, reals, outs, infos):
            ctx.case(['get_attrs-model', req], kind='tie:get_attrs')
            if o.get('ok') != real:
                ctx.divergence('model runHist (attribute selection + cache) and the real EntityMeta._get_attrs_ disagree', {'entity': en, 'schema': src, 'request': req}, model=o.get('ok', o), impl=real)
    # witness: an EMPTY list selector
    w = World(dict(a_pk='auto', b_pk='auto', m_pk='auto', b_a_required=False))
    with db_session:
        a = w.A(id=1, v=1)
        ctx.case(['witness', 'empty-list-selector'], kind='oracle:witness')
        exp = {k: norm_real(v) for k, v in a.to_dict().items()}
        for kw in (dict(exclude=[]), dict(only=[])):
            try: got = {k: norm_real(v) for k, v in a.to_dict(**kw).items()}
            except Exception as e: got = 'raised %s: %s' % (type(e).__name__, e)
            if got != exp:
                ctx.violation("obj.to_dict(%s=[]) raises TypeError (unhashable type: 'list'): an empty list selector is falsy, so EntityMeta._get_attrs_ does not convert it to a tuple before it becomes part of the cache key" % next(iter(kw)),
                              {'schema': 'class A(db.Entity): v = Optional(int)', 'call': 'A(id=1, v=1).to_dict(%s=[])' % next(iter(kw))}, observed=got, expected=exp, key=K_EMPTY_SEL)
    w.db.disconnect()

def pickle_tie(ctx):
    """Entity.__reduce__ / unpickle_entity / _db_set_(unpickling=True) against the Lean model (Model/Pickle.lean): which objects
    can be pickled, what the pickle carries, and — after the database was changed in between — which value each attribute of
    the unpickled object has when the receiving session had / had not loaded the object already (or knows it as deleted)"""
    rng = ctx.rng
    table = {}
    def enc(v): return table.setdefault(repr(v), len(table))
    def snap(o): return sorted([a.name, enc(v)] for a, v in o._vals_.items() if not a.is_collection and a.pk_offset is None)
    reqs = []; checks = []
    for rd in range(ctx.scale(16, 160)):
        w = World(dict(a_pk='auto', b_pk='auto', m_pk='auto', b_a_required=False))
        with db_session: w.A(id=1, v=1, s='old', bio='b0')
        how = rng.choice(['loaded', 'loaded', 'loaded+lazy', 'updated', 'modified', 'deleted'])
        with db_session:
            a = w.A[1]
            if how == 'loaded+lazy': a.bio
            if how == 'updated': a.v = 5; flush()
            if how == 'modified': a.v = 5
            if how == 'deleted': a.delete()
            status, vals = a._status_, snap(a)
            try: data = pickle.dumps(a); real_red = {'ok': {'pk': 1, 'd': vals}}
            except Exception as e: data = None; real_red = {'error': type(e).__name__}
            if how in ('modified', 'deleted'): core.rollback()
        reqs.append({'op': 'reduce_entity', 'obj': {'pk': 1, 'status': status, 'vals': vals}})
        checks.append(('reduce', how, real_red))
        ctx.count('pickle-tie:reduce:' + status)
        if data is None: w.db.disconnect(); continue
        changed = rng.random() < 0.7
        if changed:
            with db_session: b = w.A[1]; b.v = 77; b.s = 'new'
        pre = rng.choice(['none', 'none', 'loaded', 'loaded', 'loaded+lazy', 'deleted'])
        with db_session:
            sess = []
            if pre != 'none':
                b = w.A[1]
                if pre == 'loaded+lazy': b.bio
                if pre == 'deleted': b.delete()
                sess = [{'pk': 1, 'status': b._status_, 'vals': snap(b)}]
            try:
                o = pickle.loads(data)
                real = {'pk': o._pkval_, 'deleted': o._status_ in core.del_statuses, 'vals': snap(o)}
            except Exception as e:
                real = {'pk': None, 'deleted': None, 'vals': [], 'raised': type(e).__name__}
                ctx.violation('pickle.loads of a pickled entity raised in the receiving session', {'schema': w.src, 'pickled': 'A[1] (%s)' % how, 'database': 'changed' if changed else 'unchanged', 'receiving session': pre},
                              observed='%s: %s' % (type(e).__name__, str(e)[:150]), expected='the object', key='pickle-loads:entity:' + type(e).__name__)
            core.rollback()
        reqs.append({'op': 'unpickle_entity', 'session': sess, 'pickle': {'pk': 1, 'd': vals}})
        checks.append(('unpickle', [how, 'db-changed' if changed else 'db-unchanged', 'session:' + pre], real))
        ctx.count('pickle-tie:unpickle:session=%s:%s' % (pre, 'changed' if changed else 'unchanged'))
        w.db.disconnect()
    if not ctx.driver.ok: return
    outs = ctx.driver('C31', reqs)
    for req, (kind, info, real), o in zip(reqs, checks, outs):
        ctx.case(['pickle-tie', kind, info, req], kind='tie:pickle-' + kind)
        if kind == 'reduce':
            model = o if 'error' in o else {'ok': {'pk': o['ok']['pk'], 'd': sorted(o['ok']['d'])}}
            if ('error' in model) != ('error' in real) or ('ok' in real and model != real) or ('error' in real and model['error'] != real['error']):
                ctx.divergence('model reduce and the real Entity.__reduce__ disagree', {'how': info, 'request': req}, model=model, impl=real)
        else:
            m = o.get('ok', {})
            # the model keeps insertion order; compare as maps (first entry wins, as List.lookup reads them)
            mv = {}
            for n, v in m.get('vals', []): mv.setdefault(n, v)
            if m.get('pk') != real['pk'] or m.get('deleted') != real['deleted'] or (not real['deleted'] and mv != dict(map(tuple, real['vals']))):
                ctx.divergence('model unpickle and the real unpickle_entity/_db_set_ disagree', {'scenario': info, 'request': req}, model=m, impl=real)

def result_pickle_oracle(ctx):
    """every flavour of query / query result — Query, eager slice, lazy page(n) / limit(k, offset=m) results, each pickled before
    and after something materialised it, entity results and projections — pickled in one db_session and unpickled in another:
    the rows (in order) and their attribute values must be those of the result's own window of the full ordered result.
    The Lean model (getstateRows) predicts the rows; an exception from the real code is a verdict, never a crash."""
    rng = ctx.rng
    reqs = []; cases = []
    for rd in range(ctx.scale(6, 60)):
        db = Database()
        ns = {}
        exec('class Row(db.Entity):\n    id = PrimaryKey(int)\n    v = Required(int)\n    s = Optional(str)\n', dict(db=db, PrimaryKey=PrimaryKey, Required=Required, Optional=Optional), ns)
        Row = ns['Row']; register([Row])
        db.bind('sqlite', ':memory:'); db.generate_mapping(create_tables=True)
        n = rng.choice([0, 1, 3, 6, 9, 13])
        data = [(i, rng.choice([0, 1, 5, 5, 9]), rng.choice(['', 'a', 'b,*'])) for i in range(1, n + 1)]
        with db_session:
            for i, v, s_ in data: Row(id=i, v=v, s=s_)
        for _ in range(ctx.scale(8, 14)):
            proj = rng.random() < 0.4
            desc_ = rng.random() < 0.3
            cond = rng.choice([None, 'v>0'])
            full = [r for r in (sorted(data, reverse=desc_)) if cond is None or r[1] > 0]
            def mk():
                q = select((r.id, r.v) for r in Row) if proj else select(r for r in Row)
                if cond: q = q.filter(lambda r: r.v > 0) if not proj else q.filter(lambda id, v: v > 0)
                if proj: return q.order_by(-1) if desc_ else q.order_by(1)
                return q.order_by(core.desc(Row.id)) if desc_ else q.order_by(Row.id)
            flavour = rng.choice(['Query', 'slice', 'page', 'page', 'limit', 'limit', 'limit'])
            mat = rng.random() < 0.5
            lim = off = None
            try:
                with db_session:
                    q = mk()
                    if flavour == 'Query': obj = q; mat = False
                    elif flavour == 'slice':
                        a = rng.choice([0, 0, 1, 2, 5]); b = a + rng.choice([0, 1, 2, 4]); obj = q[a:b]; lim, off = b - a, a; mat = True
                    elif flavour == 'page':
                        pn = rng.choice([1, 2, 2, 3, 4]); ps = rng.choice([1, 2, 3, 5]); obj = q.page(pn, ps); lim, off = ps, (pn - 1) * ps
                    else:
                        lim = rng.choice([None, 0, 1, 2, 3, 7]); off = rng.choice([None, 0, 1, 2, 4, 20]); obj = q.limit(lim, offset=off)
                    if mat and flavour in ('page', 'limit'):
                        if rng.random() < 0.5: len(obj)
                        else: list(obj)
                    blob = pickle.dumps(obj, protocol=rng.choice([2, pickle.HIGHEST_PROTOCOL]))
                with db_session:
                    res = pickle.loads(blob)
                    got = [list(x) if proj else [x.id, x.v, x.s] for x in res]
                    glen = len(res)
            except Exception as e:
                got = 'raised %s: %s' % (type(e).__name__, str(e)[:120]); glen = None
            o = off or 0
            win = full[o:] if lim is None else full[o:o + lim]
            exp = [[r[0], r[1]] for r in win] if proj else [list(r) for r in win]
            desc = {'rows': n, 'query': ('select((r.id, r.v) for r in Row)' if proj else 'select(r for r in Row)') + ('.filter(v > 0)' if cond else '') + (('.order_by(-1)' if desc_ else '.order_by(1)') if proj else ('.order_by(desc(Row.id))' if desc_ else '.order_by(Row.id)')),
                    'pickled': 'the Query' if flavour == 'Query' else 'q[%s:%s]' % (off, (off or 0) + (lim or 0)) if flavour == 'slice' else 'q.page(%s, %s)' % (((off or 0) // lim + 1) if lim else None, lim) if flavour == 'page' else 'q.limit(%s, offset=%s)' % (lim, off),
                    'materialised_before_pickling': mat}
            ctx.case(['result-pickle', desc], kind='oracle:result-pickle:%s:%s' % (flavour, 'materialised' if mat else 'lazy'), nontrivial=bool(exp))
            ctx.count('result-pickle:%s:offset%s' % ('projection' if proj else 'entities', '>0' if o else '=0'))
            if got != exp or (glen is not None and glen != len(exp)):
                ctx.violation('a pickled query result unpickled in another db_session does not have the rows / attribute values of the result',
                              desc, observed=got, expected=exp, key='result-pickle:%s:%s:%s' % (flavour, 'materialised' if mat else 'lazy', 'offset>0' if o else 'offset=0') if not isinstance(got, str) else 'result-pickle:%s:%s' % (flavour, got.split(':')[0]))
            reqs.append({'op': 'getstate_rows', 'full': [r[0] for r in full], 'limit': lim, 'offset': off, 'materialised': mat})
            cases.append((desc, [r[0] for r in win], got))
        db.disconnect()
    if ctx.driver.ok:
        outs = ctx.driver('C31', reqs)
        for req, (desc, win, got), o in zip(reqs, cases, outs):
            ctx.case(['result-pickle-model', req], kind='tie:result-pickle')
            if o.get('ok') != win:
                ctx.divergence('model getstateRows and the window of the ordered result disagree', {'request': req}, model=o, impl=win)
            elif isinstance(got, list) and [g[0] for g in got] != o['ok']:
                ctx.divergence('model getstateRows and the rows of the real unpickled result disagree', {'case': desc, 'request': req}, model=o['ok'], impl=[g[0] for g in got])

def state_oracle(ctx):
    rng = ctx.rng
    decode_queue = []
    for rd in range(ctx.scale(40, 600)):
        cfg = random_cfg(rng)
        w = World(cfg)
        ctx.count('cfg:a_pk=' + cfg['a_pk']); ctx.count('cfg:b_pk=' + cfg['b_pk']); ctx.count('cfg:m_pk=' + cfg['m_pk'])
        log = []
        with db_session:
            w.populate(rng)
        with db_session:
            for step in range(rng.choice([0, 1, 3, 6])):
                w.mutate(rng, ctx, log)
                if rng.random() < 0.4:
                    check_bag(ctx, w, rng, log, decode_queue)
            ctx.count('session-modified-at-check:%s' % bool(w.db._get_cache().modified))
            check_bag(ctx, w, rng, log, decode_queue)       # Bag does not flush: reads the (possibly unflushed) current values
            check_entity_to_dict(ctx, w, rng, log)           # Entity.to_dict flushes first
            check_bag(ctx, w, rng, log, decode_queue)
        check_pickle(ctx, w, rng, log)
        w.db.disconnect()
    if ctx.driver.ok and cell_queue:
        outs = ctx.driver('C31', [q[0] for q in cell_queue])
        for (req, real, where), o in zip(cell_queue, outs):
            ctx.case(['cell', req], kind='tie:cell-' + req['which'], nontrivial='many' in req['val'] or req['val'].get('one') is not None)
            m = o.get('ok')
            if isinstance(m, dict) and 'keys' in m: m = {'keys': sorted(json.dumps(k) for k in m['keys'])}
            if isinstance(m, dict) and 'tuples' in m: m = {'tuples': sorted(json.dumps(t) for t in m['tuples'])}
            ctx.count('tie:cell:' + (next(iter(m)) if isinstance(m, dict) else 'error'))
            back = o.get('back')
            want = req['val'].get('many', req['val'].get('one'))
            if m != real:
                ctx.divergence('model cell (bagCell / entityCell) and the value the real to_dict reports disagree', {'where': where, 'request': req}, model=o.get('ok', o), impl=real)
            elif want is not None and (sorted(map(json.dumps, back)) != sorted(map(json.dumps, want)) if 'many' in req['val'] else back != want):
                ctx.divergence('reading the model cell back (unRep) does not give the current value', {'where': where, 'request': req}, model=back, impl=want)
    del cell_queue[:]
    if ctx.driver.ok and walk_queue:
        outs = ctx.driver('C31', [q[0] for q in walk_queue])
        for (req, real, objs, via), o in zip(walk_queue, outs):
            ctx.case(['bagwalk', req], kind='tie:bag-traversal', nontrivial=len(req['given']) > 1)
            model = {i: f for i, f in o.get('ok', [])} if isinstance(o.get('ok'), list) else None
            realm = {i: f for i, f in real}
            ok = model is not None and set(model) == set(realm) and all(realm[i] is None or realm[i] == model[i] for i in realm)
            if any(not v for v in req['ro']): ctx.count('tie:bag-traversal:related_objects=False')
            if model and any(f is False for f in model.values()): ctx.count('tie:bag-traversal:reduced-entries')
            if not ok:
                ctx.divergence('model bagWalk and the real Bag.to_dict disagree on which objects appear / with a full or reduced entry',
                               {'objects': objs, 'request': req, 'via': via}, model=o, impl=real)
    del walk_queue[:]
    # composite keys emitted by the real Bag.to_dict, decoded by the Lean decoder: must be a key of the right arity
    if ctx.driver.ok and decode_queue:
        outs = ctx.driver('C31', [{'op': 'decode', 's': k} for k, _ in decode_queue])
        for (k, en), o in zip(decode_queue, outs):
            ctx.case(['emitted-key', k], kind='tie:decode-of-emitted-key', nontrivial=('*' in k))
            if not isinstance(o.get('ok'), list) or len(o['ok']) < 2:
                ctx.divergence('a key emitted by Bag.to_dict is not in the image of the model encoder', {'key': k, 'entity': en}, model=o, impl=k)

def run(ctx):
    key_tie(ctx)
    run_corpus(ctx)
    witnesses(ctx)
    attrs_tie(ctx)
    pickle_tie(ctx)
    result_pickle_oracle(ctx)
    state_oracle(ctx)

def replay(ctx, data):
    run(ctx)
