"""C21 — repeated reads in a session return the same value or fail loudly.

Two real sessions on ONE file-backed SQLite database: the READER runs a random list of operations inside one
`db_session` (attribute reads, queries that fetch the same rows again -- full rows or chosen columns, with or without a
condition on an attribute --, `obj.load()`, collection iteration / len / count / is_empty / contains); the WRITER commits
between any two reader operations through a second raw connection (updates, reference changes, inserts, deletes).

Tie: the same operation list together with the committed table contents at each position is run by the Lean model
(PonyVerif/Model/RepRead.lean, through the driver); after EVERY operation the result (value / ids / number / bool /
exception kind) and the whole reader session are compared: per instance `_vals_`, `_dbvals_`, `_rbits_`, per parent
the SetData of the collection (`items`, `is_fully_loaded`, `count`).

Property oracle (real code only, engine bookkeeping, never the model): once a non-volatile attribute value was returned,
every later read of it returns the same value or raises UnrepeatableReadError; once a fully loaded collection was observed
(iteration, len, bool, is_empty on a loaded collection), every later iteration / len / is_empty agrees with it or raises.
Part 2 (oracle only): a second schema with default prefetching (`nplus1_threshold`), a many-to-many collection and a
one-to-one pair; writer changes link rows.
"""
import itertools, json, os, sqlite3, traceback

from pony.orm import Database, Required, Optional, Set, PrimaryKey, db_session, select, rollback, commit
from pony.orm import core
import ponyutil

# model attribute numbers of C (declaration order)
ATTRS = [('parent', 'ref'), ('a', 'int'), ('b', 'int'), ('w', 'volatile'), ('z', 'lazy'), ('n', 'nullable')]
NAMES = [n for n, _ in ATTRS]
IDX = {n: i for i, n in enumerate(NAMES)}
VOLATILE = [i for i, (_, k) in enumerate(ATTRS) if k == 'volatile']
LAZY = [i for i, (_, k) in enumerate(ATTRS) if k == 'lazy']
NONLAZY = [i for i in range(len(ATTRS)) if i not in LAZY]
NULLABLE = [i for i, (_, k) in enumerate(ATTRS) if k in ('ref', 'lazy', 'nullable')]     # model value -1 = NULL / None
PIDS = [1, 2, 3]
CIDS = [1, 2, 3, 4, 5, 6, 7]


def enc(v):
    return -1 if v is None else int(v)


def dec(i, v):
    return None if (i in NULLABLE and v == -1) else v


class Env(object):
    def __init__(self):
        self.wd = ponyutil.workdir('c21')
        self.path = os.path.join(self.wd, 'c21.sqlite')
        db = self.db = Database()
        class P(db.Entity):
            id = PrimaryKey(int)
            kids = Set('C', nplus1_threshold=None)     # the model has no batch prefetching; part 2 uses the default
        class C(db.Entity):
            id = PrimaryKey(int)
            parent = Optional(P)
            a = Required(int)
            b = Required(int)
            w = Required(int, volatile=True)
            z = Optional(int, lazy=True)
            n = Optional(int)
        # part 2 schema
        class Q(db.Entity):
            id = PrimaryKey(int)
            name = Required(str)
            items = Set('I')
            tags = Set('T')
            one = Optional('O')
        class I(db.Entity):
            id = PrimaryKey(int)
            q = Optional(Q)
            v = Required(int)
        class T(db.Entity):
            id = PrimaryKey(int)
            qs = Set(Q)
        class O(db.Entity):
            id = PrimaryKey(int)
            q = Optional(Q)
            v = Required(int)
        # part 3 schema (tied to Model/CollRead.lean): many-to-many without batch prefetching on Set.load
        class QQ(db.Entity):
            id = PrimaryKey(int)
            tags = Set('TT', nplus1_threshold=None)
        class TT(db.Entity):
            id = PrimaryKey(int)
            qs = Set(QQ, nplus1_threshold=None)
        self.P, self.C, self.Q, self.I, self.T, self.O, self.QQ, self.TT = P, C, Q, I, T, O, QQ, TT
        @db.on_connect(provider='sqlite')
        def fast(db, connection):
            connection.execute('PRAGMA synchronous = OFF')
        db.bind('sqlite', self.path, create_db=True)
        db.generate_mapping(create_tables=True)
        db.disconnect()
        self.w = sqlite3.connect(self.path, isolation_level=None, timeout=2.0)
        self.w.execute('PRAGMA synchronous = OFF')
        self.nonce = itertools.count(1000)
    def reset(self, rows):
        w = self.w
        w.execute('BEGIN')
        w.execute('DELETE FROM C'); w.execute('DELETE FROM P')
        for p in PIDS: w.execute('INSERT INTO P (id) VALUES (?)', (p,))
        for cid, vals in rows:
            w.execute('INSERT INTO C (id, parent, a, b, w, z, n) VALUES (?,?,?,?,?,?,?)', [cid] + [dec(i, v) for i, v in enumerate(vals)])
        w.execute('COMMIT')
    def table(self):
        """committed contents of C in rowid order, model encoding"""
        return [[r[0], [[i, enc(v)] for i, v in enumerate(r[1:])]] for r in
                self.w.execute('SELECT id, parent, a, b, w, z, n FROM C ORDER BY id').fetchall()]
    def write(self, wop):
        k = wop[0]; w = self.w
        if k == 'set': w.execute('UPDATE C SET %s = ? WHERE id = ?' % NAMES[wop[2]], (dec(wop[2], wop[3]), wop[1]))
        elif k == 'move': w.execute('UPDATE C SET parent = ? WHERE id = ?', (None if wop[2] == -1 else wop[2], wop[1]))
        elif k == 'insert': w.execute('INSERT OR IGNORE INTO C (id, parent, a, b, w, z, n) VALUES (?,?,?,?,?,?,?)', (wop[1], None if wop[2] == -1 else wop[2], wop[3], wop[3], wop[3], wop[3], None if wop[3] == 0 else wop[3]))
        elif k == 'delete': w.execute('DELETE FROM C WHERE id = ?', (wop[1],))
        else: raise ValueError(wop)
    def close(self):
        try: self.w.close()
        except Exception: pass
        try: self.db.disconnect()
        except Exception: pass
        ponyutil.rmtree(self.wd)


def snap(env):
    cache = core.local.db2cache.get(env.db)
    C, P = env.C, env.P
    attrs = [getattr(C, n) for n in NAMES]
    bits = [C._bits_[a] for a in attrs]
    def pairs(d):
        out = []
        for i, a in enumerate(attrs):
            if a in d:
                v = d[a]
                out.append([i, v._pkval_ if isinstance(v, core.Entity) else enc(v)])
        return out
    cs = []
    for obj in sorted(cache.indexes[C._pk_attrs_].values(), key=lambda o: o._pkval_):
        cs.append({'id': obj._pkval_, 'vals': pairs(obj._vals_), 'dbvals': pairs(obj._dbvals_),
                   'rbits': [i for i, b in enumerate(bits) if obj._rbits_ & b],
                   'wbits': [i for i, b in enumerate(bits) if (obj._wbits_ or 0) & b]})
    kids = []
    for p in sorted(cache.indexes[P._pk_attrs_].values(), key=lambda o: o._pkval_):
        sd = p._vals_.get(P.kids)
        if sd is not None:
            kids.append({'p': p._pkval_, 'items': sorted(x._pkval_ for x in sd), 'full': bool(sd.is_fully_loaded), 'count': sd.count})
    return {'c': cs, 'kids': kids, 'toSave': [o._pkval_ for o in cache.objects_to_save if o is not None]}


def needs_sql(env, cache, op):
    """may the operation issue a SELECT?  (then pending assignments would be auto-flushed first)"""
    k = op['k']
    if k in ('write', 'commit'): return False
    if k in ('read', 'contains'):
        obj = cache.indexes[env.C._pk_attrs_].get(op['c'])
        if obj is None: return False
        return getattr(env.C, NAMES[op['a'] if k == 'read' else 0]) not in obj._vals_
    return True


def run_reader(env, case):
    """runs the history on real Pony.  Returns the list of EXECUTED steps: {'w': writer ops really applied, 'op', 'res',
    'snap', 'db' (committed table when the op ran), 'full'}.  Differences to the generated history: a writer operation is
    dropped while the reader holds the SQLite write lock (open transaction); `commit()` is inserted before an operation
    that may issue SQL while assignments are pending (that is what auto-flush would do, plus releasing the lock);
    the history ends at an OptimisticCheckError (the session is rolled back)."""
    env.reset(case['rows'])
    C, P = env.C, env.P
    out = []
    with db_session:
        ps = {p: P[p] for p in PIDS}
        cache = core.local.db2cache[env.db]
        def one(wops, op):
            applied = []
            for wop in wops:
                if cache.in_transaction: continue
                env.write(wop); applied.append(wop)
            table = env.table()
            k = op['k']
            idx = cache.indexes[C._pk_attrs_]
            try:
                if k == 'fetch':
                    ids = op['ids']; nonce = -next(env.nonce)
                    if op.get('sql'):
                        cols = ', '.join(['id'] + [NAMES[i] for i in op['cols']])
                        objs = C.select_by_sql('SELECT %s FROM C WHERE id IN (%s) ORDER BY id' % (cols, ', '.join(map(str, ids)) or 'NULL'))
                    elif op.get('cond') is not None:
                        lo = op['cond'][1]
                        if op['cond'][0] == 1: objs = C.select(lambda c: c.id in ids and c.id != nonce and c.a >= lo).order_by(C.id)[:]
                        else: objs = C.select(lambda c: c.id in ids and c.id != nonce and c.b >= lo).order_by(C.id)[:]
                    else:
                        objs = C.select(lambda c: c.id in ids and c.id != nonce).order_by(C.id)[:]
                    res = {'objs': [o._pkval_ for o in objs]}
                elif k == 'read':
                    obj = idx.get(op['c'])
                    if obj is None: res = {'err': 'other'}
                    else:
                        v = getattr(obj, NAMES[op['a']])
                        res = {'val': v._pkval_ if isinstance(v, core.Entity) else enc(v)}
                elif k == 'write':
                    obj = idx.get(op['c'])
                    if obj is None or op['a'] == 0: res = {'err': 'other'}
                    else: setattr(obj, NAMES[op['a']], dec(op['a'], op['v'])); res = {'ok': True}
                elif k == 'commit':
                    commit(); res = {'ok': True}
                elif k == 'load':
                    obj = idx.get(op['c'])
                    if obj is None: res = {'err': 'other'}
                    else: obj.load(); res = {'ok': True}
                elif k == 'iter': res = {'objs': sorted(c._pkval_ for c in ps[op['p']].kids)}
                elif k == 'len': res = {'num': len(ps[op['p']].kids)}
                elif k == 'count': res = {'num': ps[op['p']].kids.count()}
                elif k == 'isEmpty': res = {'bool': ps[op['p']].kids.is_empty()}
                elif k == 'contains':
                    obj = idx.get(op['c'])
                    if obj is None: res = {'err': 'other'}
                    else: res = {'bool': obj in ps[op['p']].kids}
                else: raise ValueError(k)
            except core.UnrepeatableReadError as e:
                res = {'err': 'UnrepeatableReadError', 'msg': str(e)[:120]}
            except core.OptimisticCheckError as e:
                res = {'err': 'OptimisticCheckError', 'msg': str(e)[:120]}
            except Exception as e:
                res = {'err': 'other', 'cls': type(e).__name__, 'msg': str(e)[:120]}
            dead = res.get('err') == 'OptimisticCheckError' or not cache.is_alive
            out.append({'w': applied, 'op': op, 'res': res, 'snap': None if dead else snap(env), 'db': table,
                        'full': {} if dead else {p: bool(ps[p]._vals_.get(P.kids) is not None and ps[p]._vals_[P.kids].is_fully_loaded) for p in PIDS}})
            return not dead
        for step in case['steps']:
            wops = step['w']
            if cache.modified and needs_sql(env, cache, step['op']):
                if not one(wops, {'k': 'commit'}): break
                wops = []
            if not one(wops, step['op']): break
        if cache.is_alive: rollback()
    return out


def model_request(case, real):
    steps = []
    for r in real:
        op = dict(r['op'])
        if op['k'] == 'fetch':
            op = {'k': 'fetch', 'ids': op['ids'], 'cols': op['cols'], 'cond': op.get('cond')}
        steps.append({'db': r['db'], 'op': op})
    return {'op': 'run', 'attrs': list(range(len(ATTRS))), 'volatile': VOLATILE, 'lazy': LAZY, 'guarded': True,
            'cids': CIDS, 'pids': PIDS, 'steps': steps}


def norm_res(r):
    r = {k: v for k, v in r.items() if k not in ('msg', 'cls')}
    return r


def norm_model_snap(s):
    return {'c': s['c'], 'kids': [dict(k, items=sorted(k['items'])) for k in s['kids']], 'toSave': s['toSave']}


def compare(case, real, mout):
    if 'steps' not in mout: return {'what': 'driver error', 'model': mout}
    for i, (r, m) in enumerate(zip(real, mout['steps'])):
        mres = m['res']; k = r['op']['k']
        if k == 'iter' and 'objs' in mres: mres = {'objs': sorted(mres['objs'])}
        if norm_res(r['res']) != mres:
            return {'what': 'result of step %d (%s)' % (i, k), 'model': mres, 'real': r['res']}
        if r['snap'] is None: break          # the session is over (OptimisticCheckError)
        ms = norm_model_snap(m['snap'])
        if ms != r['snap']:
            part = 'c' if ms['c'] != r['snap']['c'] else 'kids' if ms['kids'] != r['snap']['kids'] else 'toSave'
            return {'what': 'session after step %d (%s): %s' % (i, k, part), 'model': ms[part], 'real': r['snap'][part]}
    return None


def oracle(case, real):
    """the property, from the reader's results only"""
    seen = {}; coll = {}; bad = []; cond = {}; cont = {}
    for i, r in enumerate(real):
        op = r['op']; k = op['k']; res = r['res']
        if 'err' in res:
            if res['err'] != 'UnrepeatableReadError':
                # a loud failure of another class is acceptable only for a FIRST read (e.g. lazy attribute of a vanished row)
                key = ('attr', op.get('c'), op.get('a')) if k == 'read' else ('coll', op.get('p'))
                if (k == 'read' and key[1:] in seen) or (k in ('iter', 'len', 'isEmpty') and op['p'] in coll):
                    bad.append({'step': i, 'op': op, 'kind': 'other-error-on-repeated-read', 'got': res})
            continue
        if k == 'fetch' and op.get('cond') is not None and not op.get('sql'):
            # the query result is an observation too: every returned instance satisfied `attr >= lo` (used attribute)
            for c in res.get('objs', []): cond.setdefault((c, op['cond'][0]), (i, op['cond'][1]))
        if k == 'write':
            if op['a'] not in VOLATILE: seen[(op['c'], op['a'])] = (i, op['v'])     # the session's own change
            cond.pop((op['c'], op['a']), None)
        elif k == 'read' and op['a'] not in VOLATILE:
            key = (op['c'], op['a'])
            if key in seen and seen[key][1] != res['val']:
                bad.append({'step': i, 'op': op, 'kind': 'attribute-changed', 'first_step': seen[key][0], 'first': seen[key][1], 'got': res['val'],
                            'attr_kind': ATTRS[op['a']][1]})
            seen.setdefault(key, (i, res['val']))
            if key in cond and res['val'] < cond[key][1]:
                bad.append({'step': i, 'op': op, 'kind': 'condition-observed-attribute-changed', 'first_step': cond[key][0],
                            'first': 'query returned the instance for %s >= %d' % (NAMES[op['a']], cond[key][1]), 'got': res['val'], 'attr_kind': ATTRS[op['a']][1]})
        elif k == 'contains' and 0 not in VOLATILE:
            ck = (op['p'], op['c'])          # `x in p.kids` is an observation of its own
            if ck in cont and cont[ck][1] != res['bool']:
                bad.append({'step': i, 'op': op, 'kind': 'contains-changed', 'first_step': cont[ck][0], 'first': cont[ck][1], 'got': res['bool']})
            cont.setdefault(ck, (i, res['bool']))
            key = (op['c'], 0)
            if key in seen and (seen[key][1] == op['p']) != res['bool']:
                bad.append({'step': i, 'op': op, 'kind': 'contains-changed', 'first_step': seen[key][0], 'first': seen[key][1], 'got': res['bool']})
        elif k in ('iter', 'len', 'isEmpty') and r['full'].get(op['p']):
            p = op['p']
            obs = {'iter': ('items', res.get('objs')), 'len': ('len', res.get('num')), 'isEmpty': ('empty', res.get('bool'))}[k]
            first = coll.setdefault(p, {'step': i})
            for kind, val in (obs,):
                derived = {'items': val} if kind == 'items' else {}
                if kind == 'items': derived.update(len=len(val), empty=(len(val) == 0))
                elif kind == 'len': derived.update(len=val, empty=(val == 0))
                else:
                    derived.update(empty=val)
                for dk, dv in derived.items():
                    if dk in first and first[dk] != dv:
                        bad.append({'step': i, 'op': op, 'kind': 'collection-changed:' + dk, 'first_step': first['step'], 'first': first[dk], 'got': dv})
                    first.setdefault(dk, dv)
    return bad


# ---------------------------------------------------------------- case generation

def gen_case(rng):
    rows = []
    for cid in sorted(rng.sample([1, 2, 3, 4, 5], rng.choice([2, 3, 4, 5]))):
        rows.append([cid, [rng.choice([1, 1, 2, -1]), rng.choice([0, 1, 2]), rng.choice([0, 1, 2]), rng.choice([0, 1]), rng.choice([-1, -1, 0, 1]), rng.choice([-1, -1, 0, 1])]])
    hot_c = rng.sample([r[0] for r in rows], min(len(rows), rng.choice([1, 2, 2])))
    hot_p = rng.sample(PIDS, rng.choice([1, 2]))
    hot_a = rng.sample(range(len(ATTRS)), rng.choice([1, 2, 3]))
    steps = []
    counter = itertools.count(10)
    wmode = rng.random() < 0.4      # the session also assigns attributes and commits in the middle
    if rng.random() < 0.8:     # most histories start by loading the hot instances (reads need them in the identity map)
        steps.append({'w': [], 'op': {'k': 'fetch', 'ids': sorted(hot_c), 'cols': NONLAZY} if rng.random() < 0.7 else
                                     {'k': 'fetch', 'ids': sorted(hot_c), 'sql': True, 'cols': sorted(rng.sample(range(len(ATTRS)), rng.choice([2, 3, 5])))}})
    for _ in range(rng.choice([3, 5, 7, 9, 12])):
        w = []
        if rng.random() < 0.55:
            for _ in range(rng.choice([1, 1, 2])):
                r = rng.random(); cid = rng.choice(hot_c if rng.random() < 0.8 else CIDS)
                if r < 0.35: w.append(['set', cid, rng.choice([a for a in hot_a if a != 0] or [1]), rng.choice([0, 1, 2, next(counter)])])
                elif r < 0.4: w.append(['set', cid, rng.choice([4, 5]), rng.choice([-1, 3, next(counter)])])
                elif r < 0.7: w.append(['move', cid, rng.choice(hot_p + [-1])])
                elif r < 0.85: w.append(['insert', rng.choice([6, 7] + [c for c in CIDS]), rng.choice(hot_p + [-1]), rng.choice([0, 1, 2])])
                else: w.append(['delete', cid])
        r = rng.random()
        c = rng.choice(hot_c if rng.random() < 0.85 else CIDS); p = rng.choice(hot_p if rng.random() < 0.85 else PIDS)
        if wmode and rng.random() < 0.45:
            rr = rng.random()
            if rr < 0.5:
                wa = rng.choice([a for a in hot_a if a != 0] or [1, 2, 3, 4, 5]) if rng.random() < 0.5 else rng.choice([1, 2, 3, 4, 5])
                op = {'k': 'write', 'c': c, 'a': wa, 'v': rng.choice([0, 1, 2, next(counter)] + ([-1] if wa in (4, 5) else []))}
            elif rr < 0.85: op = {'k': 'commit'}
            else: op = {'k': 'read', 'c': c, 'a': rng.choice(hot_a)}
            steps.append({'w': w, 'op': op}); continue
        if r < 0.22:
            ids = sorted(set(rng.sample(CIDS, rng.choice([1, 2, 3])) + ([c] if rng.random() < 0.7 else [])))
            rr = rng.random()
            if rr < 0.45: op = {'k': 'fetch', 'ids': ids, 'cols': NONLAZY}
            elif rr < 0.7: op = {'k': 'fetch', 'ids': ids, 'cols': NONLAZY, 'cond': [rng.choice([1, 2]), rng.choice([0, 1, 2])]}
            else: op = {'k': 'fetch', 'ids': ids, 'sql': True, 'cols': sorted(rng.sample(range(len(ATTRS)), rng.choice([1, 2, 3, 5])))}
        elif r < 0.50: op = {'k': 'read', 'c': c, 'a': rng.choice(hot_a if rng.random() < 0.8 else list(range(len(ATTRS))))}
        elif r < 0.57: op = {'k': 'load', 'c': c}
        elif r < 0.68: op = {'k': 'iter', 'p': p}
        elif r < 0.78: op = {'k': 'len', 'p': p}
        elif r < 0.85: op = {'k': 'count', 'p': p}
        elif r < 0.92: op = {'k': 'isEmpty', 'p': p}
        else: op = {'k': 'contains', 'p': p, 'c': c}
        steps.append({'w': w, 'op': op})
    return {'rows': rows, 'steps': steps}


def template_cases():
    """fixed histories: every observation kind x every kind of concurrent change x every reload path"""
    rows = [[1, [1, 1, 1, 1, 1, 1]], [2, [1, 2, 2, 2, 2, -1]], [3, [2, 3, 3, 3, -1, 3]]]
    F = {'k': 'fetch', 'ids': [1, 2, 3], 'cols': NONLAZY}
    cases = []
    def hist(*steps, rows=rows): cases.append({'rows': rows, 'steps': [{'w': w, 'op': op} for w, op in steps]})
    reloads = [F, {'k': 'load', 'c': 1}, {'k': 'fetch', 'ids': [1], 'sql': True, 'cols': [0, 1, 2, 3, 4, 5]},
               {'k': 'fetch', 'ids': [1, 2], 'cols': NONLAZY, 'cond': [1, 0]}, {'k': 'iter', 'p': 1}, {'k': 'iter', 'p': 2}, {'k': 'isEmpty', 'p': 2}]
    changes = [['set', 1, 1, 9], ['set', 1, 3, 9], ['set', 1, 4, 9], ['set', 1, 5, 9], ['set', 1, 5, -1], ['move', 1, 2], ['move', 1, -1], ['delete', 1], ['insert', 6, 1, 5], ['move', 3, 1]]
    observes = [{'k': 'read', 'c': 1, 'a': a} for a in range(6)] + [{'k': 'iter', 'p': 1}, {'k': 'len', 'p': 1}, {'k': 'isEmpty', 'p': 1},
                {'k': 'contains', 'p': 1, 'c': 1}, {'k': 'count', 'p': 1}, {'k': 'len', 'p': 2}]
    for ob in observes:
        for ch in changes:
            for rl in reloads:
                hist(([], F), ([], ob), ([ch], rl), ([], ob))
    # own writes: assign, (read back), commit and stay in the session, concurrent committed change, reload, read again
    for a in (1, 2, 3, 4, 5):
        for readback in (True, False):
            for rl in reloads[:4]:
                for pre_read in (False, True):
                    st = [([], F)] + ([([], {'k': 'read', 'c': 1, 'a': a})] if pre_read else []) + [([], {'k': 'write', 'c': 1, 'a': a, 'v': 50})]
                    if readback: st.append(([], {'k': 'read', 'c': 1, 'a': a}))
                    st += [([], {'k': 'commit'}), ([['set', 1, a, 99]], rl), ([], {'k': 'read', 'c': 1, 'a': a})]
                    hist(*st)
    hist(([], F), ([], {'k': 'write', 'c': 1, 'a': 1, 'v': 50}), ([], {'k': 'write', 'c': 2, 'a': 2, 'v': 60}), ([], F), ([], {'k': 'read', 'c': 2, 'a': 2}),
         ([], {'k': 'commit'}), ([['set', 2, 2, 7], ['set', 1, 2, 8]], F), ([], {'k': 'read', 'c': 1, 'a': 2}))
    # an observed attribute whose value is None, an own assignment to ANOTHER attribute of the same instance, commit(),
    # another session commits a non-NULL value for it (nothing else changes), reload or direct re-read
    nrows = [[1, [-1, 1, 1, 1, -1, -1]], [2, [1, 2, 2, 2, 2, 2]]]
    for x in (0, 4, 5):
        ch = ['move', 1, 2] if x == 0 else ['set', 1, x, 7]
        for y in (1, 2, 5 if x != 5 else 4):
            for rl in (None, {'k': 'fetch', 'ids': [1, 2], 'cols': NONLAZY}, {'k': 'load', 'c': 1},
                       {'k': 'fetch', 'ids': [1], 'sql': True, 'cols': [0, 1, 2, 3, 4, 5]}):
                for observe_twice in (False, True):
                    st = [([], {'k': 'fetch', 'ids': [1, 2], 'cols': NONLAZY}), ([], {'k': 'read', 'c': 1, 'a': x})]
                    st.append(([], {'k': 'write', 'c': 1, 'a': y, 'v': 40}))
                    if observe_twice: st.append(([], {'k': 'read', 'c': 1, 'a': x}))
                    st.append(([], {'k': 'commit'}))
                    if rl is None: st.append(([ch], {'k': 'read', 'c': 1, 'a': x}))
                    else: st += [([ch], rl), ([], {'k': 'read', 'c': 1, 'a': x})]
                    hist(*st, rows=nrows)
    # an observed None, a foreign commit of a non-NULL value, reload, re-read (no own write)
    for x in (0, 4, 5):
        ch = ['move', 1, 2] if x == 0 else ['set', 1, x, 7]
        for rl in ({'k': 'fetch', 'ids': [1, 2], 'cols': NONLAZY}, {'k': 'load', 'c': 1}, {'k': 'fetch', 'ids': [1], 'sql': True, 'cols': [0, 1, 2, 3, 4, 5]}):
            hist(([], {'k': 'fetch', 'ids': [1, 2], 'cols': NONLAZY}), ([], {'k': 'read', 'c': 1, 'a': x}), ([ch], rl), ([], {'k': 'read', 'c': 1, 'a': x}), rows=nrows)
    # observation, commit() without pending assignments (a new transaction must not forget what was read), foreign commit, reload
    for ob in observes[:6] + [{'k': 'contains', 'p': 1, 'c': 1}, {'k': 'len', 'p': 1}]:
        for ch in (['set', 1, ob.get('a', 1), 9] if ob['k'] == 'read' and ob['a'] != 0 else ['move', 1, 2],):
            hist(([], F), ([], ob), ([], {'k': 'commit'}), ([ch], F), ([], ob))
    # the session's own UPDATE is refused when an attribute it read was changed concurrently
    hist(([], F), ([], {'k': 'read', 'c': 1, 'a': 1}), ([['set', 1, 1, 77]], {'k': 'write', 'c': 1, 'a': 2, 'v': 5}), ([], {'k': 'commit'}))
    # the regression input of fix 6b92706: len, move a child away, re-fetch, len
    hist(([], {'k': 'len', 'p': 1}), ([['move', 1, 2]], F), ([], {'k': 'len', 'p': 1}), ([], {'k': 'iter', 'p': 1}), ([], {'k': 'count', 'p': 1}))
    return cases


def vkey(b):
    return '%s:%s' % (b['kind'], b.get('attr_kind', b['op']['k']))


def shrink(env, executed, key, budget=120):
    """greedy minimisation on the REAL code: drop reader steps / writer operations / rows while the oracle still reports a
    violation with the same key; returns the minimal executed history and its first violation"""
    def fails(c):
        try: real = run_reader(env, c)
        except Exception: return None
        bad = [b for b in oracle(c, real) if vkey(b) == key]
        if not bad: return None
        return {'rows': c['rows'], 'steps': [{'w': r['w'], 'op': r['op']} for r in real]}, bad[0]
    best = fails(executed)
    if best is None: return None
    changed = True
    while changed and budget > 0:
        changed = False
        cur = best[0]
        cands = []
        for i in range(len(cur['steps'])):
            cands.append(dict(cur, steps=cur['steps'][:i] + cur['steps'][i + 1:]))
            if i + 1 < len(cur['steps']) and cur['steps'][i]['w']:      # drop the step but keep its writer operations
                st = list(cur['steps']); st[i + 1] = dict(st[i + 1], w=st[i]['w'] + st[i + 1]['w']); del st[i]
                cands.append(dict(cur, steps=st))
            for j in range(len(cur['steps'][i]['w'])):
                st = list(cur['steps']); st[i] = dict(st[i], w=st[i]['w'][:j] + st[i]['w'][j + 1:])
                cands.append(dict(cur, steps=st))
        for j in range(len(cur['rows'])):
            cands.append(dict(cur, rows=cur['rows'][:j] + cur['rows'][j + 1:]))
        for c in cands:
            budget -= 1
            if budget <= 0: break
            r = fails(c)
            if r is not None and (len(r[0]['steps']), sum(len(x['w']) for x in r[0]['steps']), len(r[0]['rows'])) < \
                    (len(cur['steps']), sum(len(x['w']) for x in cur['steps']), len(cur['rows'])):
                best = r; changed = True; break
    return best


def run_cases(ctx, env, cases, label):
    reals = []
    for case in cases:
        try: reals.append(run_reader(env, case))
        except Exception:
            ctx.divergence('the real run did not complete', case, impl=traceback.format_exc()[-500:]); reals.append(None)
    reqs = [model_request(c, r) for c, r in zip(cases, reals) if r is not None]
    mouts = iter(ctx.driver('C21', reqs) if ctx.driver.ok else [])
    for case, real in zip(cases, reals):
        if real is None: continue
        executed = {'rows': case['rows'], 'steps': [{'w': r['w'], 'op': r['op']} for r in real]}    # replayable as it is
        ctx.case(executed, nontrivial=len(real) >= 3, kind=label)
        for r in real:
            ctx.count('op:%s:%s' % (r['op']['k'], r['res'].get('err', 'ok')))
            if r['w']: ctx.count('writer-ops-applied', len(r['w']))
        bad = oracle(case, real)
        if bad:
            b = bad[0]; key = vkey(b); small = executed
            if not any(v['key'] == key for v in ctx.violations) and not any(k.get('key') == key for k in ctx.known):
                m = shrink(env, executed, key)
                if m is not None: small, b = m
            ctx.violation('a repeated read in one session returned a different value without an error', small, observed=b,
                          expected='the value observed first (or assigned by the session itself), or UnrepeatableReadError',
                          key=key)
        if ctx.driver.ok:
            d = compare(case, real, next(mouts))
            if d is not None:
                ctx.divergence('model and real Pony disagree: ' + d['what'], executed, model=d.get('model'), impl=d.get('real'))


# ---------------------------------------------------------------- part 2 (oracle only): m2m, one-to-one, default prefetching

def part2(ctx, env, history=None):
    Q, I, T, O = env.Q, env.I, env.T, env.O
    w = env.w
    rng = ctx.rng
    def reset():
        w.execute('BEGIN')
        for t in ('I', 'O', 'Q_T', 'T', 'Q'): w.execute('DELETE FROM %s' % t)
        for q in (1, 2, 3): w.execute('INSERT INTO Q (id, name) VALUES (?, ?)', (q, 'q%d' % q))
        for t in (1, 2, 3): w.execute('INSERT INTO T (id) VALUES (?)', (t,))
        for i in (1, 2, 3, 4): w.execute('INSERT INTO I (id, q, v) VALUES (?,?,?)', (i, (i % 2) + 1, i))
        for q, t in ((1, 1), (1, 2), (2, 2)): w.execute('INSERT INTO Q_T (q, t) VALUES (?,?)', (q, t))
        w.execute('INSERT INTO O (id, q, v) VALUES (1, 1, 1)'); w.execute('INSERT INTO O (id, q, v) VALUES (2, NULL, 2)')
        w.execute('COMMIT')
    m2m_cols = [r[1] for r in w.execute('PRAGMA table_info(Q_T)').fetchall()]
    qc, tc = (m2m_cols[0], m2m_cols[1]) if m2m_cols[0].lower().startswith('q') else (m2m_cols[1], m2m_cols[0])
    def wop():
        r = rng.random()
        if r < 0.2: return ['UPDATE Q SET name = ? WHERE id = ?', ('n%d' % rng.randrange(5), rng.choice([1, 2, 3]))]
        if r < 0.4: return ['UPDATE I SET q = ? WHERE id = ?', (rng.choice([1, 2, 3, None]), rng.choice([1, 2, 3, 4]))]
        if r < 0.55: return ['INSERT OR IGNORE INTO Q_T (%s, %s) VALUES (?, ?)' % (qc, tc), (rng.choice([1, 2, 3]), rng.choice([1, 2, 3]))]
        if r < 0.7: return ['DELETE FROM Q_T WHERE %s = ? AND %s = ?' % (qc, tc), (rng.choice([1, 2, 3]), rng.choice([1, 2, 3]))]
        if r < 0.74: return ['UPDATE O SET q = NULL WHERE id = ?', (rng.choice([1, 2]),)]
        if r < 0.77: return ['DELETE FROM O WHERE id = ?', (rng.choice([1, 2, 3, 7, 8]),)]
        if r < 0.8: return ['INSERT OR IGNORE INTO O (id, q, v) VALUES (?, ?, 9)', (rng.choice([3, 4]), rng.choice([1, 2, 3]))]
        if r < 0.9: return ['INSERT OR IGNORE INTO I (id, q, v) VALUES (?, ?, 9)', (rng.choice([5, 6]), rng.choice([1, 2, 3]))]
        return ['DELETE FROM I WHERE id = ?', (rng.choice([1, 2, 3, 4, 5, 6]),)]
    def observations(qs, ts):
        """name -> thunk returning a canonical value; `full` thunks only count once the collection is fully loaded"""
        ob = {}
        qs = qs or {1: None, 2: None, 3: None}; ts = ts or {1: None, 2: None, 3: None}
        for q in (1, 2, 3):
            ob['Q%d.name' % q] = lambda q=q: qs[q].name
            ob['Q%d.items' % q] = lambda q=q: sorted(i.id for i in qs[q].items)
            ob['Q%d.len(items)' % q] = lambda q=q: len(qs[q].items)
            ob['Q%d.tags' % q] = lambda q=q: sorted(t.id for t in qs[q].tags)
            ob['Q%d.len(tags)' % q] = lambda q=q: len(qs[q].tags)
            ob['Q%d.one' % q] = lambda q=q: (qs[q].one.id if qs[q].one is not None else None)
        for i in (1, 2, 3):
            ob['I%d.q' % i] = lambda i=i: (lambda x: x.q.id if x.q is not None else None)(I[i])
        for t in (1, 2, 3):
            ob['T%d.qs' % t] = lambda t=t: sorted(q.id for q in ts[t].qs)
        return ob
    reloads = [lambda: select(i for i in I)[:], lambda: select(q for q in Q)[:], lambda: select(o for o in O)[:], lambda: select(t for t in T)[:],
               lambda: I.select_by_sql('SELECT * FROM I'), lambda: O.select_by_sql('SELECT * FROM O'), lambda: Q.select_by_sql('SELECT * FROM Q'),
               # prefetching re-queries collections, also the fully loaded ones (Set.prefetch_load_all)
               lambda: select(q for q in Q).prefetch(Q.tags)[:], lambda: select(q for q in Q).prefetch(Q.items)[:],
               lambda: select(t for t in T).prefetch(T.qs)[:], lambda: select(q for q in Q).prefetch(Q.one, T, I)[:],
               # only the NEW rows (the previous partner / item is not fetched again)
               lambda: O.select_by_sql('SELECT * FROM O WHERE id >= 3'), lambda: select(o for o in O if o.id >= 3)[:],
               lambda: I.select_by_sql('SELECT * FROM I WHERE id >= 5'), lambda: O.select_by_sql('SELECT * FROM O WHERE id = 2')]
    def gen_script():
        names = sorted(observations({}, {}))
        hot = rng.sample(names, rng.choice([2, 3, 4]))
        own = rng.random() < 0.5
        script = []
        for stepno in range(rng.choice([4, 6, 8, 10])):
            if rng.random() < 0.5:
                sql, args = wop(); script.append(['w', sql, list(args)])
            r = rng.random()
            if own and r < 0.3:
                rr = rng.random()
                if rr < 0.45: script.append(['set', rng.choice(['O', 'O', 'I']), rng.choice([1, 2, 3]), rng.randrange(50, 60)])
                elif rr < 0.8: script.append(['commit'])
                else: script.append(['create', rng.choice(['O', 'I']), rng.choice([7, 8]), rng.choice([0, 1, 2, 3])])
                continue
            if rng.random() < 0.35: script.append(['reload', rng.randrange(len(reloads))])
            else: script.append(['read', rng.choice(hot if rng.random() < 0.8 else names)])
        return script

    def run_script(script, label):
        """executes a history of writer statements / reloads / reads; the oracle runs on the values read"""
        reset()
        log = []; first = {}; first_at = {}
        try:
            with db_session:
                qs = {q: Q[q] for q in (1, 2, 3)}; ts = {t: T[t] for t in (1, 2, 3)}
                ob = observations(qs, ts)
                cache = core.local.db2cache[env.db]
                for act in script:
                    if act[0] == 'w':
                        if cache.in_transaction: log.append(['w-skipped', act[1], list(act[2])]); continue   # the reader holds the SQLite lock
                        w.execute(act[1], act[2]); log.append(['w', act[1], list(act[2])])
                    elif act[0] in ('set', 'create', 'commit'):
                        # the session's OWN changes: they give the objects the statuses modified / updated / inserted
                        try:
                            if act[0] == 'commit': commit()
                            elif act[0] == 'set':
                                ent = {'O': O, 'I': I, 'Q': Q}[act[1]]
                                obj = cache.indexes[ent._pk_attrs_].get(act[2])
                                if obj is None: log.append(act + ['not-loaded']); continue
                                if act[1] == 'Q': obj.name = 'own%d' % act[3]
                                else: obj.v = act[3]
                            else:
                                ent = {'O': O, 'I': I}[act[1]]
                                ent(id=act[2], q=(Q[act[3]] if act[3] else None), v=7)
                            log.append(act + ['ok'])
                            # the session's own change is a legitimate new value: forget what was observed of the things it touches
                            if act[0] == 'create' and act[3]:
                                for k in [k for k in first if k[1] in ('Q%d.items' % act[3], 'Q%d.one' % act[3], '%s%d.q' % (act[1], act[2]))]: first.pop(k)
                            elif act[0] == 'set' and act[1] == 'Q':
                                first.pop(('val', 'Q%d.name' % act[2]), None)
                        except (core.UnrepeatableReadError, core.OptimisticCheckError) as e:
                            log.append(act + [type(e).__name__])
                            if not cache.is_alive: break
                        except Exception as e:
                            log.append(act + ['error:' + type(e).__name__])
                            if not cache.is_alive: break
                    elif act[0] == 'reload':
                        k = act[1]
                        try:
                            reloads[k](); log.append(['reload', k, 'ok'])
                        except core.UnrepeatableReadError: log.append(['reload', k, 'UnrepeatableReadError'])
                        except Exception as e: log.append(['reload', k, type(e).__name__])
                    else:
                        name = act[1]
                        base = name.replace('len(', '').replace(')', '')
                        try:
                            v = ob[name](); log.append(['read', name, v])
                        except core.UnrepeatableReadError:
                            log.append(['read', name, 'UnrepeatableReadError']); continue
                        except Exception as e:
                            log.append(['read', name, 'error:' + type(e).__name__])
                            if ('val', base) in first or ('len', base) in first:
                                ctx.violation('a repeated read failed with an error other than UnrepeatableReadError', {'history': log},
                                              observed=type(e).__name__, expected=first.get(('val', base), first.get(('len', base))),
                                              key='part2:other-error:' + name.split('.', 1)[1])
                            continue
                        # consistency of len with items of the same collection
                        if name != base: v_cmp, key = v, ('len', base)
                        else: v_cmp, key = v, ('val', base)
                        if isinstance(v, list): first.setdefault(('len', base), len(v))
                        if key in first and first[key] != v_cmp:
                            # an UnrepeatableReadError that was raised (and caught by the application) since the observation does not
                            # license a later silent change, but it is a different finding than a change without any error
                            after_error = any(isinstance(e[-1], str) and e[-1] == 'UnrepeatableReadError' for e in log[first_at[key]:])
                            ctx.violation('a repeated read in one session returned a different value without an error'
                                          + (' (an UnrepeatableReadError had been raised and caught in between; the read itself was silent)' if after_error else ''),
                                          {'history': log}, observed=v, expected=first[key],
                                          key='part2:changed%s:%s' % ('-after-error' if after_error else '', name.split('.', 1)[1]))
                        if key not in first: first_at[key] = len(log) - 1
                        first.setdefault(key, v_cmp)
                if cache.is_alive: rollback()
        except (core.UnrepeatableReadError, core.OptimisticCheckError):
            pass          # raised by the flush at the end of the session: loud
        except Exception:
            ctx.divergence('part 2: the reader session crashed', {'history': log}, impl=traceback.format_exc()[-500:])
        ctx.case({'history': log}, nontrivial=len(log) > 3, kind=label)
        for e in log:
            if e[0] in ('set', 'create', 'commit', 'w-skipped'): ctx.count('part2:%s:%s' % (e[0], e[-1] if e[0] != 'w-skipped' else 'locked'))
        for e in log:
            if e[0] in ('read', 'reload'): ctx.count('part2:%s:%s' % (e[0], e[2] if isinstance(e[2], str) and (e[2].startswith('Unrep') or e[2].startswith('error')) else 'ok'))

    if history is not None:
        run_script([a[:3] if a[0] in ('w', 'w-skipped') else a[:2] if a[0] in ('reload', 'read') else a[:-1] for a in history], 'part2-replay')
    # fixed histories: the column-less side of the one-to-one pair served from the identity map (regression of the defect found
    # by the thorough tier), both directions of the foreign change, every reload of the other side
    for rl in (2, 5):
        run_script([['reload', rl], ['read', 'Q1.one'], ['w', 'UPDATE O SET q = NULL WHERE id = ?', [1]], ['reload', 5 if rl == 2 else 2], ['read', 'Q1.one']], 'part2-fixed')
        run_script([['reload', rl], ['read', 'Q1.one'], ['w', 'UPDATE O SET q = ? WHERE id = ?', [2, 1]], ['reload', rl], ['read', 'Q1.one'], ['read', 'Q2.one']], 'part2-fixed')
        run_script([['read', 'Q2.one'], ['w', 'UPDATE O SET q = ? WHERE id = ?', [2, 2]], ['reload', rl], ['read', 'Q2.one']], 'part2-fixed')
        run_script([['read', 'Q1.one'], ['w', 'UPDATE O SET q = NULL WHERE id = ?', [1]], ['reload', rl], ['read', 'Q1.one']], 'part2-fixed')
    # the objects involved in every status the session can give them (loaded, modified, updated after commit(), inserted),
    # a foreign change that REPLACES the partner / moves the item, a re-fetch of the NEW row only, the same read again
    DEL1 = ['w', 'DELETE FROM O WHERE id = ?', [1]]; NEW3 = ['w', 'INSERT OR IGNORE INTO O (id, q, v) VALUES (?, ?, 9)', [3, 1]]
    UNL1 = ['w', 'UPDATE O SET q = NULL WHERE id = ?', [1]]; LNK2 = ['w', 'UPDATE O SET q = ? WHERE id = ?', [1, 2]]
    for status_steps in ([], [['set', 'O', 1, 51]], [['set', 'O', 1, 51], ['commit']], [['set', 'Q', 1, 5], ['commit']]):
        for change in ([DEL1, NEW3], [UNL1, LNK2], [UNL1, NEW3]):
            for rl in (11, 12, 14, 2, 5):
                run_script([['reload', 5], ['read', 'Q1.one']] + status_steps + change + [['reload', rl], ['read', 'Q1.one']], 'part2-fixed')
                run_script([['read', 'Q1.one']] + status_steps + change + [['reload', rl], ['read', 'Q1.one']], 'part2-fixed')
    # a partner / item the session itself INSERTED
    for rl in (11, 12, 2):
        run_script([['read', 'Q2.one'], ['create', 'O', 7, 2], ['commit'], ['read', 'Q2.one'], ['w', 'DELETE FROM O WHERE id = ?', [7]],
                    ['w', 'INSERT OR IGNORE INTO O (id, q, v) VALUES (?, ?, 9)', [3, 2]], ['reload', rl], ['read', 'Q2.one']], 'part2-fixed')
    for status_steps in ([], [['set', 'I', 2, 51]], [['set', 'I', 2, 51], ['commit']]):
        for ob_name in ('Q1.items', 'Q1.len(items)', 'I2.q'):
            for rl in (0, 4, 8):
                run_script([['reload', 0], ['read', ob_name]] + status_steps + [['w', 'UPDATE I SET q = ? WHERE id = ?', [2, 2]], ['reload', rl], ['read', ob_name]], 'part2-fixed')
    run_script([['read', 'Q1.items'], ['create', 'I', 7, 1], ['commit'], ['read', 'Q1.items'], ['w', 'UPDATE I SET q = ? WHERE id = ?', [2, 7]], ['reload', 0], ['read', 'Q1.items']], 'part2-fixed')
    # prefetch of a fully loaded collection after a foreign link change (many-to-many both sides, one-to-many)
    for ob_name, wsql, wargs, rl in (('Q1.tags', 'INSERT OR IGNORE INTO Q_T (%s, %s) VALUES (?, ?)' % (qc, tc), [1, 3], 7),
                                     ('Q1.len(tags)', 'INSERT OR IGNORE INTO Q_T (%s, %s) VALUES (?, ?)' % (qc, tc), [1, 3], 7),
                                     ('Q1.tags', 'DELETE FROM Q_T WHERE %s = ? AND %s = ?' % (qc, tc), [1, 2], 7),
                                     ('T2.qs', 'INSERT OR IGNORE INTO Q_T (%s, %s) VALUES (?, ?)' % (qc, tc), [3, 2], 9),
                                     ('T2.qs', 'INSERT OR IGNORE INTO Q_T (%s, %s) VALUES (?, ?)' % (qc, tc), [3, 2], 7),
                                     ('Q1.items', 'UPDATE I SET q = ? WHERE id = ?', [1, 2], 8),
                                     ('Q1.len(items)', 'INSERT OR IGNORE INTO I (id, q, v) VALUES (?, ?, 9)', [5, 1], 8),
                                     ('Q1.tags', 'INSERT OR IGNORE INTO Q_T (%s, %s) VALUES (?, ?)' % (qc, tc), [1, 3], 10)):
        run_script([['read', ob_name], ['w', wsql, wargs], ['reload', rl], ['read', ob_name]], 'part2-fixed')
    n = ctx.scale(150, 2000)
    for case_no in range(n):
        run_script(gen_script(), 'part2')


# ---------------------------------------------------------------- part 3: many-to-many read set (tie + oracle)

M2M_IDS = [1, 2, 3]


def part3(ctx, env, history=None):
    """reader operations on a many-to-many pair (iteration, len, load, explicit prefetch of either side) with a writer that
    inserts / deletes link rows between them, against Model/CollRead.lean: result and the SetData of every collection of both
    sides after every operation.  Oracle: a fully loaded collection that was observed repeats or the history raises.
    The history ends at the first UnrepeatableReadError (the order in which one failing batch treats its objects is not modelled)."""
    QQ, TT, w, rng = env.QQ, env.TT, env.w, ctx.rng
    tabs = [r[0] for r in w.execute("SELECT name FROM sqlite_master WHERE type='table'")]
    link = [t for t in tabs if t.upper() in ('QQ_TT', 'TT_QQ')][0]
    cols = [r[1] for r in w.execute('PRAGMA table_info(%s)' % link)]
    qc = [c for c in cols if c.lower().startswith('q')][0]; tc = [c for c in cols if c.lower().startswith('t')][0]
    def reset(links):
        w.execute('BEGIN')
        w.execute('DELETE FROM %s' % link); w.execute('DELETE FROM QQ'); w.execute('DELETE FROM TT')
        for i in M2M_IDS: w.execute('INSERT INTO QQ (id) VALUES (?)', (i,)); w.execute('INSERT INTO TT (id) VALUES (?)', (i,))
        for q, t in links: w.execute('INSERT INTO %s (%s, %s) VALUES (?, ?)' % (link, qc, tc), (q, t))
        w.execute('COMMIT')
    def table():
        return [list(r) for r in w.execute('SELECT %s, %s FROM %s ORDER BY %s, %s' % (qc, tc, link, qc, tc)).fetchall()]
    def snap(qs, ts):
        out = []
        for side, objs, attr in ((False, qs, QQ.tags), (True, ts, TT.qs)):
            for o in M2M_IDS:
                sd = objs[o]._vals_.get(attr)
                if sd is not None:
                    out.append({'side': side, 'o': o, 'items': sorted(x._pkval_ for x in sd), 'full': bool(sd.is_fully_loaded), 'count': sd.count})
        return out
    def run_history(case):
        reset(case['links'])
        real = []
        with db_session:
            qs = {i: QQ[i] for i in M2M_IDS}; ts = {i: TT[i] for i in M2M_IDS}
            for st in case['steps']:
                for wop in st['w']:
                    if wop[0] == 'add': w.execute('INSERT OR IGNORE INTO %s (%s, %s) VALUES (?, ?)' % (link, qc, tc), (wop[1], wop[2]))
                    else: w.execute('DELETE FROM %s WHERE %s = ? AND %s = ?' % (link, qc, tc), (wop[1], wop[2]))
                db = table(); op = st['op']; side = op['side']
                objs = ts if side else qs; attr = 'qs' if side else 'tags'
                try:
                    if op['k'] == 'load': getattr(objs[op['o']], attr).load(); res = {'ok': True}
                    elif op['k'] == 'iter': res = {'items': sorted(x._pkval_ for x in getattr(objs[op['o']], attr))}
                    elif op['k'] == 'len': res = {'num': len(getattr(objs[op['o']], attr))}
                    else:
                        ent = TT if side else QQ; ids = op['objs']; nonce = -next(env.nonce)
                        select(x for x in ent if x.id in ids and x.id != nonce).prefetch(getattr(ent, attr))[:]
                        res = {'ok': True}
                except core.UnrepeatableReadError as e:
                    res = {'err': 'UnrepeatableReadError', 'msg': str(e)[:100]}
                real.append({'w': st['w'], 'op': op, 'db': db, 'res': res, 'snap': snap(qs, ts)})
                if 'err' in res: break
            rollback()
        return real
    def oracle3(real):
        first = {}; bad = []
        for i, r in enumerate(real):
            op, res = r['op'], r['res']
            if op['k'] not in ('iter', 'len') or 'err' in res: continue
            key = (op['side'], op['o'])
            obs = {'len': res['num']} if op['k'] == 'len' else {'items': res['items'], 'len': len(res['items'])}
            f = first.setdefault(key, {'step': i})
            for k, v in obs.items():
                if k in f and f[k] != v: bad.append({'step': i, 'op': op, 'kind': 'm2m-collection-changed:' + k, 'first_step': f['step'], 'first': f[k], 'got': v})
                f.setdefault(k, v)
        return bad
    def gen():
        links = sorted(set((rng.choice(M2M_IDS), rng.choice(M2M_IDS)) for _ in range(rng.choice([0, 1, 2, 3, 4]))))
        hot = [(rng.random() < 0.5, rng.choice(M2M_IDS)) for _ in range(rng.choice([1, 2]))]
        steps = []
        for _ in range(rng.choice([2, 3, 4, 6, 8])):
            wops = []
            if rng.random() < 0.5:
                for _ in range(rng.choice([1, 1, 2])):
                    wops.append([rng.choice(['add', 'add', 'del']), rng.choice(M2M_IDS), rng.choice(M2M_IDS)])
            side, o = rng.choice(hot) if rng.random() < 0.7 else (rng.random() < 0.5, rng.choice(M2M_IDS))
            r = rng.random()
            if r < 0.3: op = {'k': 'iter', 'side': side, 'o': o}
            elif r < 0.55: op = {'k': 'len', 'side': side, 'o': o}
            elif r < 0.65: op = {'k': 'load', 'side': side, 'o': o}
            else: op = {'k': 'prefetch', 'side': side, 'objs': sorted(rng.sample(M2M_IDS, rng.choice([1, 2, 3])))}
            steps.append({'w': wops, 'op': op})
        return {'links': links, 'steps': steps}
    cases = []
    if history is not None: cases.append(history)
    # fixed: every observation x every foreign change x every reload path of either side (regressions of 0192669 included)
    for ob in ({'k': 'iter', 'side': False, 'o': 1}, {'k': 'len', 'side': False, 'o': 1}, {'k': 'iter', 'side': True, 'o': 2}):
        for ch in (['add', 1, 3], ['del', 1, 2], ['add', 3, 2], ['del', 1, 1]):
            for rl in ({'k': 'prefetch', 'side': False, 'objs': [1, 2, 3]}, {'k': 'prefetch', 'side': False, 'objs': [1]}, {'k': 'prefetch', 'side': True, 'objs': [1, 2, 3]},
                       {'k': 'iter', 'side': True, 'o': 3}, {'k': 'iter', 'side': True, 'o': 2}, {'k': 'len', 'side': False, 'o': 3}, {'k': 'load', 'side': False, 'o': 1}):
                cases.append({'links': [[1, 1], [1, 2], [2, 2]], 'steps': [{'w': [], 'op': ob}, {'w': [ch], 'op': rl}, {'w': [], 'op': ob}]})
    cases += [gen() for _ in range(ctx.scale(400, 8000))]
    reals = []
    for case in cases:
        try: reals.append(run_history(case))
        except Exception:
            ctx.divergence('part 3: the real run did not complete', case, impl=traceback.format_exc()[-500:]); reals.append(None)
    reqs = [{'op': 'm2m', 'addChecks': True, 'prefetchChecks': True, 'loadSkipsFull': True, 'ids': M2M_IDS,
             'steps': [{'db': r['db'], 'op': r['op']} for r in real]} for real in reals if real is not None]
    mouts = iter(ctx.driver('C21', reqs) if ctx.driver.ok else [])
    for case, real in zip(cases, reals):
        if real is None: continue
        executed = {'links': case['links'], 'steps': [{'w': r['w'], 'op': r['op']} for r in real]}
        ctx.case({'m2m': executed}, nontrivial=len(real) >= 2, kind='m2m')
        for r in real: ctx.count('m2m:%s:%s' % (r['op']['k'], r['res'].get('err', 'ok')))
        bad = oracle3(real)
        if bad and not any(v['key'] == bad[0]['kind'] for v in ctx.violations):
            # minimise on the real code: drop steps / writer operations / initial links while the same kind persists
            kind = bad[0]['kind']; cur = executed; budget = 80; changed = True
            while changed and budget > 0:
                changed = False
                cands = [dict(cur, steps=cur['steps'][:i] + cur['steps'][i + 1:]) for i in range(len(cur['steps']))]
                cands += [dict(cur, steps=[dict(st, w=st['w'][:j] + st['w'][j + 1:]) if k == i else st for k, st in enumerate(cur['steps'])])
                          for i, st in enumerate(cur['steps']) for j in range(len(st['w']))]
                cands += [dict(cur, links=cur['links'][:j] + cur['links'][j + 1:]) for j in range(len(cur['links']))]
                for c in cands:
                    budget -= 1
                    if budget <= 0: break
                    try: r2 = run_history(c)
                    except Exception: continue
                    b2 = [b for b in oracle3(r2) if b['kind'] == kind]
                    if b2:
                        cur = {'links': c['links'], 'steps': [{'w': r['w'], 'op': r['op']} for r in r2]}; bad = b2; changed = True; break
            executed = cur
        if bad:
            ctx.violation('a fully loaded many-to-many collection that was observed changed without an error', {'m2m': executed}, observed=bad[0],
                          expected='the items observed first, or UnrepeatableReadError', key=bad[0]['kind'])
        if ctx.driver.ok:
            mout = next(mouts)
            if 'steps' not in mout:
                ctx.divergence('m2m model: driver error', {'m2m': executed}, model=mout); continue
            for i, (r, m) in enumerate(zip(real, mout['steps'])):
                mres = dict(m['res'])
                if 'items' in mres: mres['items'] = sorted(mres['items'])
                rres = {k: v for k, v in r['res'].items() if k != 'msg'}
                if mres != rres:
                    ctx.divergence('m2m model and real Pony disagree: result of step %d (%s)' % (i, r['op']['k']), {'m2m': executed}, model=mres, impl=rres); break
                if 'err' in rres: break
                msnap = [dict(x, items=sorted(x['items'])) for x in m['snap']]
                if msnap != r['snap']:
                    ctx.divergence('m2m model and real Pony disagree: collections after step %d (%s)' % (i, r['op']['k']), {'m2m': executed}, model=msnap, impl=r['snap']); break


# ---------------------------------------------------------------- entry points

def run(ctx, extra=None):
    if not ctx.driver.ok: ctx.note('driver unavailable: correspondence skipped, oracle only')
    env = Env()
    try:
        if extra and 'steps' in extra: run_cases(ctx, env, [extra], 'replay')
        corpus = os.path.join(ponyutil.ROOT, 'harness', 'corpus', 'C21')
        if os.path.isdir(corpus):
            cs = [json.load(open(os.path.join(corpus, f))) for f in sorted(os.listdir(corpus)) if f.endswith('.json')]
            run_cases(ctx, env, [c.get('input', c) for c in cs], 'corpus')
        import time
        t0 = time.time()
        tcs = template_cases()
        nobs = 12 * 10 * 7       # observation kinds x change kinds x reload paths (sampled in the quick tier)
        if not ctx.thorough: tcs = ctx.rng.sample(tcs[:nobs], 200) + tcs[nobs:]
        run_cases(ctx, env, tcs, 'template')
        n = ctx.scale(1000, 20000)
        for chunk in range(0, n, 1000):
            run_cases(ctx, env, [gen_case(ctx.rng) for _ in range(min(1000, n - chunk))], 'random')
        t1 = time.time()
        part2(ctx, env, history=(extra or {}).get('history') if isinstance(extra, dict) else None)
        t2 = time.time()
        part3(ctx, env, history=(extra or {}).get('m2m') if isinstance(extra, dict) else None)
        ctx.extra['part_seconds'] = {'tie+oracle': round(t1 - t0, 1), 'oracle-only (1:1, default prefetching, mixed)': round(t2 - t1, 1),
                                     'many-to-many tie+oracle': round(time.time() - t2, 1)}
    finally:
        env.close()


def replay(ctx, data):
    inp = data.get('input') if isinstance(data, dict) else None
    if not inp and isinstance(data, dict) and data.get('divergences'):
        inp = data['divergences'][0].get('input')
    run(ctx, extra=inp if isinstance(inp, dict) and ('steps' in inp or 'history' in inp or 'm2m' in inp) else None)
