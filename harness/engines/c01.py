"""C01 — declarative queries return what Python evaluation of the same expression returns.

Tie + oracle for the fragment of Model/Translate.lean (one entity, int/bool/str attributes, nullable or not):
  (1) correspondence: `query._translator.conditions` of real Pony on SQLite, serialised, compared EXACTLY with
      `Model.Q.conditions sqlite e` from the Lean driver — for the generator form (decompiler path), the lambda form and the string form;
  (2) PROPERTY ORACLE: the rows Pony returns from in-memory SQLite compared with a Python list comprehension over the same
      objects under the property's NULL conventions (comparison with a missing operand: unknown; missing value in a truth test: false;
      selected iff true).  The Python reading used is checked against Lean's `py` (the reference of the theorem) on every row, and
      against plain `eval` of the source on rows without None;
  (3) evaluator validation: the real SQL AST evaluated by Lean `Sql.eval` per row compared with what real SQLite computes for the
      emitted text (three-valued, per row).
Beyond the theorem's fragment (differential, oracle 2 only): conditions used as values, `not` over and/or with nullable truth tests,
`not in` on nullable strings, projections, `.filter(lambda)`, and a second schema Student–Group–Course with relationship navigation,
exists / in subqueries, aggregates, ordering, dates, hybrid methods.
"""
import datetime, itertools, json, random, re
from decimal import Decimal
from pony.orm import Database, Required, Optional, Set, PrimaryKey, db_session, select, count, sum as psum, min as pmin, max as pmax, avg, exists, desc, raw_sql
from pony.orm import core
from engines import q_shared as Q


def fresh_db():
    db = Database()
    E = Q.define_entity(db)
    db.bind('sqlite', ':memory:')
    db.generate_mapping(create_tables=True)
    return db, E


def load_rows(db, E, rows):
    with db_session:
        for r in rows: E(**{k: v for k, v in r.items() if v is not None})
    # ids are 1..len(rows) in insertion order


class Forms:
    """the query forms of one expression.  Generator and lambda forms go through the decompiler: `decompiled(form)` is the
    expression Pony actually translates (correspondence (1) is checked on it; the property oracle always uses the source)."""
    def __init__(self, E, src, params):
        self.G = dict(params); self.G.update(E=E, select=select)
        self.E = E; self.src = src
    def build(self, form):
        if form == 'generator': return eval('select(e for e in E if %s)' % self.src, self.G)
        if form == 'lambda': return eval('E.select(lambda e: %s)' % self.src, self.G)
        if form == 'string': return select('e for e in E if %s' % self.src, self.G)
        if form == 'filter': return self.E.select().filter('lambda e: %s' % self.src, self.G)
        if form == 'projection': return eval('select((e.id, %s) for e in E)' % self.src, self.G)
        raise ValueError(form)
    def decompiled(self, form):
        from pony.orm.decompiling import decompile
        if form == 'generator':
            tree = decompile(eval('(e for e in E if %s)' % self.src, self.G))[0]
            conds = [Q.expr_of_ast(c) for c in tree.generators[0].ifs]
            r = conds[0]
            for c in conds[1:]: r = ('and', r, c)
            return r
        tree = decompile(eval('lambda e: %s' % self.src, self.G))[0]
        return Q.expr_of_ast(tree)


def real_conditions(forms, form):
    try:
        q = forms.build(form)
        return q, {'ok': Q.norm_ast(q._translator.conditions)}
    except Exception as ex:
        return None, {'error': Q.exc_class(ex), 'msg': str(ex)[:160]}


def sqlite_three_valued(db, q, nrows):
    """what SQLite computes for the WHERE text of q on every row: 'tt'/'ff'/'unk' by id"""
    sql, args, _, _ = q._construct_sql_and_arguments()
    m = re.search(r'\nWHERE (.*)\Z', sql, re.S)
    cond = m.group(1) if m else '1'
    con = db.get_connection()
    cur = con.execute('SELECT "e"."id", (%s) FROM "E" "e" ORDER BY 1' % cond, args)
    out = {}
    for i, v in cur.fetchall():
        out[i] = Q.UNK if v is None else (Q.TT if v else Q.FF)
    return [out[i + 1] for i in range(nrows)]


# known classes of failing inputs (keys of proposed known findings); everything else is keyed by its own minimal expression
def classify(e, form, decompiler_changed_meaning, tex=None):
    """canonical key of a minimal failing expression (None: no known class).  `tex`: the expression the decompiler hands to the
    translator in the generator / lambda forms (e.g. `not (x in s)` arrives as `x not in s`)"""
    def has(pred, x=None): return any(pred(s) for s in Q.subexprs(x if x is not None else e))
    if form in ('generator', 'lambda') and decompiler_changed_meaning:
        # the expression the decompiler hands to the translator reads differently from the source (C03's territory, reaches C01 too)
        def not_with_andor(t):
            ks = {x[0] for x in Q.subexprs(t)}
            return 'not' in ks and ('and' in ks or 'or' in ks)
        if has(lambda s: s[0] == 'ite' and not_with_andor(s[1])): return 'decompiler-ifexp-test-not-with-and-or'
        if has(lambda s: s[0] == 'cmp' and any(x[0] in ('and', 'or') for x in s[2:4])): return 'decompiler-and-or-used-as-value'
        if has(lambda s: (s[0] in ('and', 'or') and any(x[0] in ('int', 'str', 'bool', 'param') for x in s[1:3]))
               or (s[0] == 'ite' and any(x[0] in ('int', 'str', 'bool', 'param') for x in s[2:4]))): return 'decompiler-constant-in-boolean-context'
        return None
    subj = tex if (tex is not None and form in ('generator', 'lambda')) else e
    if has(lambda s: s[0] == 'cmp' and s[2][0] != 'none' and s[3][0] != 'none' and Q.is_value(s[2]) and Q.is_value(s[3])
           and (Q.static_type(s[2]) == 'str') != (Q.static_type(s[3]) == 'str'), subj):
        return 'int-compared-with-str-affinity'
    if has(lambda s: s[0] == 'in' and Q.is_value(s[2]) and any(isinstance(i, str) != (Q.static_type(s[2]) == 'str') for i in s[3]), subj):
        return 'int-compared-with-str-affinity'
    if has(lambda s: s[0] == 'not' and s[1][0] in ('and', 'or') and not Q.exact(s[1]), subj):
        return 'not-over-and-or-with-nullable-truth-test'
    if has(lambda s: s[0] == 'like' and s[2] and not Q.never_null(s[4]), subj):
        return 'not-in-nullable-string-selects-null'
    if has(lambda s: s[0] == 'cmp' and any(not Q.is_value(x) and x[0] != 'none' for x in s[2:4]), subj):
        return 'comparison-operand-is-a-condition-unparenthesized'
    return None


def run_fragment(ctx, mode, n_exprs, max_depth):
    rng = ctx.rng
    gen = Q.ExtGen(rng) if mode == 'ext' else Q.Gen(rng, mode)
    exprs = [gen.expr(rng.choice([1, 2, 2, 3, 3, max_depth])) for i in range(n_exprs)]
    sch = Q.schema_json()
    db, E = fresh_db()
    rows = [Q.random_row(rng) for _ in range(ctx.scale(14, 40))]
    # boundary rows: everything missing / zero / empty
    rows.append({'a': 0, 'c': 0, 'n': None, 'm': None, 'b': False, 'nb': None, 's': 'a', 't': '', 'ns': None})
    rows.append({'a': 1, 'c': -1, 'n': 0, 'm': 0, 'b': True, 'nb': False, 's': 'ab', 't': 'a', 'ns': ''})
    load_rows(db, E, rows)
    tr_reqs = []; tr_meta = []          # correspondence (1)
    py_reqs = []; py_meta = []          # engine reading vs Lean py
    ev_reqs = []; ev_meta = []          # (3)
    with db_session:
        objs = {o.id: o for o in E.select()}
        for idx, e in enumerate(exprs):
            params = Q.random_params(rng)
            s = Q.src(e)
            forms = Forms(E, s, params)
            nonconst = Q.has_attr(e)
            ctx.count('%s:exprs' % mode); ctx.count('%s:depth:%d' % (mode, Q.depth(e)))
            if nonconst: ctx.count('%s:non-constant-conditions' % mode)
            for sub in Q.subexprs(e): ctx.count('%s:node:%s' % (mode, sub[0]))
            expected = [i + 1 for i, r in enumerate(rows) if Q.as_k(Q.py_eval(e, r, params)) == Q.TT]
            py_reqs.append({'op': 'py', 'expr': Q.to_json(e), 'params': params, 'rows': rows}); py_meta.append((e, params))
            tr_reqs.append({'op': 'translate', 'dialect': 'sqlite', 'schema': sch, 'expr': Q.to_json(e)}); tr_meta.append((s, 'source', None, mode))
            first_q = None
            for form in ('generator', 'lambda', 'string') + (('filter',) if mode == 'ext' else ()):
                q, real = real_conditions(forms, form)
                ctx.case([mode, form, s], nontrivial=nonconst, kind='%s:%s' % (mode, form))
                if 'ok' in real: ctx.count('%s:translated' % mode)
                else: ctx.count('%s:%s:raises:%s' % (mode, form, real['error']))
                # expression Pony really translates in this form
                tex = e
                if form == 'filter': tex = None
                elif form != 'string':
                    try: tex = forms.decompiled(form)
                    except Q.Unsupported: tex = None; ctx.count('%s:decompiled-ast-outside-model' % mode)
                    except Exception: tex = None
                    if tex is not None and tex != e: ctx.count('%s:%s:decompiler-rewrote-expression' % (mode, form))
                if real.get('error') in ('DecompileError', 'IndexError', 'AssertionError') and form not in ('string', 'filter'):
                    ctx.count('%s:decompiler-refused' % mode)       # an error, not different rows
                elif tex is not None and not Q.closed_compound(tex):
                    tr_reqs.append({'op': 'translate', 'dialect': 'sqlite', 'schema': sch, 'expr': Q.to_json(tex)}); tr_meta.append((s, form, real, mode))
                if q is None: continue
                if first_q is None or form == 'string': first_q = q
                # (2) property oracle
                try:
                    got = sorted(o.id for o in q)
                except Exception as ex:
                    ctx.count('%s:%s:execution-raises:%s' % (mode, form, type(ex).__name__)); continue     # an error, not different rows
                if got != expected:
                    report_violation(ctx, db, E, rows, e, params, form, got, expected)
            if first_q is not None:
                try:
                    lite = sqlite_three_valued(db, first_q, len(rows))
                    ev_reqs.append({'op': 'evalsql', 'dialect': 'sqlite', 'sql': Q.norm_ast(first_q._translator.conditions), 'params': params, 'rows': rows})
                    ev_meta.append((s, lite, expected, mode))
                except Exception as ex:
                    ctx.count('%s:sqlite-error:%s' % (mode, type(ex).__name__))
            # plain Python on rows without None: validates the Python reading itself
            for i, r in enumerate(rows[:6]):
                if Q.row_has_none(e, r): continue
                try:
                    truth = bool(eval(s, dict(params), {'e': objs[i + 1]}))
                except Exception:
                    continue
                ctx.count('%s:plain-python-checked' % mode)
                if truth != (Q.as_k(Q.py_eval(e, r, params)) == Q.TT):
                    ctx.divergence('the Python reading differs from plain Python on a row without None', {'expr': s, 'row': r}, model=Q.as_k(Q.py_eval(e, r, params)), impl=truth)
    db.disconnect()
    if not ctx.driver.ok:
        ctx.note('driver unavailable: correspondence (1), evaluator validation (3) and the Lean `py` cross-check skipped'); return
    # (1) correspondence
    for (s, form, real, md), out in zip(tr_meta, ctx.driver('C01', tr_reqs)):
        if form == 'source':
            if out.get('frag'): ctx.count('%s:in-theorem-fragment' % md)
            continue
        mc = out['conditions']
        ctx.count('%s:correspondence-checked' % md)
        if 'ok' in real:
            if mc.get('ok') != real['ok']:
                ctx.divergence('model conditions differ from query._translator.conditions (%s form)' % form, {'expr': s, 'form': form}, model=mc, impl=real)
        elif mc.get('error') != real['error']:
            ctx.divergence('model and real translator disagree on the error (%s form)' % form, {'expr': s, 'form': form}, model=mc, impl=real)
        else: ctx.count('%s:error-agreed:%s' % (md, real['error']))
    # the engine's Python reading == Lean's `py` (reference of the theorem)
    for (e, params), out in zip(py_meta, ctx.driver('C01', py_reqs)):
        mine = [Q.as_k(Q.py_eval(e, r, params)) for r in rows]
        if 'ok' not in out or [o['k'] for o in out['ok']] != mine:
            ctx.divergence("engine's Python reading differs from Lean Model.Q.py", {'expr': Q.src(e)}, model=out, impl=mine)
    # (3) Lean's SQL evaluator vs real SQLite on the real AST / text
    for (s, lite, expected, md), out in zip(ev_meta, ctx.driver('C01', ev_reqs)):
        ctx.count('%s:evaluator-checked' % md)
        if 'ok' not in out:
            ctx.count('%s:evaluator-unsupported-node' % md); continue
        if md == 'ext' and 'err' in out['ok']:
            ctx.count('ext:evaluator-refuses-untyped-operation'); continue
        if out['ok'] != lite:
            sel_model = [i + 1 for i, k in enumerate(out['ok']) if k == Q.TT]
            sel_lite = [i + 1 for i, k in enumerate(lite) if k == Q.TT]
            # when SQLite's own answer already violates the property the difference is the builder's (reported by oracle 2)
            if sel_lite != expected and sel_model == expected:
                ctx.count('%s:evaluator-differs-where-oracle-2-fails' % md); continue
            bad = [(i + 1, a, b) for i, (a, b) in enumerate(zip(out['ok'], lite)) if a != b][:3]
            ctx.divergence('Lean Sql.eval differs from real SQLite on the emitted statement', {'expr': s, 'rows(id, model, sqlite)': bad}, model=out['ok'], impl=lite)


def rows_of(E, x, params, form):
    with db_session:
        return sorted(o.id for o in Forms(E, Q.src(x), params).build(form))


def report_violation(ctx, db, E, rows, e, params, form, got, expected):
    """shrink the expression, then register the violation under the canonical key of the minimal input"""
    def exp_of(x): return [i + 1 for i, r in enumerate(rows) if Q.as_k(Q.py_eval(x, r, params)) == Q.TT]
    def failing(x):
        try: return rows_of(E, x, params, form) != exp_of(x)
        except Exception: return False
    def tex_of(x):
        if form not in ('generator', 'lambda'): return None
        try: return Forms(E, Q.src(x), params).decompiled(form)
        except Exception: return None
    def dec_changed(x):
        tex = tex_of(x)
        if tex is None: return False
        return any(Q.as_k(Q.py_eval(tex, r, params)) != Q.as_k(Q.py_eval(x, r, params)) for r in rows)
    def cls_of(x): return classify(x, form, dec_changed(x), tex_of(x))
    cls0 = cls_of(e)
    def valid(x): return all(Q.bool_valued(o) for s_ in Q.subexprs(x) if s_[0] == 'cmp' for o in s_[2:4] if not Q.is_value(o) and o[0] != 'none')
    # shrink inside the class of the original failure (otherwise the shrinker drifts into other defects)
    small = Q.shrink(e, (lambda x: valid(x) and failing(x) and cls_of(x) == cls0) if cls0 else (lambda x: valid(x) and failing(x)))
    try: g = rows_of(E, small, params, form)
    except Exception as ex: g = 'raised ' + type(ex).__name__
    exp = exp_of(small)
    wrong = sorted(set(g) ^ set(exp)) if isinstance(g, list) else []
    witness = rows[wrong[0] - 1] if wrong else None
    used = sorted({s[1] for s in Q.subexprs(small) if s[0] == 'attr'})
    key = cls_of(small) or ('expr:%s:%s' % (form, json.dumps(Q.to_json(Q.canon_atoms(small)))))
    ctx.count('violations-before-dedup'); ctx.count('violation-class:' + (key if not key.startswith('expr:') else 'unclassified'))
    ctx.violation('rows returned differ from Python evaluation of the same expression (%s form)' % form,
                  {'query': QUERY_TEXT[form] % Q.src(small), 'form': form, 'params': {k: v for k, v in params.items() if any(x == ('param', k) for x in Q.subexprs(small))},
                   'witness_row': {k: witness[k] for k in used} if witness else None, 'original': Q.src(e)},
                  observed={'ids': g, 'selects_witness': (wrong[0] in g) if wrong and isinstance(g, list) else None},
                  expected={'ids': exp}, key=key)


QUERY_TEXT = {'generator': 'select(e for e in E if %s)', 'lambda': 'E.select(lambda e: %s)', 'string': "select('e for e in E if %s')",
              'filter': "E.select().filter('lambda e: %s')"}


# the witnesses of the `…_full_false` theorems and of every class of failing input found so far, replayed on the real code on every run
WITNESSES = [
    # (key, form, expression, rows)
    ('not-over-and-or-with-nullable-truth-test', 'string', ('not', ('and', ('attr', 'n'), ('attr', 'a'))), [{'n': None, 'a': 1}]),
    ('not-over-and-or-with-nullable-truth-test', 'lambda', ('not', ('or', ('attr', 'n'), ('attr', 'b'))), [{'n': None, 'b': False}]),
    ('not-in-nullable-string-selects-null', 'string', ('like', 'contains', True, 'x', ('attr', 'ns')), [{'ns': None}]),
    ('comparison-operand-is-a-condition-unparenthesized', 'string', ('cmp', '==', ('attr', 'b'), ('cmp', '==', ('attr', 'a'), ('int', 1))), [{'a': 2, 'b': False}]),
    ('int-compared-with-str-affinity', 'string', ('cmp', '==', ('attr', 'a'), ('attr', 's')), [{'a': 1, 's': '1'}]),
    ('filter-lambda-value-not-truth-tested', 'filter', ('attr', 's'), [{'s': 'q'}]),
    ('decompiler-conditional-expression-in-boolean-context', 'generator', ('or', ('attr', 'b'), ('ite', ('attr', 'nb'), ('attr', 'nb'), ('attr', 'nb'))), [{'b': True, 'nb': None}]),
    ('decompiler-ifexp-test-not-with-and-or', 'lambda', ('cmp', '==', ('ite', ('not', ('or', ('attr', 'b'), ('attr', 'nb'))), ('attr', 'a'), ('attr', 'c')), ('int', 1)),
     [{'b': False, 'nb': True, 'a': 1, 'c': 2}, {'b': False, 'nb': False, 'a': 1, 'c': 2}, {'b': True, 'nb': False, 'a': 2, 'c': 1}]),
    ('decompiler-and-or-used-as-value', 'generator', ('cmp', '==', ('attr', 'b'), ('and', ('attr', 'nb'), ('attr', 'b'))), [{'b': False, 'nb': True}, {'b': True, 'nb': False}, {'b': False, 'nb': False}]),
    ('decompiler-constant-in-boolean-context', 'generator', ('or', ('attr', 't'), ('int', 1)), [{'t': 'x'}]),
]
BASE_ROW = {'a': 0, 'c': 0, 'n': 0, 'm': 0, 'b': False, 'nb': False, 's': 'a', 't': '', 'ns': ''}


def run_witnesses(ctx):
    for key, form, e, rws in WITNESSES:
        db, E = fresh_db()
        rows = [dict(BASE_ROW, **r) for r in rws]
        load_rows(db, E, rows)
        params = {'pi': 0, 'pj': 0, 'pb': False, 'ps': ''}
        exp = [i + 1 for i, r in enumerate(rows) if Q.as_k(Q.py_eval(e, r, params)) == Q.TT]
        ctx.case(['witness', key, form, Q.src(e)], kind='witness')
        try:
            got = rows_of(E, e, params, form)
        except Exception as ex:
            ctx.count('witness-now-raises:' + key); db.disconnect(); continue
        if got != exp:
            ctx.violation('rows returned differ from Python evaluation of the same expression (%s form)' % form,
                          {'query': QUERY_TEXT[form] % Q.src(e), 'form': form, 'witness_row': rws[0]},
                          observed={'ids': got}, expected={'ids': exp}, key=key)
        else:
            ctx.count('witness-no-longer-fails:' + key)
        db.disconnect()


def run_projections(ctx, n_exprs):
    """projections `select((e.id, <value expression>) for e in E)`: correspondence of the column, values returned vs the Python
    value (missing = None), Lean evaluator vs SQLite — theorem C01_proj"""
    rng = ctx.rng
    gen = Q.Gen(rng, 'frag')
    sch = Q.schema_json()
    db, E = fresh_db()
    rows = [Q.random_row(rng) for _ in range(ctx.scale(10, 30))]
    rows.append({'a': 0, 'c': 0, 'n': None, 'm': None, 'b': False, 'nb': None, 's': 'a', 't': '', 'ns': None})
    load_rows(db, E, rows)
    tr_reqs = []; tr_meta = []; ev_reqs = []; ev_meta = []
    from pony.orm.decompiling import decompile
    with db_session:
        for _ in range(n_exprs):
            ty = rng.choice(['int', 'int', 'str', 'bool'])
            for _t in range(20):
                e = gen.val(ty, rng.choice([1, 2, 3]), True)
                if Q.has_attr(e) and not Q.closed_compound(e) and e[0] != 'attr': break
            params = Q.random_params(rng)
            s = Q.src(e)
            G = dict(params); G.update(E=E, select=select)
            expected = [(i + 1, Q.as_v(Q.py_eval(e, r, params))) for i, r in enumerate(rows)]
            ctx.count('proj:exprs'); ctx.count('proj:type:' + ty)
            for sub in Q.subexprs(e): ctx.count('proj:node:' + sub[0])
            for form in ('generator', 'string'):
                ctx.case(['proj', form, s], kind='proj:' + form)
                tex = e
                try:
                    if form == 'generator':
                        q = eval('select((e.id, %s) for e in E)' % s, G)
                        try: tex = Q.expr_of_ast(decompile(eval('((e.id, %s) for e in E)' % s, G))[0].elt.elts[1])
                        except Exception: tex = None
                    else:
                        q = select('(e.id, %s) for e in E' % s, G)
                    real = {'ok': Q.norm_ast(q._translator.expr_columns[1])}
                except Exception as ex:
                    q = None; real = {'error': Q.exc_class(ex)}
                    ctx.count('proj:%s:raises:%s' % (form, real['error']))
                if real.get('error') in ('DecompileError', 'IndexError', 'AssertionError') and form == 'generator':
                    ctx.count('proj:decompiler-refused'); continue
                if tex is not None and not Q.closed_compound(tex):
                    tr_reqs.append({'op': 'translate', 'dialect': 'sqlite', 'schema': sch, 'expr': Q.to_json(tex)}); tr_meta.append((s, form, real))
                if q is None: continue
                try:
                    got = sorted(q[:])
                except Exception as ex:
                    ctx.count('proj:execution-raises:' + type(ex).__name__); continue
                got = [(i, v) for i, v in got]
                if [(i, v, type(v) is bool) for i, v in got] != [(i, v, type(v) is bool) for i, v in expected]:
                    bad = [(g, x) for g, x in zip(got, expected) if g != x or (type(g[1]) is bool) != (type(x[1]) is bool)][:2]
                    dch = tex is not None and form == 'generator' and any(Q.as_v(Q.py_eval(tex, r, params)) != Q.as_v(Q.py_eval(e, r, params)) for r in rows)
                    key = classify(e, form, dch, tex) or 'bool-arithmetic-typed-bool' if classify(e, form, dch, tex) or any(x[0] in ('bin', 'neg', 'abs') and all(Q.static_type(y) == 'bool' for y in x[1:] if isinstance(y, tuple)) for x in Q.subexprs(e)) \
                        else 'proj:%s:%s' % (form, json.dumps(Q.to_json(Q.canon_atoms(e))))
                    ctx.violation('values returned by a projection differ from Python evaluation (%s form)' % form,
                                  {'query': 'select((e.id, %s) for e in E)' % s, 'form': form, 'row': rows[bad[0][1][0] - 1] if bad else None},
                                  observed=[b[0] for b in bad], expected=[b[1] for b in bad], key=key)
                if form == 'string':
                    try:
                        sql, args, _, _ = q._construct_sql_and_arguments()
                        m = re.match(r'SELECT (?:DISTINCT )?"e"\."id", (.*)\nFROM', sql, re.S)
                        cur = db.get_connection().execute('SELECT "e"."id", (%s) FROM "E" "e" ORDER BY 1' % m.group(1), args)
                        lite = [v for _, v in cur.fetchall()]
                        ev_reqs.append({'op': 'evalsql', 'dialect': 'sqlite', 'value': True, 'sql': [Q.norm_ast(q._translator.expr_columns[1])], 'params': params, 'rows': rows})
                        ev_meta.append((s, lite))
                    except Exception as ex:
                        ctx.count('proj:sqlite-error:' + type(ex).__name__)
    db.disconnect()
    if not ctx.driver.ok: return
    for (s, form, real), out in zip(tr_meta, ctx.driver('C01', tr_reqs)):
        mp = out['projection']
        ctx.count('proj:correspondence-checked')
        if out.get('frag') and out.get('valueSorted'): ctx.count('proj:in-theorem-fragment')
        if 'ok' in real:
            if mp.get('ok') != real['ok']:
                ctx.divergence('model projection column differs from query._translator.expr_columns (%s form)' % form, {'expr': s}, model=mp, impl=real)
        elif mp.get('error') != real['error']:
            ctx.divergence('model and real translator disagree on the error of a projection (%s form)' % form, {'expr': s}, model=mp, impl=real)
    for (s, lite), out in zip(ev_meta, ctx.driver('C01', ev_reqs)):
        ctx.count('proj:evaluator-checked')
        if out.get('ok') != lite:
            ctx.divergence('Lean Sql.eval differs from real SQLite on a projection column', {'expr': s}, model=out.get('ok'), impl=lite)


def run(ctx):
    run_witnesses(ctx)
    run_projections(ctx, ctx.scale(80, 800))
    run_fragment(ctx, 'frag', ctx.scale(300, 3000), 4)
    run_fragment(ctx, 'ext', ctx.scale(200, 2000), 4)


def replay(ctx, data):
    run(ctx)
