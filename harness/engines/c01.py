"""C01 — declarative queries return what Python evaluation of the same expression returns.

Tie + oracle for the fragment of Model/Translate.lean (one entity, int/bool/str attributes, nullable or not):
  (1) correspondence: `query._translator.conditions` of real Pony on SQLite, serialised, compared EXACTLY with
      `Model.Q.conditions sqlite e` from the Lean driver — for the generator form (decompiler path), the lambda form and the string form;
  (2) PROPERTY ORACLE: the rows Pony returns from in-memory SQLite compared with a Python list comprehension over the same
      objects under the property's NULL conventions (comparison with a missing operand: unknown; missing value in a truth test: false;
      selected iff true).  The Python reading used is checked against Lean's `py` (the reference of the theorem) on every row, and
      against plain `eval` of the source on rows without None;
  (3) evaluator validation: the real SQL AST evaluated by Lean `Sql.eval` per row compared with what real SQLite computes for the
      emitted text (three-valued, per row).
Beyond the theorem's fragment (differential, oracle 2 only): conditions used as values, `not` over and/or with nullable truth tests,
`not in` on nullable strings, projections, `.filter(lambda)`, and a second schema Student–Group–Course with relationship navigation,
exists / in subqueries, aggregates, ordering, dates, hybrid methods.
"""
import datetime, itertools, json, random, re
from decimal import Decimal
from pony.orm import Database, Required, Optional, Set, PrimaryKey, db_session, select, count, sum as psum, min as pmin, max as pmax, avg, exists, desc, raw_sql
from pony.orm import core
from engines import q_shared as Q


def fresh_db():
    db = Database()
    E = Q.define_entity(db)
    db.bind('sqlite', ':memory:')
    db.generate_mapping(create_tables=True)
    return db, E


def load_rows(db, E, rows):
    with db_session:
        for r in rows: E(**{k: v for k, v in r.items() if v is not None})
    # ids are 1..len(rows) in insertion order


class Forms:
    """the query forms of one expression.  Generator and lambda forms go through the decompiler: `decompiled(form)` is the
    expression Pony actually translates (correspondence (1) is checked on it; the property oracle always uses the source)."""
    def __init__(self, E, src, params):
        self.G = dict(params); self.G.update(E=E, select=select)
        self.E = E; self.src = src
    def build(self, form):
        if form == 'generator': return eval('select(e for e in E if %s)' % self.src, self.G)
        if form == 'lambda': return eval('E.select(lambda e: %s)' % self.src, self.G)
        if form == 'string': return select('e for e in E if %s' % self.src, self.G)
        if form == 'filter': return self.E.select().filter('lambda e: %s' % self.src, self.G)
        if form == 'projection': return eval('select((e.id, %s) for e in E)' % self.src, self.G)
        raise ValueError(form)
    def decompiled(self, form):
        from pony.orm.decompiling import decompile
        if form == 'generator':
            tree = decompile(eval('(e for e in E if %s)' % self.src, self.G))[0]
            conds = [Q.expr_of_ast(c) for c in tree.generators[0].ifs]
            r = conds[0]
            for c in conds[1:]: r = ('and', r, c)
            return r
        tree = decompile(eval('lambda e: %s' % self.src, self.G))[0]
        return Q.expr_of_ast(tree)


def real_conditions(forms, form):
    try:
        q = forms.build(form)
        return q, {'ok': Q.norm_ast(q._translator.conditions)}
    except Exception as ex:
        return None, {'error': Q.exc_class(ex), 'msg': str(ex)[:160]}


def sqlite_three_valued(db, q, nrows):
    """what SQLite computes for the WHERE text of q on every row: 'tt'/'ff'/'unk' by id"""
    sql, args, _, _ = q._construct_sql_and_arguments()
    m = re.search(r'\nWHERE (.*)\Z', sql, re.S)
    cond = m.group(1) if m else '1'
    con = db.get_connection()
    cur = con.execute('SELECT "e"."id", (%s) FROM "E" "e" ORDER BY 1' % cond, args)
    out = {}
    for i, v in cur.fetchall():
        out[i] = Q.UNK if v is None else (Q.TT if v else Q.FF)
    return [out[i + 1] for i in range(nrows)]


# known classes of failing inputs (keys of proposed known findings); everything else is keyed by its own minimal expression
def classify(e, form, decompiler_changed_meaning, tex=None):
    """canonical key of a minimal failing expression (None: no known class).  `tex`: the expression the decompiler hands to the
    translator in the generator / lambda forms (e.g. `not (x in s)` arrives as `x not in s`)"""
    def has(pred, x=None): return any(pred(s) for s in Q.subexprs(x if x is not None else e))
    if form in ('generator', 'lambda') and decompiler_changed_meaning:
        # the expression the decompiler hands to the translator reads differently from the source (C03's territory, reaches C01 too)
        def not_with_andor(t):
            ks = {x[0] for x in Q.subexprs(t)}
            return 'not' in ks and ('and' in ks or 'or' in ks)
        if has(lambda s: s[0] == 'ite' and not_with_andor(s[1])): return 'decompiler-ifexp-test-not-with-and-or'
        if has(lambda s: s[0] == 'cmp' and any(x[0] in ('and', 'or') for x in s[2:4])): return 'decompiler-and-or-used-as-value'
        if has(lambda s: (s[0] in ('and', 'or') and any(x[0] in ('int', 'str', 'bool', 'param') for x in s[1:3]))
               or (s[0] == 'ite' and any(x[0] in ('int', 'str', 'bool', 'param') for x in s[2:4]))): return 'decompiler-constant-in-boolean-context'
        return None
    subj = tex if (tex is not None and form in ('generator', 'lambda')) else e
    if has(lambda s: s[0] == 'cmp' and s[2][0] != 'none' and s[3][0] != 'none' and Q.is_value(s[2]) and Q.is_value(s[3])
           and (Q.static_type(s[2]) == 'str') != (Q.static_type(s[3]) == 'str'), subj):
        return 'int-compared-with-str-affinity'
    if has(lambda s: s[0] == 'in' and Q.is_value(s[2]) and any(isinstance(i, str) != (Q.static_type(s[2]) == 'str') for i in s[3]), subj):
        return 'int-compared-with-str-affinity'
    if has(lambda s: s[0] == 'not' and s[1][0] in ('and', 'or') and not Q.exact(s[1]), subj):
        return 'not-over-and-or-with-nullable-truth-test'
    if has(lambda s: s[0] == 'like' and s[2] and not Q.never_null(s[4]), subj):
        return 'not-in-nullable-string-selects-null'
    if has(lambda s: s[0] == 'cmp' and any(not Q.is_value(x) and x[0] != 'none' for x in s[2:4]), subj):
        return 'comparison-operand-is-a-condition-unparenthesized'
    return None


def run_fragment(ctx, mode, n_exprs, max_depth):
    rng = ctx.rng
    gen = Q.ExtGen(rng) if mode == 'ext' else Q.Gen(rng, mode)
    exprs = [gen.expr(rng.choice([1, 2, 2, 3, 3, max_depth])) for i in range(n_exprs)]
    if mode == 'frag': exprs = [x for x in Q.flag_probes() if Q.has_attr(x) and not Q.closed_compound(x)] + exprs     # deterministic probes of every constructor's nullable flag
    sch = Q.schema_json()
    db, E = fresh_db()
    rows = [Q.random_row(rng) for _ in range(ctx.scale(14, 40))]
    # boundary rows: everything missing / zero / empty
    rows.append({'a': 0, 'c': 0, 'n': None, 'm': None, 'b': False, 'nb': None, 's': 'a', 't': '', 'ns': None})
    rows.append({'a': 1, 'c': -1, 'n': 0, 'm': 0, 'b': True, 'nb': False, 's': 'ab', 't': 'a', 'ns': ''})
    load_rows(db, E, rows)
    tr_reqs = []; tr_meta = []          # correspondence (1)
    ck_reqs = []; ck_meta = []          # the verified checker on the real conditions
    py_reqs = []; py_meta = []          # engine reading vs Lean py
    ev_reqs = []; ev_meta = []          # (3)
    with db_session:
        objs = {o.id: o for o in E.select()}
        for idx, e in enumerate(exprs):
            params = Q.random_params(rng)
            s = Q.src(e)
            forms = Forms(E, s, params)
            nonconst = Q.has_attr(e)
            ctx.count('%s:exprs' % mode); ctx.count('%s:depth:%d' % (mode, Q.depth(e)))
            if nonconst: ctx.count('%s:non-constant-conditions' % mode)
            for sub in Q.subexprs(e): ctx.count('%s:node:%s' % (mode, sub[0]))
            expected = [i + 1 for i, r in enumerate(rows) if Q.as_k(Q.py_eval(e, r, params)) == Q.TT]
            py_reqs.append({'op': 'py', 'expr': Q.to_json(e), 'params': params, 'rows': rows}); py_meta.append((e, params))
            tr_reqs.append({'op': 'translate', 'dialect': 'sqlite', 'schema': sch, 'expr': Q.to_json(e)}); tr_meta.append((s, 'source', None, mode))
            first_q = None
            for form in ('generator', 'lambda', 'string') + (('filter',) if mode == 'ext' else ()):
                q, real = real_conditions(forms, form)
                ctx.case([mode, form, s], nontrivial=nonconst, kind='%s:%s' % (mode, form))
                if 'ok' in real: ctx.count('%s:translated' % mode)
                else: ctx.count('%s:%s:raises:%s' % (mode, form, real['error']))
                # expression Pony really translates in this form
                tex = e
                if form == 'filter': tex = None
                elif form != 'string':
                    try: tex = forms.decompiled(form)
                    except Q.Unsupported: tex = None; ctx.count('%s:decompiled-ast-outside-model' % mode)
                    except Exception: tex = None
                    if tex is not None and tex != e: ctx.count('%s:%s:decompiler-rewrote-expression' % (mode, form))
                if real.get('error') in ('DecompileError', 'IndexError', 'AssertionError') and form not in ('string', 'filter'):
                    ctx.count('%s:decompiler-refused' % mode)       # an error, not different rows
                elif tex is not None and not Q.closed_compound(tex):
                    tr_reqs.append({'op': 'translate', 'dialect': 'sqlite', 'schema': sch, 'expr': Q.to_json(tex)}); tr_meta.append((s, form, real, mode))
                    if 'ok' in real:
                        ck_reqs.append({'op': 'check', 'dialect': 'sqlite', 'schema': sch, 'expr': Q.to_json(tex), 'sql': real['ok']}); ck_meta.append((s, form, mode))
                if q is None: continue
                if first_q is None or form == 'string': first_q = q
                # (2) property oracle
                try:
                    got = sorted(o.id for o in q)
                except Exception as ex:
                    ctx.count('%s:%s:execution-raises:%s' % (mode, form, type(ex).__name__)); continue     # an error, not different rows
                if got != expected:
                    report_violation(ctx, db, E, rows, e, params, form, got, expected)
            if first_q is not None:
                try:
                    lite = sqlite_three_valued(db, first_q, len(rows))
                    ev_reqs.append({'op': 'evalsql', 'dialect': 'sqlite', 'sql': Q.norm_ast(first_q._translator.conditions), 'params': params, 'rows': rows})
                    ev_meta.append((s, lite, expected, mode))
                except Exception as ex:
                    ctx.count('%s:sqlite-error:%s' % (mode, type(ex).__name__))
            # plain Python on rows without None: validates the Python reading itself
            for i, r in enumerate(rows[:6]):
                if Q.row_has_none(e, r): continue
                try:
                    truth = bool(eval(s, dict(params), {'e': objs[i + 1]}))
                except Exception:
                    continue
                ctx.count('%s:plain-python-checked' % mode)
                if truth != (Q.as_k(Q.py_eval(e, r, params)) == Q.TT):
                    ctx.divergence('the Python reading differs from plain Python on a row without None', {'expr': s, 'row': r}, model=Q.as_k(Q.py_eval(e, r, params)), impl=truth)
    db.disconnect()
    if not ctx.driver.ok:
        ctx.note('driver unavailable: correspondence (1), evaluator validation (3) and the Lean `py` cross-check skipped'); return
    # (1) correspondence
    for (s, form, real, md), out in zip(tr_meta, ctx.driver('C01', tr_reqs)):
        if form == 'source':
            if out.get('frag'): ctx.count('%s:in-theorem-fragment' % md)
            continue
        mc = out['conditions']
        ctx.count('%s:correspondence-checked' % md)
        if 'ok' in real:
            if mc.get('ok') != real['ok']:
                ctx.divergence('model conditions differ from query._translator.conditions (%s form)' % form, {'expr': s, 'form': form}, model=mc, impl=real)
        elif mc.get('error') != real['error']:
            ctx.divergence('model and real translator disagree on the error (%s form)' % form, {'expr': s, 'form': form}, model=mc, impl=real)
        else: ctx.count('%s:error-agreed:%s' % (md, real['error']))
    # the verified checker (C01_checker_sound): accepted => the real conditions select exactly the rows Python selects, on every database
    for (s, form, md), out in zip(ck_meta, ctx.driver('C01', ck_reqs)):
        if out.get('accepted'): ctx.count('%s:checker-accepted' % md)
        elif out.get('frag'):
            ctx.divergence('the verified checker rejects the conditions the real translator emitted for an expression of the fragment (%s form)' % form, {'expr': s, 'form': form}, model=out, impl=None)
        else: ctx.count('%s:checker-not-applicable(outside fragment)' % md)
    # the engine's Python reading == Lean's `py` (reference of the theorem)
    for (e, params), out in zip(py_meta, ctx.driver('C01', py_reqs)):
        mine = [Q.as_k(Q.py_eval(e, r, params)) for r in rows]
        if 'ok' not in out or [o['k'] for o in out['ok']] != mine:
            ctx.divergence("engine's Python reading differs from Lean Model.Q.py", {'expr': Q.src(e)}, model=out, impl=mine)
    # (3) Lean's SQL evaluator vs real SQLite on the real AST / text
    for (s, lite, expected, md), out in zip(ev_meta, ctx.driver('C01', ev_reqs)):
        ctx.count('%s:evaluator-checked' % md)
        if 'ok' not in out:
            ctx.count('%s:evaluator-unsupported-node' % md); continue
        if md == 'ext' and 'err' in out['ok']:
            ctx.count('ext:evaluator-refuses-untyped-operation'); continue
        if out['ok'] != lite:
            sel_model = [i + 1 for i, k in enumerate(out['ok']) if k == Q.TT]
            sel_lite = [i + 1 for i, k in enumerate(lite) if k == Q.TT]
            # when SQLite's own answer already violates the property the difference is the builder's (reported by oracle 2)
            if sel_lite != expected and sel_model == expected:
                ctx.count('%s:evaluator-differs-where-oracle-2-fails' % md); continue
            bad = [(i + 1, a, b) for i, (a, b) in enumerate(zip(out['ok'], lite)) if a != b][:3]
            ctx.divergence('Lean Sql.eval differs from real SQLite on the emitted statement', {'expr': s, 'rows(id, model, sqlite)': bad}, model=out['ok'], impl=lite)


def rows_of(E, x, params, form):
    with db_session:
        return sorted(o.id for o in Forms(E, Q.src(x), params).build(form))


def report_violation(ctx, db, E, rows, e, params, form, got, expected):
    """shrink the expression, then register the violation under the canonical key of the minimal input"""
    def exp_of(x): return [i + 1 for i, r in enumerate(rows) if Q.as_k(Q.py_eval(x, r, params)) == Q.TT]
    def failing(x):
        try: return rows_of(E, x, params, form) != exp_of(x)
        except Exception: return False
    def tex_of(x):
        if form not in ('generator', 'lambda'): return None
        try: return Forms(E, Q.src(x), params).decompiled(form)
        except Exception: return None
    def dec_changed(x):
        tex = tex_of(x)
        if tex is None: return False
        return any(Q.as_k(Q.py_eval(tex, r, params)) != Q.as_k(Q.py_eval(x, r, params)) for r in rows)
    def cls_of(x): return classify(x, form, dec_changed(x), tex_of(x))
    cls0 = cls_of(e)
    def valid(x): return all(Q.bool_valued(o) for s_ in Q.subexprs(x) if s_[0] == 'cmp' for o in s_[2:4] if not Q.is_value(o) and o[0] != 'none')
    # shrink inside the class of the original failure (otherwise the shrinker drifts into other defects)
    small = Q.shrink(e, (lambda x: valid(x) and failing(x) and cls_of(x) == cls0) if cls0 else (lambda x: valid(x) and failing(x)))
    try: g = rows_of(E, small, params, form)
    except Exception as ex: g = 'raised ' + type(ex).__name__
    exp = exp_of(small)
    wrong = sorted(set(g) ^ set(exp)) if isinstance(g, list) else []
    witness = rows[wrong[0] - 1] if wrong else None
    used = sorted({s[1] for s in Q.subexprs(small) if s[0] == 'attr'})
    key = cls_of(small) or ('expr:%s:%s' % (form, json.dumps(Q.to_json(Q.canon_atoms(small)))))
    ctx.count('violations-before-dedup'); ctx.count('violation-class:' + (key if not key.startswith('expr:') else 'unclassified'))
    ctx.violation('rows returned differ from Python evaluation of the same expression (%s form)' % form,
                  {'query': QUERY_TEXT[form] % Q.src(small), 'form': form, 'params': {k: v for k, v in params.items() if any(x == ('param', k) for x in Q.subexprs(small))},
                   'witness_row': {k: witness[k] for k in used} if witness else None, 'original': Q.src(e)},
                  observed={'ids': g, 'selects_witness': (wrong[0] in g) if wrong and isinstance(g, list) else None},
                  expected={'ids': exp}, key=key)


QUERY_TEXT = {'generator': 'select(e for e in E if %s)', 'lambda': 'E.select(lambda e: %s)', 'string': "select('e for e in E if %s')",
              'filter': "E.select().filter('lambda e: %s')"}


# the witnesses of the `…_full_false` theorems and of every class of failing input found so far, replayed on the real code on every run
WITNESSES = [
    # (key, form, expression, rows)
    ('not-over-and-or-with-nullable-truth-test', 'string', ('not', ('and', ('attr', 'n'), ('attr', 'a'))), [{'n': None, 'a': 1}]),
    ('not-over-and-or-with-nullable-truth-test', 'lambda', ('not', ('or', ('attr', 'n'), ('attr', 'b'))), [{'n': None, 'b': False}]),
    ('not-in-nullable-string-selects-null', 'string', ('like', 'contains', True, 'x', ('attr', 'ns')), [{'ns': None}]),
    ('comparison-operand-is-a-condition-unparenthesized', 'string', ('cmp', '==', ('attr', 'b'), ('cmp', '==', ('attr', 'a'), ('int', 1))), [{'a': 2, 'b': False}]),
    ('int-compared-with-str-affinity', 'string', ('cmp', '==', ('attr', 'a'), ('attr', 's')), [{'a': 1, 's': '1'}]),
    ('filter-lambda-value-not-truth-tested', 'filter', ('attr', 's'), [{'s': 'q'}]),
    ('decompiler-conditional-expression-in-boolean-context', 'generator', ('or', ('attr', 'b'), ('ite', ('attr', 'nb'), ('attr', 'nb'), ('attr', 'nb'))), [{'b': True, 'nb': None}]),
    ('decompiler-ifexp-test-not-with-and-or', 'lambda', ('cmp', '==', ('ite', ('not', ('or', ('attr', 'b'), ('attr', 'nb'))), ('attr', 'a'), ('attr', 'c')), ('int', 1)),
     [{'b': False, 'nb': True, 'a': 1, 'c': 2}, {'b': False, 'nb': False, 'a': 1, 'c': 2}, {'b': True, 'nb': False, 'a': 2, 'c': 1}]),
    ('decompiler-and-or-used-as-value', 'generator', ('cmp', '==', ('attr', 'b'), ('and', ('attr', 'nb'), ('attr', 'b'))), [{'b': False, 'nb': True}, {'b': True, 'nb': False}, {'b': False, 'nb': False}]),
    ('decompiler-constant-in-boolean-context', 'generator', ('or', ('attr', 't'), ('int', 1)), [{'t': 'x'}]),
]
BASE_ROW = {'a': 0, 'c': 0, 'n': 0, 'm': 0, 'b': False, 'nb': False, 's': 'a', 't': '', 'ns': ''}


def run_witnesses(ctx):
    for key, form, e, rws in WITNESSES:
        db, E = fresh_db()
        rows = [dict(BASE_ROW, **r) for r in rws]
        load_rows(db, E, rows)
        params = {'pi': 0, 'pj': 0, 'pb': False, 'ps': ''}
        exp = [i + 1 for i, r in enumerate(rows) if Q.as_k(Q.py_eval(e, r, params)) == Q.TT]
        ctx.case(['witness', key, form, Q.src(e)], kind='witness')
        try:
            got = rows_of(E, e, params, form)
        except Exception as ex:
            ctx.count('witness-now-raises:' + key); db.disconnect(); continue
        if got != exp:
            ctx.violation('rows returned differ from Python evaluation of the same expression (%s form)' % form,
                          {'query': QUERY_TEXT[form] % Q.src(e), 'form': form, 'witness_row': rws[0]},
                          observed={'ids': got}, expected={'ids': exp}, key=key)
        else:
            ctx.count('witness-no-longer-fails:' + key)
        db.disconnect()


def run_projections(ctx, n_exprs):
    """projections `select((e.id, <value expression>) for e in E)`: correspondence of the column, values returned vs the Python
    value (missing = None), Lean evaluator vs SQLite — theorem C01_proj"""
    rng = ctx.rng
    gen = Q.Gen(rng, 'frag')
    sch = Q.schema_json()
    db, E = fresh_db()
    rows = [Q.random_row(rng) for _ in range(ctx.scale(10, 30))]
    rows.append({'a': 0, 'c': 0, 'n': None, 'm': None, 'b': False, 'nb': None, 's': 'a', 't': '', 'ns': None})
    load_rows(db, E, rows)
    tr_reqs = []; tr_meta = []; ev_reqs = []; ev_meta = []; ck_reqs = []; ck_meta = []
    from pony.orm.decompiling import decompile
    with db_session:
        for _ in range(n_exprs):
            ty = rng.choice(['int', 'int', 'str', 'bool'])
            for _t in range(20):
                e = gen.val(ty, rng.choice([1, 2, 3]), True)
                if Q.has_attr(e) and not Q.closed_compound(e) and e[0] != 'attr': break
            params = Q.random_params(rng)
            s = Q.src(e)
            G = dict(params); G.update(E=E, select=select)
            expected = [(i + 1, Q.as_v(Q.py_eval(e, r, params))) for i, r in enumerate(rows)]
            ctx.count('proj:exprs'); ctx.count('proj:type:' + ty)
            for sub in Q.subexprs(e): ctx.count('proj:node:' + sub[0])
            for form in ('generator', 'string'):
                ctx.case(['proj', form, s], kind='proj:' + form)
                tex = e
                try:
                    if form == 'generator':
                        # the expression the decompiler hands to the translator (e.g. `not (not x)` arrives as `x`), computed BEFORE the query is built
                        try: tex = Q.expr_of_ast(decompile(eval('((e.id, %s) for e in E)' % s, G))[0].elt.elts[1])
                        except Exception: tex = None
                        q = eval('select((e.id, %s) for e in E)' % s, G)
                    else:
                        q = select('(e.id, %s) for e in E' % s, G)
                    real = {'ok': Q.norm_ast(q._translator.expr_columns[1])}
                except Exception as ex:
                    q = None; real = {'error': Q.exc_class(ex)}
                    ctx.count('proj:%s:raises:%s' % (form, real['error']))
                if real.get('error') in ('DecompileError', 'IndexError', 'AssertionError') and form == 'generator':
                    ctx.count('proj:decompiler-refused'); continue
                if tex is not None and not Q.closed_compound(tex):
                    tr_reqs.append({'op': 'translate', 'dialect': 'sqlite', 'schema': sch, 'expr': Q.to_json(tex)}); tr_meta.append((s, form, real))
                    if 'ok' in real: ck_reqs.append({'op': 'checkproj', 'dialect': 'sqlite', 'schema': sch, 'expr': Q.to_json(tex), 'sql': real['ok']}); ck_meta.append((s, form))
                if q is None: continue
                try:
                    got = sorted(q[:])
                except Exception as ex:
                    ctx.count('proj:execution-raises:' + type(ex).__name__); continue
                got = [(i, v) for i, v in got]
                if [(i, v, type(v) is bool) for i, v in got] != [(i, v, type(v) is bool) for i, v in expected]:
                    bad = [(g, x) for g, x in zip(got, expected) if g != x or (type(g[1]) is bool) != (type(x[1]) is bool)][:2]
                    dch = tex is not None and form == 'generator' and any(Q.as_v(Q.py_eval(tex, r, params)) != Q.as_v(Q.py_eval(e, r, params)) for r in rows)
                    key = classify(e, form, dch, tex) or 'bool-arithmetic-typed-bool' if classify(e, form, dch, tex) or any(x[0] in ('bin', 'neg', 'abs') and all(Q.static_type(y) == 'bool' for y in x[1:] if isinstance(y, tuple)) for x in Q.subexprs(e)) \
                        else 'proj:%s:%s' % (form, json.dumps(Q.to_json(Q.canon_atoms(e))))
                    ctx.violation('values returned by a projection differ from Python evaluation (%s form)' % form,
                                  {'query': 'select((e.id, %s) for e in E)' % s, 'form': form, 'row': rows[bad[0][1][0] - 1] if bad else None},
                                  observed=[b[0] for b in bad], expected=[b[1] for b in bad], key=key)
                if form == 'string':
                    try:
                        sql, args, _, _ = q._construct_sql_and_arguments()
                        m = re.match(r'SELECT (?:DISTINCT )?"e"\."id", (.*)\nFROM', sql, re.S)
                        cur = db.get_connection().execute('SELECT "e"."id", (%s) FROM "E" "e" ORDER BY 1' % m.group(1), args)
                        lite = [v for _, v in cur.fetchall()]
                        ev_reqs.append({'op': 'evalsql', 'dialect': 'sqlite', 'value': True, 'sql': [Q.norm_ast(q._translator.expr_columns[1])], 'params': params, 'rows': rows})
                        ev_meta.append((s, lite))
                    except Exception as ex:
                        ctx.count('proj:sqlite-error:' + type(ex).__name__)
    db.disconnect()
    if not ctx.driver.ok: return
    for (s, form, real), out in zip(tr_meta, ctx.driver('C01', tr_reqs)):
        mp = out['projection']
        ctx.count('proj:correspondence-checked')
        if out.get('frag') and out.get('valueSorted'): ctx.count('proj:in-theorem-fragment')
        if 'ok' in real:
            if mp.get('ok') != real['ok']:
                ctx.divergence('model projection column differs from query._translator.expr_columns (%s form)' % form, {'expr': s}, model=mp, impl=real)
        elif mp.get('error') != real['error']:
            ctx.divergence('model and real translator disagree on the error of a projection (%s form)' % form, {'expr': s}, model=mp, impl=real)
    for (s, form), out in zip(ck_meta, ctx.driver('C01', ck_reqs)):
        if out.get('accepted'): ctx.count('proj:checker-accepted')
        elif out.get('frag'): ctx.divergence('the verified checker rejects the projection column the real translator emitted (%s form)' % form, {'expr': s}, model=out, impl=None)
    for (s, lite), out in zip(ev_meta, ctx.driver('C01', ev_reqs)):
        ctx.count('proj:evaluator-checked')
        if out.get('ok') != lite:
            ctx.divergence('Lean Sql.eval differs from real SQLite on a projection column', {'expr': s}, model=out.get('ok'), impl=lite)


# ---------------------------------------------------------------- second schema: differential oracle beyond the theorem's fragment

def schema2():
    db = Database()
    class Group(db.Entity):
        number = PrimaryKey(int)
        major = Required(str)
        students = Set('Student')
    class Course(db.Entity):
        name = Required(str)
        credits = Required(int)
        students = Set('Student')
    class Student(db.Entity):
        name = Required(str)
        scholarship = Optional(int)
        dob = Required(datetime.date)
        enrolled = Optional(datetime.datetime)
        group = Required(Group)
        courses = Set(Course)
        mentor = Optional('Student', reverse='mentees')
        mentees = Set('Student', reverse='mentor')
        def is_rich(self):
            return self.scholarship > 100
        @property
        def label(self):
            return self.name + '-' + self.group.major
        def older_than(self, d):
            return self.dob < d
    db.bind('sqlite', ':memory:')
    db.generate_mapping(create_tables=True)
    return db, Group, Course, Student


def fill2(rng, Group, Course, Student):
    groups = [Group(number=n, major=rng.choice(['math', 'cs', 'bio', 'cs'])) for n in rng.sample([101, 102, 103, 104, 201], rng.choice([1, 2, 3, 4]))]
    courses = [Course(name=nm, credits=rng.choice([0, 1, 2, 3, 5])) for nm in rng.sample(['alg', 'db', 'os', 'ml', 'art'], rng.choice([0, 2, 3, 5]))]
    studs = []
    for i in range(rng.choice([0, 1, 3, 6, 9])):
        st = Student(name=rng.choice(['Ann', 'Bob', 'ann', 'Cy', 'Di', ' Ed ', 'Bo_b']), scholarship=rng.choice([None, None, 0, 50, 100, 101, 300, -3, -4, 7]),
                     dob=datetime.date(rng.choice([1999, 2000, 2001]), rng.choice([1, 2, 12]), rng.choice([1, 15, 28])),
                     enrolled=rng.choice([None, datetime.datetime(2020, 9, 1, 8, 30), datetime.datetime(2021, 1, 15, 17, 0, 5), datetime.datetime(2019, 12, 31, 23, 59, 59)]),
                     group=rng.choice(groups), courses=rng.sample(courses, rng.randint(0, len(courses))) if courses else [])
        if studs and rng.random() < 0.5: st.mentor = rng.choice(studs)
        studs.append(st)


def nn(xs): return [x for x in xs if x is not None]


def templates(rng, S, G, C):
    """(id, query source evaluated with the names S G C and the parameters, Python reference over the loaded objects, compare mode)"""
    k = rng.choice([0, 1, 50, 100, 101, -3]); p = rng.choice(['cs', 'math', 'Ann', 'Bob', 'db']); y = rng.choice([1999, 2000, 2001])
    d = datetime.date(rng.choice([1999, 2000, 2001]), rng.choice([1, 6, 12]), 15); dt = datetime.datetime(2020, rng.choice([1, 9, 12]), 1, 12, 0)
    P = dict(k=k, p=p, y=y, d=d, dt=dt, k2=rng.choice([1, 2, 3]), ks=rng.choice([(101, 102), (201,), (103, 101, 104)]), td=datetime.timedelta(days=rng.choice([1, 30, 366])))
    k2 = P['k2']; ks = P['ks']; td = P['td']
    T = [
        ('nav-required', "select(s for s in S if s.group.major == p)", lambda S_, G_, C_: [s for s in S_ if s.group.major == p], 'set'),
        ('nav-optional', "select(s for s in S if s.mentor.name == p)", lambda S_, G_, C_: [s for s in S_ if s.mentor is not None and s.mentor.name == p], 'set'),
        ('nav-two-steps', "select(s for s in S if s.mentor.group.major == p)", lambda S_, G_, C_: [s for s in S_ if s.mentor is not None and s.mentor.group.major == p], 'set'),
        ('ref-is-none', "select(s for s in S if s.mentor is None)", lambda S_, G_, C_: [s for s in S_ if s.mentor is None], 'set'),
        ('ref-projection', "select(s.group for s in S if s.scholarship > k)", lambda S_, G_, C_: {s.group for s in S_ if s.scholarship is not None and s.scholarship > k}, 'set'),
        ('attr-projection-distinct', "select(s.group.major for s in S)", lambda S_, G_, C_: {s.group.major for s in S_}, 'set'),
        ('count-collection', "select(g for g in G if count(g.students) > k2)", lambda S_, G_, C_: [g for g in G_ if len(g.students) > k2], 'set'),
        ('len-collection', "select(s for s in S if len(s.courses) >= k2)", lambda S_, G_, C_: [s for s in S_ if len(s.courses) >= k2], 'set'),
        ('sum-collection', "select(g for g in G if sum(g.students.scholarship) > k)", lambda S_, G_, C_: [g for g in G_ if sum(nn(x.scholarship for x in g.students)) > k], 'set'),
        ('max-collection', "select(g for g in G if max(g.students.scholarship) >= k)", lambda S_, G_, C_: [g for g in G_ if nn(x.scholarship for x in g.students) and max(nn(x.scholarship for x in g.students)) >= k], 'set'),
        ('min-collection', "select(g for g in G if min(g.students.scholarship) < k)", lambda S_, G_, C_: [g for g in G_ if nn(x.scholarship for x in g.students) and min(nn(x.scholarship for x in g.students)) < k], 'set'),
        ('avg-collection', "select(g for g in G if avg(g.students.scholarship) > k)", lambda S_, G_, C_: [g for g in G_ if nn(x.scholarship for x in g.students) and sum(nn(x.scholarship for x in g.students)) > k * len(nn(x.scholarship for x in g.students))], 'set'),
        ('exists-subquery', "select(g for g in G if exists(s for s in g.students if s.scholarship is None))", lambda S_, G_, C_: [g for g in G_ if any(s.scholarship is None for s in g.students)], 'set'),
        ('not-exists-subquery', "select(g for g in G if not exists(s for s in g.students if s.name == p))", lambda S_, G_, C_: [g for g in G_ if not any(s.name == p for s in g.students)], 'set'),
        ('in-subquery', "select(s for s in S if s.group in (g for g in G if g.major == p))", lambda S_, G_, C_: [s for s in S_ if s.group.major == p], 'set'),
        ('in-subquery-attr', "select(s for s in S if s.name in (x.name for x in S if x.scholarship > k))", lambda S_, G_, C_: [s for s in S_ if s.name in [x.name for x in S_ if x.scholarship is not None and x.scholarship > k]], 'set'),
        ('value-in-collection-attr', "select(s for s in S if p in s.courses.name)", lambda S_, G_, C_: [s for s in S_ if any(c.name == p for c in s.courses)], 'set'),
        ('collection-truth', "select(s for s in S if s.courses)", lambda S_, G_, C_: [s for s in S_ if s.courses], 'set'),
        ('collection-not', "select(s for s in S if not s.courses)", lambda S_, G_, C_: [s for s in S_ if not s.courses], 'set'),
        ('reverse-collection', "select(s for s in S if s.mentees)", lambda S_, G_, C_: [s for s in S_ if s.mentees], 'set'),
        ('count-zero', "select(c for c in C if count(c.students) == 0)", lambda S_, G_, C_: [c for c in C_ if len(c.students) == 0], 'set'),
        ('groupby-count', "select((g.number, count(g.students)) for g in G)", lambda S_, G_, C_: [(g.number, len(g.students)) for g in G_], 'set'),
        ('groupby-attr-count', "select((s.group.major, count(s)) for s in S)", lambda S_, G_, C_: [(m, sum(1 for s in S_ if s.group.major == m)) for m in {s.group.major for s in S_}], 'set'),
        ('groupby-max', "select((s.group, max(s.scholarship)) for s in S)", lambda S_, G_, C_: [(g, max(nn(s.scholarship for s in S_ if s.group == g), default=None)) for g in {s.group for s in S_}], 'set'),
        ('aggregate-subquery-max', "select(s for s in S if s.scholarship == max(x.scholarship for x in S))", lambda S_, G_, C_: [s for s in S_ if s.scholarship is not None and s.scholarship == max(nn(x.scholarship for x in S_))], 'set'),
        ('aggregate-correlated-min', "select(s for s in S if s.scholarship > min(x.scholarship for x in S if x.group == s.group))", lambda S_, G_, C_: [s for s in S_ if s.scholarship is not None and s.scholarship > min(nn(x.scholarship for x in S_ if x.group == s.group))], 'set'),
        ('two-generators', "select((s, c) for s in S for c in s.courses if c.credits > k2)", lambda S_, G_, C_: [(s, c) for s in S_ for c in s.courses if c.credits > k2], 'set'),
        ('two-generators-in', "select(s for s in S for c in C if c in s.courses and c.credits >= k2)", lambda S_, G_, C_: {s for s in S_ for c in C_ if c in s.courses and c.credits >= k2}, 'set'),
        ('order-by-attrs', "select(s for s in S).order_by(lambda s: (s.group.number, desc(s.name), s.id))", lambda S_, G_, C_: sorted(sorted(sorted(S_, key=lambda s: s.id), key=lambda s: s.name, reverse=True), key=lambda s: s.group.number), 'list'),
        ('order-by-desc', "select(s for s in S if s.scholarship is not None).order_by(desc(S.scholarship), S.id)", lambda S_, G_, C_: sorted(sorted([s for s in S_ if s.scholarship is not None], key=lambda s: s.id), key=lambda s: -s.scholarship), 'list'),
        ('order-by-expression', "select(s for s in S).order_by(lambda s: (len(s.name), s.id))", lambda S_, G_, C_: sorted(S_, key=lambda s: (len(s.name), s.id)), 'list'),
        ('date-compare', "select(s for s in S if s.dob < d)", lambda S_, G_, C_: [s for s in S_ if s.dob < d], 'set'),
        ('date-year', "select(s for s in S if s.dob.year == y)", lambda S_, G_, C_: [s for s in S_ if s.dob.year == y], 'set'),
        ('date-month-day', "select(s for s in S if s.dob.month == 12 or s.dob.day == 15)", lambda S_, G_, C_: [s for s in S_ if s.dob.month == 12 or s.dob.day == 15], 'set'),
        ('date-plus-timedelta', "select(s for s in S if s.dob + td > d)", lambda S_, G_, C_: [s for s in S_ if s.dob + td > d], 'set'),
        ('datetime-compare', "select(s for s in S if s.enrolled >= dt)", lambda S_, G_, C_: [s for s in S_ if s.enrolled is not None and s.enrolled >= dt], 'set'),
        ('datetime-parts', "select(s for s in S if s.enrolled.year == 2020 and s.enrolled.hour < 12)", lambda S_, G_, C_: [s for s in S_ if s.enrolled is not None and s.enrolled.year == 2020 and s.enrolled.hour < 12], 'set'),
        ('datetime-date', "select(s for s in S if s.enrolled.date() < d.replace(year=2021))", lambda S_, G_, C_: [s for s in S_ if s.enrolled is not None and s.enrolled.date() < d.replace(year=2021)], 'set'),
        ('datetime-projection', "select((s.id, s.enrolled, s.dob) for s in S)", lambda S_, G_, C_: [(s.id, s.enrolled, s.dob) for s in S_], 'set'),
        ('hybrid-method', "select(s for s in S if s.is_rich())", lambda S_, G_, C_: [s for s in S_ if s.scholarship is not None and s.is_rich()], 'set'),
        ('hybrid-method-arg', "select(s for s in S if s.older_than(d))", lambda S_, G_, C_: [s for s in S_ if s.older_than(d)], 'set'),
        ('hybrid-property', "select(s for s in S if s.label.endswith(p))", lambda S_, G_, C_: [s for s in S_ if s.label.endswith(p)], 'set'),
        ('hybrid-property-projection', "select((s.id, s.label) for s in S)", lambda S_, G_, C_: [(s.id, s.label) for s in S_], 'set'),
        ('string-methods', "select(s for s in S if s.name.upper() == p.upper() or s.name.strip() == 'Ed' or s.name.lower().startswith('b'))",
         lambda S_, G_, C_: [s for s in S_ if s.name.upper() == p.upper() or s.name.strip() == 'Ed' or s.name.lower().startswith('b')], 'set'),
        ('string-index-slice', "select((s.id, s.name[0], s.name[1:], s.name[:2], s.name[-1], s.name[1:-1]) for s in S)",
         lambda S_, G_, C_: [(s.id, s.name[0], s.name[1:], s.name[:2], s.name[-1], s.name[1:-1]) for s in S_], 'set'),
        ('like-metacharacters', "select(s for s in S if '_' in s.name or s.name.startswith(' '))", lambda S_, G_, C_: [s for s in S_ if '_' in s.name or s.name.startswith(' ')], 'set'),
        ('param-list', "select(s for s in S if s.group.number in ks)", lambda S_, G_, C_: [s for s in S_ if s.group.number in ks], 'set'),
        ('between', "select(s for s in S if between(s.scholarship, k, 101))", lambda S_, G_, C_: [s for s in S_ if s.scholarship is not None and k <= s.scholarship <= 101], 'set'),
        ('coalesce', "select(s for s in S if coalesce(s.scholarship, 0) > k)", lambda S_, G_, C_: [s for s in S_ if (s.scholarship if s.scholarship is not None else 0) > k], 'set'),
        ('power', "select(s for s in S if s.scholarship ** 2 == 49)", lambda S_, G_, C_: [s for s in S_ if s.scholarship is not None and s.scholarship ** 2 == 49], 'set'),
        ('sum-whole-query', "select(sum(s.scholarship) for s in S if s.group.major == p)", lambda S_, G_, C_: [sum(nn(s.scholarship for s in S_ if s.group.major == p))], 'set'),
        ('count-distinct', "select(count(s.group) for s in S)", lambda S_, G_, C_: [len({s.group for s in S_})], 'set'),
        ('floordiv', "select((s.id, s.scholarship // 2) for s in S if s.scholarship is not None)", lambda S_, G_, C_: [(s.id, s.scholarship // 2) for s in S_ if s.scholarship is not None], 'set'),
        ('mod', "select((s.id, s.scholarship % 3) for s in S if s.scholarship is not None)", lambda S_, G_, C_: [(s.id, s.scholarship % 3) for s in S_ if s.scholarship is not None], 'set'),
        ('truediv', "select(s for s in S if s.scholarship / 2 > 3)", lambda S_, G_, C_: [s for s in S_ if s.scholarship is not None and s.scholarship / 2 > 3], 'set'),
        ('slice-stop-minus-one', "select((s.id, s.name[:-1]) for s in S)", lambda S_, G_, C_: [(s.id, s.name[:-1]) for s in S_], 'set'),
    ]
    return P, T


KNOWN_TEMPLATE_KEYS = {'date-plus-timedelta': 'sqlite-date-plus-timedelta-parameter', 'floordiv': 'floordiv-negative-operand-truncates', 'mod': 'mod-negative-operand-sign', 'truediv': 'truediv-of-integers-is-integer-division',
                       'slice-stop-minus-one': 'slice-stop-const-minus-one'}


def canon2(x):
    if isinstance(x, core.Entity): return [type(x).__name__, x.get_pk()]
    if isinstance(x, (tuple, list)): return [canon2(i) for i in x]
    if isinstance(x, (datetime.datetime, datetime.date)): return x.isoformat()
    if isinstance(x, float): return round(x, 9) if x != int(x) else int(x)
    if isinstance(x, Decimal): return str(x)
    return x


def run_schema2(ctx, rounds):
    rng = ctx.rng
    for rd in range(rounds):
        db, G, C, S = schema2()
        with db_session:
            fill2(rng, G, C, S)
        with db_session:
            S_ = sorted(S.select()[:], key=lambda o: o.id); G_ = sorted(G.select()[:], key=lambda o: o.number); C_ = sorted(C.select()[:], key=lambda o: o.id)
            P, T = templates(rng, S, G, C)
            ns = dict(P); ns.update(S=S, G=G, C=C, select=select, count=count, sum=psum, min=pmin, max=pmax, avg=avg, exists=exists, desc=desc,
                                    between=core.between, coalesce=core.coalesce, len=len)
            for tid, qsrc, ref, mode in T:
                forms = [('generator', lambda: eval(qsrc, ns))]
                m = re.match(r'select\((.*)\)$', qsrc, re.S)
                if m and '.order_by' not in qsrc: forms.append(('string', lambda: select(m.group(1), ns)))
                try:
                    exp = canon2(list(ref(S_, G_, C_)))
                except Exception as ex:
                    ctx.count('schema2:reference-raises:%s' % tid); continue
                if mode == 'set': exp = sorted(exp, key=repr)
                for form, build in forms:
                    ctx.case(['schema2', tid, form, {k: repr(v) for k, v in P.items()}, len(S_)], kind='schema2:' + tid)
                    try:
                        got = canon2(list(build()))
                    except Exception as ex:
                        ctx.count('schema2:%s:%s:raises:%s' % (tid, form, type(ex).__name__)); continue
                    if mode == 'set': got = sorted(got, key=repr)
                    if got != exp:
                        key = KNOWN_TEMPLATE_KEYS.get(tid) or 'schema2:%s:%s' % (tid, form)
                        extra = [g for g in got if g not in exp][:3]; missing = [x for x in exp if x not in got][:3]
                        ctx.violation('query over Student-Group-Course returns something else than the Python evaluation (%s, %s form)' % (tid, form),
                                      {'query': qsrc, 'form': form, 'params': {k: repr(v) for k, v in P.items()},
                                       'students': [(s.id, s.name, s.scholarship, s.group.number) for s in S_][:12]},
                                      observed={'not expected': extra, 'rows': len(got)}, expected={'not returned': missing, 'rows': len(exp)}, key=key)
        db.disconnect()


def run_arith_witnesses(ctx):
    """integer division / modulo / true division on negative and odd operands (outside the theorem's grammar)"""
    db, E = fresh_db()
    rows = [dict(BASE_ROW, a=-3), dict(BASE_ROW, a=3), dict(BASE_ROW, a=-4)]
    load_rows(db, E, rows)
    with db_session:
        for key, q, ref in [('floordiv-negative-operand-truncates', 'select((e.id, e.a // 2) for e in E)', lambda a: a // 2),
                            ('mod-negative-operand-sign', 'select((e.id, e.a % 2) for e in E)', lambda a: a % 2),
                            ('truediv-of-integers-is-integer-division', 'select((e.id, e.a / 2) for e in E)', lambda a: a / 2)]:
            ctx.case(['witness', key], kind='witness')
            try: got = sorted(eval(q, dict(E=E, select=select))[:])
            except Exception: ctx.count('witness-now-raises:' + key); continue
            exp = [(i + 1, ref(r['a'])) for i, r in enumerate(rows)]
            if [tuple(g) for g in got] != exp:
                ctx.violation('values returned by a projection differ from Python evaluation', {'query': q, 'rows': [r['a'] for r in rows]},
                              observed=[list(g) for g in got], expected=[list(x) for x in exp], key=key)
            else: ctx.count('witness-no-longer-fails:' + key)
    db.disconnect()
    # date + timedelta PARAMETER on SQLite: datetime(julianday(dob) + ?) yields 'YYYY-MM-DD HH:MM:SS', compared as text with a date
    db = Database()
    class D(db.Entity):
        dob = Required(datetime.date)
    db.bind('sqlite', ':memory:'); db.generate_mapping(create_tables=True)
    with db_session:
        D(dob=datetime.date(2000, 1, 1))
    key = 'sqlite-date-plus-timedelta-parameter'
    ctx.case(['witness', key], kind='witness')
    with db_session:
        ns = dict(D=D, select=select, td=datetime.timedelta(days=1), d=datetime.date(2000, 1, 2))
        got = [[o.id for o in eval('select(x for x in D if x.dob + td > d)', ns)], [o.id for o in eval('select(x for x in D if x.dob + td == d)', ns)]]
    if got != [[], [1]]:
        ctx.violation('date + timedelta parameter compared with a date gives a different answer than Python',
                      {'query': 'select(x for x in D if x.dob + td > d) / == d', 'dob': '2000-01-01', 'td': '1 day', 'd': '2000-01-02'},
                      observed=got, expected=[[], [1]], key=key)
    else: ctx.count('witness-no-longer-fails:' + key)
    db.disconnect()


# ---------------------------------------------------------------- set semantics of projections: DISTINCT inference, composite keys

def schema3():
    db = Database()
    class Dept(db.Entity):
        number = PrimaryKey(int)
        name = Required(str)
        courses = Set('Course')
    class Course(db.Entity):
        name = Required(str)
        semester = Required(int)
        credits = Required(int)
        dept = Required(Dept)
        lessons = Set('Lesson')
        PrimaryKey(name, semester)
    class Lesson(db.Entity):
        course = Required(Course)
        day = Required(int)
        room = Required(str)
        PrimaryKey(course, day)                    # a reference is part of the key (three columns)
    class Tag(db.Entity):
        a = Required(int)
        b = Required(str)
        c = Required(int)
        note = Optional(str)
        PrimaryKey(a, b, c)
    db.bind('sqlite', ':memory:')
    db.generate_mapping(create_tables=True)
    return db, Dept, Course, Lesson, Tag


def fill3(rng, Dept, Course, Lesson, Tag):
    depts = [Dept(number=n, name=rng.choice(['math', 'cs', 'cs'])) for n in rng.sample([1, 2, 3], rng.choice([1, 2, 3]))]
    courses = []
    for nm, sem in rng.sample([(n, s_) for n in ('Algebra', 'Biology', 'History') for s_ in (1, 2, 3)], rng.choice([0, 2, 4, 6])):   # repeated partial keys
        courses.append(Course(name=nm, semester=sem, credits=rng.choice([0, 3, 3, 5]), dept=rng.choice(depts)))
    for c, day in rng.sample([(c, d_) for c in courses for d_ in (1, 2, 3)], min(len(courses) * 3, rng.choice([0, 3, 5]))):
        Lesson(course=c, day=day, room=rng.choice(['r1', 'r2']))
    for a, b, c in rng.sample([(a, b, c) for a in (1, 2) for b in ('x', 'y') for c in (1, 2)], rng.choice([0, 3, 5, 8])):
        Tag(a=a, b=b, c=c, note=rng.choice(['', 'n', 'n']))


# per entity: variable, key attributes, projectable items  (source, python function, item kind for the Lean rule)
def items3():
    return {
        'Course': ('c', ['name', 'semester'], [
            ('c.name', lambda c: c.name, 'name'), ('c.semester', lambda c: c.semester, 'semester'), ('c.credits', lambda c: c.credits, 'credits'),
            ('c.dept', lambda c: c.dept, 'dept'), ('c.credits > 0', lambda c: c.credits > 0, None), ('c.semester + 1', lambda c: c.semester + 1, None),
            ('c.name.upper()', lambda c: c.name.upper(), None), ('c.dept.name', lambda c: c.dept.name, None), ('c', lambda c: c, '*')]),
        'Lesson': ('l', ['course', 'day'], [
            ('l.course', lambda l: l.course, 'course'), ('l.day', lambda l: l.day, 'day'), ('l.room', lambda l: l.room, 'room'),
            ('l.course.name', lambda l: l.course.name, None), ('l.course.semester', lambda l: l.course.semester, None), ('l.day * 2', lambda l: l.day * 2, None),
            ('l', lambda l: l, '*')]),
        'Tag': ('t', ['a', 'b', 'c'], [
            ('t.a', lambda t: t.a, 'a'), ('t.b', lambda t: t.b, 'b'), ('t.c', lambda t: t.c, 'c'), ('t.note', lambda t: t.note, 'note'),
            ('t.a + t.c', lambda t: t.a + t.c, None), ('t.b + t.note', lambda t: t.b + t.note, None), ('t', lambda t: t, '*')]),
        'Dept': ('d', ['number'], [
            ('d.number', lambda d: d.number, 'number'), ('d.name', lambda d: d.name, 'name'), ('len(d.name)', lambda d: len(d.name), None), ('d', lambda d: d, '*')]),
    }


MULTI = [   # (query, python reference) — several iterated entities: `requires_distinct` / `can_affect_distinct`
    ("select((d.number, c.semester) for d in Dept for c in d.courses)", lambda D, C, L: [(d.number, c.semester) for d in D for c in d.courses]),
    ("select(c.name for d in Dept for c in d.courses)", lambda D, C, L: [c.name for d in D for c in d.courses]),
    ("select((d.name, c) for d in Dept for c in d.courses)", lambda D, C, L: [(d.name, c) for d in D for c in d.courses]),
    ("select(d for d in Dept for c in d.courses if c.credits > 0)", lambda D, C, L: [d for d in D for c in d.courses if c.credits > 0]),
    ("select(c for d in Dept for c in d.courses if d.name == 'cs')", lambda D, C, L: [c for d in D for c in d.courses if d.name == 'cs']),
    ("select((d, c.name, c.semester) for d in Dept for c in d.courses)", lambda D, C, L: [(d, c.name, c.semester) for d in D for c in d.courses]),
    ("select((c, l.day) for c in Course for l in c.lessons)", lambda D, C, L: [(c, l.day) for c in C for l in c.lessons]),
    ("select((c.name, l.room) for c in Course for l in c.lessons)", lambda D, C, L: [(c.name, l.room) for c in C for l in c.lessons]),
    ("select((c.name, c.semester, l.day) for c in Course for l in c.lessons)", lambda D, C, L: [(c.name, c.semester, l.day) for c in C for l in c.lessons]),
    ("select(c.dept for c in Course)", lambda D, C, L: [c.dept for c in C]),
    ("select(l.course for l in Lesson)", lambda D, C, L: [l.course for l in L]),
    ("select(l.course.dept for l in Lesson if l.day > 1)", lambda D, C, L: [l.course.dept for l in L if l.day > 1]),
    ("select((d.name, c.credits) for d in Dept for c in Course if c.dept == d)", lambda D, C, L: [(d.name, c.credits) for d in D for c in C if c.dept == d]),
    ("select(d.number for d in Dept for c in Course if c.dept == d and c.credits > 0)", lambda D, C, L: [d.number for d in D for c in C if c.dept == d and c.credits > 0]),
    ("select((l.room, d.name) for d in Dept for c in d.courses for l in c.lessons)", lambda D, C, L: [(l.room, d.name) for d in D for c in d.courses for l in c.lessons]),
]


def run_distinct(ctx, rounds):
    """Rule used as oracle (docs, 'Automatic DISTINCT'; CHANGELOG #91): a query returns no duplicates — an attribute / expression
    projection is de-duplicated unless the object itself or its whole primary key is selected (then rows cannot repeat).  So for a
    query without order_by / without_distinct the result must equal the SET of the Python tuples, as a bag."""
    rng = ctx.rng
    ent_items = items3()
    d_reqs, d_meta = [], []
    for rd in range(rounds):
        db, Dept, Course, Lesson, Tag = schema3()
        ents = {'Dept': Dept, 'Course': Course, 'Lesson': Lesson, 'Tag': Tag}
        with db_session:
            fill3(rng, Dept, Course, Lesson, Tag)
        with db_session:
            objs = {n: list(E_.select()) for n, E_ in ents.items()}
            ns = dict(ents); ns.update(select=select, len=len)
            def check(qsrc, exp_list, forms, tag):
                exp = sorted(canon2(list(set(exp_list))), key=repr)
                for form in forms:
                    ctx.case(['distinct', tag, form, qsrc, rd], kind='distinct:' + tag)
                    try:
                        q = eval(qsrc, ns) if form == 'generator' else select(re.match(r'select\((.*)\)$', qsrc, re.S).group(1), ns)
                        got = sorted(canon2(list(q)), key=repr)
                    except Exception as ex:
                        ctx.count('distinct:%s:raises:%s' % (form, type(ex).__name__)); continue
                    if got != exp:
                        dup = [g for i, g in enumerate(got) if i and got[i - 1] == g][:2]
                        ctx.violation('a projection returns duplicates / other rows than the set of the Python tuples (%s form)' % form,
                                      {'query': qsrc, 'form': form, 'rows in table': {k: len(v) for k, v in objs.items()}},
                                      observed={'rows': len(got), 'duplicates': dup, 'sql': q.get_sql().split('\n')[0]}, expected={'rows': len(exp)},
                                      key='projection-set-semantics:%s' % re.sub(r'\s+', ' ', qsrc))
                    yield form, q
            for ename, (var, pk, items) in ent_items.items():
                subsets = []
                for r_ in (1, 2, 3):
                    combos = list(itertools.combinations(range(len(items)), r_))
                    subsets += combos if r_ == 1 else rng.sample(combos, min(len(combos), ctx.scale(6, 30)))
                for idxs in subsets:
                    its = [items[i] for i in idxs]
                    if rng.random() < 0.5: rng.shuffle(its)
                    cond = rng.choice(['', '', ' if %s is not None' % its[0][0]]) if its[0][2] not in (None, '*') else ''
                    elt = its[0][0] if len(its) == 1 else '(%s)' % ', '.join(i[0] for i in its)
                    qsrc = 'select(%s for %s in %s%s)' % (elt, var, ename, cond)
                    pyl = [(its[0][1](o) if len(its) == 1 else tuple(i[1](o) for i in its)) for o in objs[ename]]
                    if len(its) == 1 and its[0][2] == '*': continue        # entity query: not a projection
                    for form, q in check(qsrc, pyl, ('generator', 'string'), ename):
                        if form == 'string':
                            d_reqs.append({'op': 'distinct', 'pk': pk, 'items': [i[2] for i in its]})
                            d_meta.append((qsrc, bool(q._translator.distinct)))
            D_, C_, L_ = objs['Dept'], objs['Course'], objs['Lesson']
            for qsrc, ref in MULTI:
                for _ in check(qsrc, ref(D_, C_, L_), ('generator', 'string'), 'multi'): pass
        db.disconnect()
    if ctx.driver.ok:
        for (qsrc, real), out in zip(d_meta, ctx.driver('C01', d_reqs)):
            ctx.count('distinct:rule-correspondence-checked'); ctx.count('distinct:real-%s' % ('DISTINCT' if real else 'ALL'))
            if out.get('distinct') != real:
                ctx.divergence('model DISTINCT inference differs from translator.distinct', {'query': qsrc}, model=out.get('distinct'), impl=real)


def run_subquery_null_witness(ctx):
    """`x not in (<subquery>)` where the subquery's value is an attribute reached through an OPTIONAL reference: the value is missing
    when the reference is, but AttrMonad.nullable only looks at the attribute, so no IS NOT NULL guard is added (NOT IN over NULL)"""
    db = Database()
    class Grp(db.Entity):
        students = Set('Stu')
    class Stu(db.Entity):
        group = Optional(Grp)
    db.bind('sqlite', ':memory:'); db.generate_mapping(create_tables=True)
    with db_session:
        g1 = Grp(); g2 = Grp(); Stu(group=g1); Stu()
    key = 'not-in-subquery-attribute-through-optional-reference'
    ctx.case(['witness', key], kind='witness')
    with db_session:
        ns = dict(Grp=Grp, Stu=Stu, select=select)
        got = sorted(eval('select(g.id for g in Grp if g.id not in (s.group.id for s in Stu))', ns))
        same = sorted(g.id for g in eval('select(g for g in Grp if g not in (s.group for s in Stu))', ns))
        exp = sorted(g.id for g in Grp.select() if g.id not in [s.group.id for s in Stu.select() if s.group is not None])
    if got != exp:
        ctx.violation('NOT IN over a subquery whose value goes through an optional reference returns no rows when one reference is missing',
                      {'query': 'select(g.id for g in Grp if g.id not in (s.group.id for s in Stu))', 'data': 'Grp 1, 2; Stu(group=Grp[1]); Stu(group=None)',
                       'the same query on objects (g not in (s.group for s in Stu))': same},
                      observed=got, expected=exp, key=key)
    else: ctx.count('witness-no-longer-fails:' + key)
    db.disconnect()


# ---------------------------------------------------------------- string indexing / slicing by column expressions, every query form

def run_string_index(ctx, n):
    """`w.text[<int expression>]` and slices on real SQLite in projection, generator filter, Entity.select(lambda), .filter(lambda)
    and truth-test position; rows where the index is exactly 0, -1, len-1, len, -len.  Python raises IndexError out of range
    (SQL substr gives ''): those rows are compared only between forms, not with Python."""
    rng = ctx.rng
    db = Database()
    class W(db.Entity):
        id = PrimaryKey(int)
        text = Required(str, autostrip=False)
        pos = Required(int)
        k = Required(int)
    db.bind('sqlite', ':memory:'); db.generate_mapping(create_tables=True)
    texts = ['a', 'ab', 'Ann', 'abcdef', 'xyz', 'hello', 'q']
    rows = []
    for i in range(ctx.scale(16, 40)):
        t = rng.choice(texts)
        rows.append({'id': i + 1, 'text': t, 'pos': rng.choice([0, 0, 1, -1, len(t) - 1, len(t), -len(t), 2, -2]), 'k': rng.choice([0, 1, 1, 2, len(t), -1])})
    rows.append({'id': len(rows) + 1, 'text': 'abc', 'pos': 0, 'k': 3}); rows.append({'id': len(rows) + 1, 'text': 'xy', 'pos': 1, 'k': 1})
    with db_session:
        for r in rows: W(**r)
    idx = [('w.pos', lambda r: r['pos']), ('w.pos - 1', lambda r: r['pos'] - 1), ('w.pos + 1', lambda r: r['pos'] + 1), ('w.k - w.pos', lambda r: r['k'] - r['pos']),
           ('len(w.text) - w.k', lambda r: len(r['text']) - r['k']), ('w.pos - w.k', lambda r: r['pos'] - r['k']), ('w.k', lambda r: r['k']), ('0', lambda r: 0), ('pv', None)]
    with db_session:
        for _ in range(n):
            pv = rng.choice([0, -1, 1, 2])
            a = rng.choice(idx); b = rng.choice(idx)
            fa = a[1] or (lambda r: pv); fb = b[1] or (lambda r: pv)
            shape = rng.choice(['index', 'index', 'index', 'slice', 'start', 'stop'])
            if shape == 'index': src = 'w.text[%s]' % a[0]; pyf = lambda r: r['text'][fa(r)]
            elif shape == 'slice': src = 'w.text[%s:%s]' % (a[0], b[0]); pyf = lambda r: r['text'][fa(r):fb(r)]
            elif shape == 'start': src = 'w.text[%s:]' % a[0]; pyf = lambda r: r['text'][fa(r):]
            else: src = 'w.text[:%s]' % b[0]; pyf = lambda r: r['text'][:fb(r)]
            if shape != 'index' and src.endswith(':-1]'): continue          # known: slice-stop-const-minus-one
            if shape in ('slice', 'stop') and b[0] == 'pv' and pv == -1 and (shape == 'stop' or (a[0] in ('0', 'pv') and fa(rows[0]) == 0)): continue
            vals = {}
            for r in rows:
                try: vals[r['id']] = pyf(r)
                except IndexError: vals[r['id']] = IndexError
            inrange = [i for i, v in vals.items() if v is not IndexError]
            ch = rng.choice([v for v in vals.values() if v is not IndexError and v] or ['a'])
            G = dict(W=W, select=select, pv=pv, ch=ch, len=len)
            forms = [
                ('projection', 'select((w.id, %s) for w in W)' % src, lambda: sorted((i, vals[i]) for i in inrange)),
                ('filter', 'select(w.id for w in W if %s == ch)' % src, lambda: sorted(i for i in inrange if vals[i] == ch)),
                ('lambda', 'W.select(lambda w: %s == ch)' % src, lambda: sorted(i for i in inrange if vals[i] == ch)),
                ('filter-lambda', 'W.select().filter(lambda w: %s != ch)' % src, lambda: sorted(i for i in inrange if vals[i] != ch)),
                ('truth-test', 'select(w.id for w in W if %s)' % src, lambda: sorted(i for i in inrange if vals[i])),
                ('string', "select('w.id for w in W if not %s')" % src, lambda: sorted(i for i in inrange if not vals[i])),
            ]
            ctx.count('strindex:shape:' + shape)
            for form, qsrc, ref in forms:
                ctx.case(['strindex', form, src, pv, ch], kind='strindex:' + form)
                try:
                    res = list(eval(qsrc, G))
                except Exception as ex:
                    ctx.count('strindex:%s:raises:%s' % (form, type(ex).__name__)); continue
                if form == 'projection': got = sorted((i, v) for i, v in res if i in inrange)
                else: got = sorted((x.id if hasattr(x, 'id') else x) for x in res if (x.id if hasattr(x, 'id') else x) in inrange)
                exp = ref()
                if got != exp:
                    bad = [x for x in got if x not in exp] + [x for x in exp if x not in got]
                    rid = bad[0][0] if isinstance(bad[0], tuple) else bad[0]
                    ctx.violation('a string index / slice by a column expression gives something else than Python (%s)' % form,
                                  {'query': qsrc, 'pv': pv, 'ch': ch, 'row': rows[rid - 1], 'index value': (fa(rows[rid - 1]), fb(rows[rid - 1]))},
                                  observed=[x for x in got if x not in exp][:3], expected=[x for x in exp if x not in got][:3],
                                  key='string-index-expression:%s:%s' % (form, src))
    db.disconnect()


# ---------------------------------------------------------------- count() of composite-key entities through link rows; inheritance; tuples

def run_relational(ctx, rounds):
    rng = ctx.rng
    for rd in range(rounds):
        db = Database()
        class Grp(db.Entity):
            id = PrimaryKey(int)
            pupils = Set('Pupil')
        class Crs(db.Entity):
            name = Required(str)
            sem = Required(int)
            PrimaryKey(name, sem)
            pupils = Set('Pupil')
            lessons = Set('Lsn')
        class Pupil(db.Entity):
            id = PrimaryKey(int)
            a = Required(int)
            b = Required(int)
            grp = Required(Grp)
            courses = Set(Crs)
            tutor = Optional('Tutor')
        class Tutor(db.Entity):
            id = PrimaryKey(int)
            pupils = Set(Pupil)
        class Lsn(db.Entity):
            id = PrimaryKey(int)
            course = Required(Crs)
            room = Required(int)
        # inheritance
        class Person(db.Entity):
            _discriminator_ = 'P'
            kind = core.Discriminator(str)
            name = Required(str)
            messages = Set('Msg')
        class Stud(Person):
            _discriminator_ = 'S'
        class Grad(Stud):
            _discriminator_ = 'G'
        class Teach(Person):
            _discriminator_ = 'T'
        class Msg(db.Entity):
            text = Required(str)
            author = Required(Person)
        db.bind('sqlite', ':memory:'); db.generate_mapping(create_tables=True)
        with db_session:
            grps = [Grp(id=i) for i in (1, 2, 3)]
            crs = [Crs(name=n_, sem=s_) for n_, s_ in rng.sample([('a', 1), ('a', 2), ('b', 1), ('b', 2), ('c', 1)], rng.choice([2, 3, 5]))]
            tutors = [Tutor(id=i) for i in (1, 2)]
            for i in range(rng.choice([3, 5, 8])):
                Pupil(id=i + 1, a=rng.choice([0, 1, 1, 2]), b=rng.choice([0, 3, 4, 5, 9]), grp=rng.choice(grps[:2]),
                      courses=rng.sample(crs, rng.randint(1, len(crs))), tutor=rng.choice([None, None, tutors[0], tutors[1]]))
            for i in range(rng.choice([3, 6, 9])):
                Lsn(id=i + 1, course=rng.choice(crs[:2]), room=rng.choice([1, 1, 2]))
            for i, cls in enumerate([Person, Stud, Grad, Teach, Stud, Person][:rng.choice([4, 6])]):
                x = cls(name='n%d' % i); Msg(text='m%d' % i, author=x)
        with db_session:
            P_, G_, C_, L_, T_ = Pupil.select()[:], Grp.select()[:], Crs.select()[:], Lsn.select()[:], Tutor.select()[:]
            people, msgs = Person.select()[:], Msg.select()[:]
            x1 = rng.choice([0, 1, 2]); y1 = rng.choice([0, 3, 4, 5])
            ns = dict(Grp=Grp, Crs=Crs, Pupil=Pupil, Lsn=Lsn, Tutor=Tutor, Person=Person, Stud=Stud, Grad=Grad, Teach=Teach, Msg=Msg,
                      select=select, count=count, exists=exists, x1=x1, y1=y1)
            rooms = {}
            for l in L_: rooms.setdefault(l.room, set()).add(l.course)
            Q_ = [
                # count() of an entity with a composite key reached through several link rows of one group
                ('count-composite-through-m2m', "select((g.id, count(c)) for g in Grp for p in g.pupils for c in p.courses)",
                 lambda: [(g.id, len({c for p in g.pupils for c in p.courses})) for g in G_ if any(p.courses for p in g.pupils)]),
                ('count-composite-through-fk', "select((l.room, count(l.course)) for l in Lsn)", lambda: [(room, len(cs)) for room, cs in rooms.items()]),
                ('count-composite-per-pupil', "select((p.id, count(c)) for p in Pupil for c in p.courses)", lambda: [(p.id, len(p.courses)) for p in P_ if p.courses]),
                ('count-composite-collection', "select((g.id, count(g.pupils.courses)) for g in Grp)", lambda: [(g.id, len({c for p in g.pupils for c in p.courses})) for g in G_]),
                ('count-pupils-of-course', "select((c.name, c.sem, count(c.pupils)) for c in Crs)", lambda: [(c.name, c.sem, len(c.pupils)) for c in C_]),
                # tuple comparisons
                ('tuple-le', "select(p.id for p in Pupil if (p.a, p.b) <= (x1, y1))", lambda: [p.id for p in P_ if (p.a, p.b) <= (x1, y1)]),
                ('tuple-ge', "select(p.id for p in Pupil if (p.a, p.b) >= (x1, y1))", lambda: [p.id for p in P_ if (p.a, p.b) >= (x1, y1)]),
                ('tuple-lt', "select(p.id for p in Pupil if (p.a, p.b) < (x1, y1))", lambda: [p.id for p in P_ if (p.a, p.b) < (x1, y1)]),
                ('tuple-gt', "select(p.id for p in Pupil if (p.a, p.b, p.id) > (x1, y1, 2))", lambda: [p.id for p in P_ if (p.a, p.b, p.id) > (x1, y1, 2)]),
                ('tuple3-le', "select(p.id for p in Pupil if (p.a, p.b, p.id) <= (x1, y1, 3))", lambda: [p.id for p in P_ if (p.a, p.b, p.id) <= (x1, y1, 3)]),
                ('tuple3-ge', "select(p.id for p in Pupil if (p.b, p.a, p.id) >= (y1, x1, 2))", lambda: [p.id for p in P_ if (p.b, p.a, p.id) >= (y1, x1, 2)]),
                ('tuple4-lt', "select(p.id for p in Pupil if (p.a, p.a, p.b, p.id) < (x1, p.a, y1, 4))", lambda: [p.id for p in P_ if (p.a, p.a, p.b, p.id) < (x1, p.a, y1, 4)]),
                ('tuple-eq', "select(p.id for p in Pupil if (p.a, p.b) == (x1, y1))", lambda: [p.id for p in P_ if (p.a, p.b) == (x1, y1)]),
                ('tuple-ne', "select(p.id for p in Pupil if (p.a, p.b) != (x1, y1))", lambda: [p.id for p in P_ if (p.a, p.b) != (x1, y1)]),
                # membership in a collection of optional references
                ('not-in-collection-optional-ref', "select((g.id, t.id) for g in Grp for t in Tutor if t not in g.pupils.tutor)",
                 lambda: [(g.id, t.id) for g in G_ for t in T_ if t not in [p.tutor for p in g.pupils]]),
                ('in-collection-optional-ref', "select((g.id, t.id) for g in Grp for t in Tutor if t in g.pupils.tutor)",
                 lambda: [(g.id, t.id) for g in G_ for t in T_ if t in [p.tutor for p in g.pupils]]),
                # inheritance: a subclass queried with Entity.select / exists(lambda) nested in another query
                ('subclass-exists-lambda', "select(m.text for m in Msg if Stud.exists(lambda s: s == m.author))", lambda: [m.text for m in msgs if isinstance(m.author, Stud)]),
                ('subclass-exists-lambda-pk', "select(m.text for m in Msg if Stud.exists(lambda s: s.id == m.author.id))", lambda: [m.text for m in msgs if isinstance(m.author, Stud)]),
                ('subclass-exists-generator', "select(m.text for m in Msg if exists(s for s in Stud if s == m.author))", lambda: [m.text for m in msgs if isinstance(m.author, Stud)]),
                ('in-subclass-select-lambda', "select(x.name for x in Person if x in Stud.select(lambda s: True))", lambda: [x.name for x in people if isinstance(x, Stud)]),
                ('in-subsubclass-select-lambda', "select(x.name for x in Person if x in Grad.select(lambda s: s.id > 0))", lambda: [x.name for x in people if isinstance(x, Grad)]),
                ('subclass-select', "select(s.name for s in Teach)", lambda: [x.name for x in people if isinstance(x, Teach)]),
                ('author-of-subclass', "select(m.text for m in Msg if m.author in select(t for t in Teach))", lambda: [m.text for m in msgs if isinstance(m.author, Teach)]),
            ]
            for tid, qsrc, ref in Q_:
                ctx.case(['relational', tid, rd, x1, y1], kind='relational:' + tid)
                try: got = sorted(canon2(list(eval(qsrc, ns))), key=repr)
                except Exception as ex:
                    ctx.count('relational:%s:raises:%s' % (tid, type(ex).__name__)); continue
                exp = sorted(canon2(list(set(ref()))), key=repr)
                if got != exp:
                    ctx.violation('query returns something else than the Python evaluation (%s)' % tid,
                                  {'query': qsrc, 'x1': x1, 'y1': y1, 'pupils (id, a, b, grp, courses, tutor)': [(p.id, p.a, p.b, p.grp.id, sorted(c.get_pk() for c in p.courses), p.tutor and p.tutor.id) for p in P_][:8],
                                   'lessons (room, course)': [(l.room, l.course.get_pk()) for l in L_][:9], 'people': [(x.name, type(x).__name__) for x in people]},
                                  observed=[g for g in got if g not in exp][:4] or {'rows': len(got)}, expected=[x for x in exp if x not in got][:4] or {'rows': len(exp)},
                                  key=KNOWN_RELATIONAL_KEYS.get(tid, 'relational:' + tid))
        db.disconnect()


KNOWN_RELATIONAL_KEYS = {'tuple-le': 'tuple-comparison-le-ge-first-component-not-strict', 'tuple-ge': 'tuple-comparison-le-ge-first-component-not-strict',
                         'not-in-collection-optional-ref': 'not-in-collection-of-optional-references-with-null'}


def run_tuple_and_refset_witnesses(ctx):
    """fixed data for the two defects found by the relational stream"""
    db = Database()
    class WG(db.Entity):
        members = Set('WS')
    class WT(db.Entity):
        mentees = Set('WS')
    class WS(db.Entity):
        a = Required(int); b = Required(int)
        group = Required(WG)
        tutor = Optional(WT)
    db.bind('sqlite', ':memory:'); db.generate_mapping(create_tables=True)
    with db_session:
        g = WG(); g2 = WG(); t1 = WT(); t2 = WT()
        WS(a=1, b=5, group=g, tutor=t1); WS(a=1, b=3, group=g); WS(a=0, b=9, group=g2, tutor=t1); WS(a=2, b=0, group=g2, tutor=t1)
    with db_session:
        ns = dict(WG=WG, WT=WT, WS=WS, select=select)
        S_ = WS.select()[:]
        for key, q, exp in [
            ('tuple-comparison-le-ge-first-component-not-strict', 'select(s.id for s in WS if (s.a, s.b) <= (1, 3))', [s.id for s in S_ if (s.a, s.b) <= (1, 3)]),
            ('tuple-comparison-le-ge-first-component-not-strict', 'select(s.id for s in WS if (s.a, s.b) >= (1, 4))', [s.id for s in S_ if (s.a, s.b) >= (1, 4)]),
            ('tuple-comparison-three-components', 'select(s.id for s in WS if (s.a, s.b, s.id) <= (1, 0, 9))', [s.id for s in S_ if (s.a, s.b, s.id) <= (1, 0, 9)]),
            ('tuple-comparison-three-components', 'select(s.id for s in WS if (s.a, s.b, s.id) > (1, 5, 0))', [s.id for s in S_ if (s.a, s.b, s.id) > (1, 5, 0)]),
            ('tuple-comparison-three-components', 'select(s.id for s in WS if (s.id, s.a, s.b, s.a) >= (s.id, 0, 9, 1))', [s.id for s in S_ if (s.id, s.a, s.b, s.a) >= (s.id, 0, 9, 1)]),
            ('not-in-collection-of-optional-references-with-null', 'select((g.id, t.id) for g in WG for t in WT if t not in g.members.tutor)',
             [(g_.id, t_.id) for g_ in WG.select() for t_ in WT.select() if t_ not in [s.tutor for s in g_.members]])]:
            ctx.case(['witness', key, q], kind='witness')
            got = sorted(eval(q, ns)[:])
            if got != sorted(exp):
                ctx.violation('query returns something else than the Python evaluation', {'query': q, 'rows (a, b, group, tutor)': [(s.a, s.b, s.group.id, s.tutor and s.tutor.id) for s in S_]},
                              observed=got, expected=sorted(exp), key=key)
            else: ctx.count('witness-no-longer-fails:' + key)
    db.disconnect()


def run_subquery_nulls(ctx, rounds):
    """IN / NOT IN over a sub-select with NULLs and aggregates with NULLs on real SQLite vs the proved model (Model/Subquery.lean):
    the IS NOT NULL guard is emitted exactly where `needsGuard` says, rows selected = sqlIn / sqlNotIn on the (guarded) values,
    sum / count / min / max = ponySum / sqlCount / sqlMin / sqlMax"""
    rng = ctx.rng
    reqs, meta = [], []
    for rd in range(rounds):
        db = Database()
        class A(db.Entity):
            v = Required(int)
        class R(db.Entity):
            bs = Set('B')
        class B(db.Entity):
            n = Optional(int)
            r = Required(int)
            ref = Optional(R)
        db.bind('sqlite', ':memory:'); db.generate_mapping(create_tables=True)
        with db_session:
            for v in rng.sample([0, 1, 2, 3, 5], 4): A(v=v)
            rs = [R() for _ in range(3)]
            for _ in range(rng.choice([0, 2, 4, 6])):
                B(n=rng.choice([None, None, 0, 1, 2, 3]), r=rng.choice([0, 1, 2, 5]), ref=rng.choice([None, rs[0], rs[1]]))
        with db_session:
            A_, B_ = A.select()[:], B.select()[:]
            ns = dict(A=A, B=B, R=R, select=select, count=count, sum=psum, min=pmin, max=pmax)
            shapes = [   # (sub-select expression, values, nullable flag of the selected monad)
                ('b.n', [b.n for b in B_], True), ('b.r', [b.r for b in B_], False), ('b.ref.id', [b.ref.id if b.ref else None for b in B_], True),
                ('b.n + 1', [None if b.n is None else b.n + 1 for b in B_], True)]
            for sub, vals, flag in shapes:
                for notin in (False, True):
                    qsrc = 'select(a.v for a in A if a.v %s (%s for b in B))' % ('not in' if notin else 'in', sub)
                    ctx.case(['subq', qsrc, rd], kind='subq:' + ('not-in' if notin else 'in'))
                    q = eval(qsrc, ns); sql = q.get_sql()
                    guard = 'IS NOT NULL' in sql
                    if guard != (notin and flag):
                        ctx.divergence('the IS NOT NULL guard of a sub-select is not where the model rule (needsGuard) puts it', {'query': qsrc}, model=(notin and flag), impl=sql)
                    got = sorted(q[:])
                    for a in A_:
                        reqs.append({'op': 'subq', 'v': a.v, 'vals': vals, 'guard': guard}); meta.append((qsrc, a.v, vals, notin, a.v in got))
            # aggregates with NULLs
            vals = [b.n for b in B_]
            real = {'sum': eval('select(sum(b.n) for b in B)', ns).first(), 'count': eval('select(count(b.n) for b in B)', ns).first(),
                    'min': eval('select(min(b.n) for b in B)', ns).first(), 'max': eval('select(max(b.n) for b in B)', ns).first()}
            ctx.case(['agg', vals, rd], kind='subq:aggregates')
            present = [x for x in vals if x is not None]
            pyagg = {'sum': sum(present), 'count': len(set(present)), 'min': min(present) if present else None, 'max': max(present) if present else None}
            reqs.append({'op': 'subq', 'v': 0, 'vals': vals, 'guard': False}); meta.append(('agg', real, vals, pyagg, None))
        db.disconnect()
    if not ctx.driver.ok: return
    for m, out in zip(meta, ctx.driver('C01', reqs)):
        if m[0] == 'agg':
            _, real, vals, pyagg, _ = m
            # count(b.n) is COUNT(DISTINCT n) in Pony: compare with Python's distinct count; the model's sqlCount is the plain COUNT
            model = {'sum': out['sum'], 'min': out['min'], 'max': out['max']}
            for k in ('sum', 'min', 'max'):
                if not (model[k] == real[k] == pyagg[k]):
                    ctx.violation('aggregate over values with NULLs: SQLite, the model and Python disagree', {'aggregate': k, 'values': vals}, observed={'sqlite': real[k], 'model': model[k]}, expected=pyagg[k], key='aggregate-null:' + k)
            if real['count'] != pyagg['count']:
                ctx.violation('count(b.n) differs from the number of distinct present values', {'values': vals}, observed=real['count'], expected=pyagg['count'], key='aggregate-null:count')
            ctx.count('subq:aggregates-compared')
        else:
            qsrc, v, vals, notin, selected = m
            k = out['notin' if notin else 'in']
            present = [x for x in vals if x is not None]
            py = (v not in present) if notin else (v in present)
            ctx.count('subq:rows-compared')
            if (k == 'tt') != selected:
                ctx.divergence('model sqlIn / sqlNotIn differs from real SQLite', {'query': qsrc, 'v': v, 'values': vals}, model=k, impl=selected)
            if selected != py:
                ctx.violation('membership in a sub-select with missing values differs from Python', {'query': qsrc, 'v': v, 'values of the sub-select': vals},
                              observed=selected, expected=py, key='subquery-null:' + qsrc)


# ---------------------------------------------------------------- correlated EXISTS / NOT EXISTS / COUNT over a collection (Model/QRel.lean)

def inner_key(e, src, params, form, rows_for_semantics=None):
    """canonical class of a failing INNER condition: in the generator form the condition reaches the translator as the decompiler
    rewrote it (`not (x in s)` arrives as `x not in s`, …) — classify on that expression"""
    tex = None
    if form == 'generator':
        try:
            from pony.orm.decompiling import decompile
            tex = Q.expr_of_ast(decompile(eval('lambda e: %s' % src, dict(params)))[0])
        except Exception:
            tex = None
    changed = False
    if tex is not None and rows_for_semantics:
        changed = any(Q.as_k(Q.py_eval(tex, r, params)) != Q.as_k(Q.py_eval(e, r, params)) for r in rows_for_semantics)
    return classify(e, form if form == 'generator' else 'string', changed, tex)


def run_exists(ctx, n_exprs):
    """`exists(e for e in p.es if COND)`, `not exists(…)`, `count(e for e in p.es if COND) == k` with COND from the fragment generator
    over the child entity E (reference `parent` may be NULL): (1) the real EXISTS node is decoded and its inner conditions submitted
    to the verified checker (op checkexists; C01_exists_collection / C01_not_exists_collection / C01_count_collection);
    (2) parents returned vs Python `any(...)` / `len([...])` under the reading `py`; (3) the model sub-select vs real SQLite."""
    rng = ctx.rng
    db = Database()
    class P(db.Entity):
        es = Set('E')
    class E(db.Entity):
        a = Required(int); c = Required(int); n = Optional(int); m = Optional(int)
        b = Required(bool); nb = Optional(bool)
        s = Required(str); t = Optional(str); ns = Optional(str, nullable=True)
        parent = Optional(P)
    db.bind('sqlite', ':memory:'); db.generate_mapping(create_tables=True)
    rows = [Q.random_row(rng) for _ in range(ctx.scale(14, 30))]
    fks = [rng.choice([None, 1, 1, 2, 3]) for _ in rows]
    with db_session:
        ps = [P() for _ in range(4)]           # parent 4 has no children
        for r, fk in zip(rows, fks):
            E(parent=(ps[fk - 1] if fk else None), **{k: v for k, v in r.items() if v is not None})
    gen = Q.Gen(rng, 'frag'); sch = Q.schema_json()
    ck_reqs, ck_meta, ev_reqs, ev_meta = [], [], [], []
    with db_session:
        for _ in range(n_exprs):
            e = gen.expr(rng.choice([1, 2, 2, 3]))
            params = Q.random_params(rng); src = Q.src(e)
            G = dict(params); G.update(P=P, E=E, select=select, exists=exists, count=count)
            sel = [Q.as_k(Q.py_eval(e, r, params)) == Q.TT for r in rows]
            cnt = {pk: sum(1 for ok, fk in zip(sel, fks) if ok and fk == pk) for pk in (1, 2, 3, 4)}
            k = rng.choice([0, 1, 2])
            variants = [('exists', 'p.id for p in P if exists(e for e in p.es if %s)' % src, sorted(pk for pk in cnt if cnt[pk] > 0)),
                        ('not-exists', 'p.id for p in P if not exists(e for e in p.es if %s)' % src, sorted(pk for pk in cnt if cnt[pk] == 0)),
                        ('count', 'p.id for p in P if count(e for e in p.es if %s) == %d' % (src, k), sorted(pk for pk in cnt if cnt[pk] == k))]
            for kind, qsrc, exp in variants:
                for form in ('string', 'generator'):
                    ctx.case(['exists', kind, form, src], kind='exists:%s:%s' % (kind, form))
                    try:
                        q = select(qsrc, G) if form == 'string' else eval('select(%s)' % qsrc, G)
                        got = sorted(q[:])
                    except Exception as ex:
                        ctx.count('exists:%s:raises:%s' % (form, type(ex).__name__)); continue
                    if got != exp:
                        small = e
                        ctx.violation('parents returned by a query with a correlated sub-query over a collection differ from Python (%s, %s form)' % (kind, form),
                                      {'query': 'select(%s)' % qsrc, 'params': {x: params[x] for x in params if x in src}, 'children (parent, row)': [(fk, {a: r[a] for a in sorted({s_[1] for s_ in Q.subexprs(e) if s_[0] == 'attr'})}) for fk, r in zip(fks, rows)][:8]},
                                      observed=got, expected=exp, key=(inner_key(e, src, params, form, rows) or 'exists:%s:%s:%s' % (kind, form, json.dumps(Q.to_json(Q.canon_atoms(e))))))
                    if form == 'string' and kind in ('exists', 'not-exists'):
                        ast_ = Q.norm_ast(q._translator.conditions)
                        if len(ast_) == 1:
                            ck_reqs.append({'op': 'checkexists', 'dialect': 'sqlite', 'schema': sch, 'expr': Q.to_json(e), 'ast': ast_[0], 'parent': 'p', 'child': 'e', 'pk': 'id', 'fk': 'parent'})
                            ck_meta.append((qsrc, kind))
                            if kind == 'exists':
                                conds = ast_[0][2][2:]
                                ev_reqs.append({'op': 'evalexists', 'dialect': 'sqlite', 'sql': conds, 'params': params, 'rows': [dict(r, fk=fk) for r, fk in zip(rows, fks)], 'pks': [1, 2, 3, 4]})
                                ev_meta.append((qsrc, got, cnt))
                        else: ctx.count('exists:unexpected-number-of-conditions')
    db.disconnect()
    if not ctx.driver.ok: return
    for (qsrc, kind), out in zip(ck_meta, ctx.driver('C01', ck_reqs)):
        if out.get('accepted') and out.get('negated') == (kind == 'not-exists'): ctx.count('exists:checker-accepted')
        elif out.get('frag'):
            ctx.divergence('the verified checker rejects the correlated sub-query the real translator emitted', {'query': qsrc}, model=out, impl=None)
        else: ctx.count('exists:checker-not-applicable(outside fragment)')
    for (qsrc, got, cnt), out in zip(ev_meta, ctx.driver('C01', ev_reqs)):
        if 'ok' not in out or 'err' in out['ok']: ctx.count('exists:model-evaluation-error'); continue
        ctx.count('exists:model-vs-sqlite')
        model = sorted(pk for pk, o in zip((1, 2, 3, 4), out['ok']) if o['exists'])
        if model != got:
            ctx.divergence('model semantics of the correlated sub-select differs from real SQLite', {'query': qsrc}, model=model, impl=got)


class JoinGen(Q.Gen):
    """fragment generator that also reads attributes of the referenced parent (`e.parent.k`, `e.parent.kn`, `e.parent.nm`)"""
    def leaf(self, ty, want_attr=False):
        r = self.rng
        if r.random() < 0.3:
            if ty == 'int': return ('attr', r.choice(['parent.k', 'parent.kn']))
            if ty == 'str': return ('attr', 'parent.nm')
        return Q.Gen.leaf(self, ty, want_attr)


PARENT_ATTRS = {'parent.k': ('int', False), 'parent.kn': ('int', True), 'parent.nm': ('str', False)}


def run_joins(ctx, n_exprs):
    """conditions that navigate through a to-one reference: `e.parent.<attr>` (REQUIRED reference) and `e.op.<attr>` (OPTIONAL):
    the real conditions go to the verified checker with the parent's columns read as attributes of the joined row (op checkjoin;
    C01_join, C01_join_required); rows returned vs the theorem's statement: reference present AND Python reading true.  For the
    optional reference the rows Python would additionally select are the known finding optional-reference-navigation-inner-join-drops-rows."""
    rng = ctx.rng
    Q.ATTRS.update(PARENT_ATTRS)
    db = Database()
    class P(db.Entity):
        k = Required(int); kn = Optional(int); nm = Required(str)
        es = Set('E', reverse='parent'); os = Set('E', reverse='op')
    class E(db.Entity):
        a = Required(int); c = Required(int); n = Optional(int); m = Optional(int)
        b = Required(bool); nb = Optional(bool)
        s = Required(str); t = Optional(str); ns = Optional(str, nullable=True)
        parent = Required(P, reverse='es')
        op = Optional(P, reverse='os')
    db.bind('sqlite', ':memory:'); db.generate_mapping(create_tables=True)
    prow = [{'k': 0, 'kn': None, 'nm': 'a'}, {'k': 2, 'kn': 1, 'nm': 'ab'}, {'k': -1, 'kn': 0, 'nm': 'b%'}]
    base = [Q.random_row(rng) for _ in range(ctx.scale(14, 30))]
    par = [rng.choice([0, 1, 2]) for _ in base]; opt = [rng.choice([None, None, 0, 1, 2]) for _ in base]
    with db_session:
        ps = [P(**{k: v for k, v in r.items() if v is not None}) for r in prow]
        for r, i, o in zip(base, par, opt):
            E(parent=ps[i], op=(ps[o] if o is not None else None), **{k: v for k, v in r.items() if v is not None})
    def joined(r, i):
        d = dict(r)
        for k in ('k', 'kn', 'nm'): d['parent.' + k] = prow[i][k] if i is not None else None
        return d
    sch = Q.schema_json(); sch['attrs'].update({k: [v[0], v[1]] for k, v in PARENT_ATTRS.items()})
    gen = JoinGen(rng, 'frag')
    ck_reqs, ck_meta = [], []
    with db_session:
        for _ in range(n_exprs):
            for _t in range(30):
                e = gen.expr(rng.choice([1, 2, 2, 3]))
                if any(x[0] == 'attr' and x[1].startswith('parent.') for x in Q.subexprs(e)): break
            else: continue
            params = Q.random_params(rng); src = Q.src(e)
            G = dict(params); G.update(P=P, E=E, select=select)
            for ref, links in (('parent', par), ('op', opt)):
                qsrc = 'e.id for e in E if ' + src.replace('e.parent.', 'e.%s.' % ref)
                rows_j = [joined(r, i) for r, i in zip(base, links)]
                exp = [n + 1 for n, (r, i) in enumerate(zip(rows_j, links)) if i is not None and Q.as_k(Q.py_eval(e, r, params)) == Q.TT]
                dropped = [n + 1 for n, (r, i) in enumerate(zip(rows_j, links)) if i is None and Q.as_k(Q.py_eval(e, r, params)) == Q.TT]
                for form in ('string', 'generator'):
                    ctx.case(['join', ref, form, src], kind='join:%s:%s' % (ref, form))
                    try:
                        q = select(qsrc, G) if form == 'string' else eval('select(%s)' % qsrc, G)
                        got = sorted(q[:])
                    except Exception as ex:
                        ctx.count('join:%s:raises:%s' % (form, type(ex).__name__)); continue
                    if got != exp:
                        ctx.violation('a condition that navigates through a to-one reference returns other rows than Python on the rows whose reference is present (%s, %s form)' % (ref, form),
                                      {'query': 'select(%s)' % qsrc, 'params': {x: params[x] for x in params if x in src}}, observed=got, expected=exp,
                                      key=(inner_key(e, src, params, form, rows_j) or 'join:%s:%s:%s' % (ref, form, json.dumps(Q.to_json(Q.canon_atoms(e))))))
                    if dropped: ctx.count('join:optional-reference:rows-python-would-also-select(known finding)')
                    if form == 'string':
                        sch_r = sch if ref == 'parent' else dict(sch, attrs=dict(sch['attrs'], **{k_: [v_[0], True] for k_, v_ in PARENT_ATTRS.items()}))   # through an optional reference every attribute may be missing (26b85c0)
                        ck_reqs.append({'op': 'checkjoin', 'dialect': 'sqlite', 'schema': sch_r, 'expr': Q.to_json(e), 'sql': Q.norm_ast(q._translator.conditions), 'child': 'e'})
                        ck_meta.append(qsrc)
    db.disconnect()
    for k in PARENT_ATTRS: Q.ATTRS.pop(k, None)
    if not ctx.driver.ok: return
    for qsrc, out in zip(ck_meta, ctx.driver('C01', ck_reqs)):
        if out.get('accepted'): ctx.count('join:checker-accepted')
        elif out.get('frag'): ctx.divergence('the verified checker rejects the conditions of a query that navigates through a reference', {'query': qsrc}, model=out, impl=None)
        else: ctx.count('join:checker-not-applicable(outside fragment)')


# ---------------------------------------------------------------- datetime / date / time columns against INLINE constants

def run_temporal(ctx, n):
    """`e.at <op> datetime(2020, 1, 1, 10, 0, 0)` etc.: constants written inline in the query (ConstMonad -> VALUE -> the literal text of
    SQLiteValue.__str__), zero and non-zero microseconds, midnight, date-only; rows exactly at, one microsecond around, and far from the
    constant; all six operators and `in` / `not in`; optional (NULL) columns; generator and string forms."""
    import datetime as dtm
    rng = ctx.rng
    db = Database()
    class TE(db.Entity):
        at = Required(dtm.datetime)
        d = Required(dtm.date)
        t = Required(dtm.time)
        oat = Optional(dtm.datetime)
    db.bind('sqlite', ':memory:'); db.generate_mapping(create_tables=True)
    DT = [dtm.datetime(2020, 1, 1, 10, 0, 0), dtm.datetime(2020, 1, 1, 10, 0, 0, 1), dtm.datetime(2020, 1, 1, 9, 59, 59, 999999), dtm.datetime(2020, 1, 1, 0, 0, 0),
          dtm.datetime(2019, 12, 31, 23, 59, 59), dtm.datetime(2020, 1, 1, 10, 0, 0, 500000), dtm.datetime(2020, 1, 2, 0, 0, 0), dtm.datetime(2021, 6, 15, 12, 30, 45, 123456)]
    TM = [dtm.time(10, 0, 0), dtm.time(10, 0, 0, 1), dtm.time(0, 0, 0), dtm.time(23, 59, 59, 999999), dtm.time(9, 59, 59)]
    rows = []
    for i, v in enumerate(DT + [rng.choice(DT) for _ in range(4)]):
        rows.append({'at': v, 'd': v.date(), 't': rng.choice(TM) if i % 2 else v.time(), 'oat': rng.choice([None, v, rng.choice(DT)])})
    with db_session:
        for r in rows: TE(**{k: v for k, v in r.items() if v is not None})
    def lit(v):
        if isinstance(v, dtm.datetime): return 'datetime(%d, %d, %d, %d, %d, %d%s)' % (v.year, v.month, v.day, v.hour, v.minute, v.second, (', %d' % v.microsecond) if v.microsecond else '')
        if isinstance(v, dtm.date): return 'date(%d, %d, %d)' % (v.year, v.month, v.day)
        return 'time(%d, %d, %d%s)' % (v.hour, v.minute, v.second, (', %d' % v.microsecond) if v.microsecond else '')
    OPS = {'==': lambda a, b: a == b, '!=': lambda a, b: a != b, '<': lambda a, b: a < b, '<=': lambda a, b: a <= b, '>': lambda a, b: a > b, '>=': lambda a, b: a >= b}
    G = dict(TE=TE, select=select, datetime=dtm.datetime, date=dtm.date, time=dtm.time)
    with db_session:
        cases = []
        for col, consts in (('at', DT), ('oat', DT), ('d', sorted({v.date() for v in DT})), ('t', TM)):
            for cst in consts:
                for op in OPS:
                    cases.append((col, op, [cst]))
                cases.append((col, 'in', [cst, rng.choice(consts)])); cases.append((col, 'not in', [cst]))
        if not ctx.thorough: cases = [c for c in cases if c[2][0] in (DT[0], DT[3], DT[1], DT[0].date(), TM[0], TM[2])] + rng.sample(cases, 40)
        for col, op, cs in cases:
            if op in OPS:
                src = 'e.%s %s %s' % (col, op, lit(cs[0]))
                exp = [i + 1 for i, r in enumerate(rows) if r[col] is not None and OPS[op](r[col], cs[0])]
            else:
                src = 'e.%s %s (%s)' % (col, op, ''.join(lit(c) + ', ' for c in cs))
                exp = [i + 1 for i, r in enumerate(rows) if r[col] is not None and ((r[col] in cs) == (op == 'in'))]
            for form in ('generator', 'string'):
                ctx.case(['temporal', form, src], kind='temporal:' + form)
                try:
                    q = eval('select(e.id for e in TE if %s)' % src, G) if form == 'generator' else select('e.id for e in TE if ' + src, G)
                    got = sorted(q[:])
                except Exception as ex:
                    ctx.count('temporal:%s:raises:%s' % (form, type(ex).__name__)); continue
                if got != exp:
                    bad = sorted(set(got) ^ set(exp))
                    ctx.violation('a date/time column compared with an inline constant returns other rows than Python (%s form)' % form,
                                  {'query': 'select(e.id for e in TE if %s)' % src, 'row': {col: str(rows[bad[0] - 1][col])}, 'sql': q.get_sql().split('WHERE')[-1].strip()},
                                  observed=got, expected=exp, key='temporal-inline-constant:%s:%s' % (col, op))
    db.disconnect()


def run_exists_m2m(ctx, n_exprs):
    """many-to-many: `exists / not exists(e for e in s.es if COND)` through a link table, COND from the fragment generator; the real
    EXISTS node is decoded (link table, join on the child's key, correlation on the parent's key) and its inner conditions go to the
    verified checker (op checkexistsm; C01_exists_m2m); parents returned vs Python any(...) over the linked children (several
    parents share a child, one parent has none)."""
    rng = ctx.rng
    db = Database()
    class S(db.Entity):
        es = Set('E')
    class E(db.Entity):
        a = Required(int); c = Required(int); n = Optional(int); m = Optional(int)
        b = Required(bool); nb = Optional(bool)
        s = Required(str); t = Optional(str); ns = Optional(str, nullable=True)
        owners = Set(S)
    db.bind('sqlite', ':memory:'); db.generate_mapping(create_tables=True)
    rows = [Q.random_row(rng) for _ in range(ctx.scale(12, 24))]
    links = [sorted(rng.sample([1, 2, 3], rng.choice([0, 1, 1, 2, 3]))) for _ in rows]
    with db_session:
        ss = [S() for _ in range(4)]
        for r, ls in zip(rows, links):
            E(owners=[ss[i - 1] for i in ls], **{k: v for k, v in r.items() if v is not None})
    gen = Q.Gen(rng, 'frag'); sch = Q.schema_json()
    reqs, meta = [], []
    with db_session:
        for _ in range(n_exprs):
            e = gen.expr(rng.choice([1, 2, 2, 3]))
            params = Q.random_params(rng); src = Q.src(e)
            G = dict(params); G.update(S=S, E=E, select=select, exists=exists)
            sel = [Q.as_k(Q.py_eval(e, r, params)) == Q.TT for r in rows]
            has = {pk: any(ok and pk in ls for ok, ls in zip(sel, links)) for pk in (1, 2, 3, 4)}
            for neg in (False, True):
                qsrc = 'x.id for x in S if %sexists(e for e in x.es if %s)' % ('not ' if neg else '', src)
                exp = sorted(pk for pk in has if has[pk] != neg)
                for form in ('string', 'generator'):
                    ctx.case(['exists-m2m', neg, form, src], kind='exists-m2m:' + form)
                    try:
                        q = select(qsrc, G) if form == 'string' else eval('select(%s)' % qsrc, G)
                        got = sorted(q[:])
                    except Exception as ex:
                        ctx.count('exists-m2m:%s:raises:%s' % (form, type(ex).__name__)); continue
                    if got != exp:
                        ctx.violation('parents returned by a query with a sub-query over a many-to-many collection differ from Python (%s form)' % form,
                                      {'query': 'select(%s)' % qsrc, 'params': {x: params[x] for x in params if x in src}, 'children (owners, row)': [(ls, {a: r[a] for a in sorted({s_[1] for s_ in Q.subexprs(e) if s_[0] == 'attr'})}) for ls, r in zip(links, rows)][:8]},
                                      observed=got, expected=exp, key=(inner_key(e, src, params, form, rows) or 'exists-m2m:%s:%s' % (form, json.dumps(Q.to_json(Q.canon_atoms(e))))))
                    if form == 'string':
                        ast_ = Q.norm_ast(q._translator.conditions)
                        if len(ast_) == 1:
                            reqs.append({'op': 'checkexistsm', 'dialect': 'sqlite', 'schema': sch, 'expr': Q.to_json(e), 'ast': ast_[0], 'parent': 'x', 'child': 'e'}); meta.append((qsrc, neg))
    db.disconnect()
    if not ctx.driver.ok: return
    for (qsrc, neg), out in zip(meta, ctx.driver('C01', reqs)):
        if out.get('accepted') and out.get('negated') == neg: ctx.count('exists-m2m:checker-accepted')
        elif out.get('frag'): ctx.divergence('the verified checker rejects the many-to-many sub-query the real translator emitted', {'query': qsrc}, model=out, impl=None)
        else: ctx.count('exists-m2m:checker-not-applicable(outside fragment)')


def run_optional_ref_witness(ctx):
    """navigation through an OPTIONAL reference adds an inner join that drops every row whose reference is missing"""
    db = Database()
    class NP(db.Entity):
        k = Required(int)
        es = Set('NE')
    class NE(db.Entity):
        op = Optional(NP)
    db.bind('sqlite', ':memory:'); db.generate_mapping(create_tables=True)
    with db_session:
        p_ = NP(k=2); NE(op=p_); NE(); NE()
    key = 'optional-reference-navigation-inner-join-drops-rows'
    ctx.case(['witness', key], kind='witness')
    with db_session:
        ns = dict(NP=NP, NE=NE, select=select)
        got = sorted(o.id for o in eval('select(e for e in NE if e.op is None or e.op.k > 1)', ns))
        exp = sorted(o.id for o in NE.select() if o.op is None or o.op.k > 1)
        # control: the same query on a REQUIRED-like data set (every reference present) is right
    if got != exp:
        ctx.violation('a condition that navigates through an optional reference loses the rows whose reference is missing',
                      {'query': 'select(e for e in NE if e.op is None or e.op.k > 1)', 'data': 'NP(k=2); NE(op=NP[1]); NE(); NE()'}, observed=got, expected=exp, key=key)
    else: ctx.count('witness-no-longer-fails:' + key)
    db.disconnect()


# ---------------------------------------------------------------- references inside a composite primary key

KEYREF_COMPONENTS = {
    # name -> (declaration in K, number of key columns, target entity, its str attribute, its int attribute)
    's': ('s = Required("S")', 1, 'S', 'name', 'v'),
    't': ('t = Required("T")', 1, 'T', 'name', 'v'),
    'm': ('m = Required("M")', 2, 'M', 'label', 'w'),
    'w': ('w = Required("W")', 3, 'W', 'label', 'w'),
    'n': ('n = Required(int)', 1, None, None, None),
}


def keyref_orders(rng, quick_n=None):
    import itertools
    out = []
    for size in (2, 3):
        for combo in itertools.permutations(['s', 't', 'm', 'w', 'n'], size):
            if all(KEYREF_COMPONENTS[c][2] is None for c in combo): continue
            out.append(combo)
    if quick_n is not None and len(out) > quick_n:
        # always keep the orders in which a reference FOLLOWS a multi-column-key reference (attribute offset != column offset)
        must = [o for o in out if len(o) == 2 and KEYREF_COMPONENTS[o[0]][1] > 1] + [('n', 'm', 's'), ('m', 's', 't'), ('w', 'm', 's'), ('s', 'm', 't')]
        rest = [o for o in out if o not in must]; rng.shuffle(rest)
        out = must + rest[:max(0, quick_n - len(must))]
    return out


class _Obj(object):
    def __init__(self, **kw): self.__dict__.update(kw)


def run_key_refs(ctx, quick_n):
    """Entities whose COMPOSITE primary key contains references — to single-column-key entities (S, T), a two-column-key entity (M) and
    a three-column-key entity (W), plus a plain integer — in every order of 2 and 3 components; a further entity D references K (so
    K's key columns are foreign key columns of D).  Column values overlap (every key value is 1..3), so a join on the wrong column
    still finds rows.  For each key reference r: projection through r, filters on r's attributes, comparison of r with an object and
    with its key, comparison of two references' attributes, the collection from the other side, navigation d.k.r, count of the
    collection; string and generator form.  Expected = the SAME source evaluated by Python over plain mirror objects."""
    from pony.orm import PrimaryKey, Set, count
    from pony.orm.core import TranslationError
    rng = ctx.rng
    for order in keyref_orders(rng, quick_n):
        sig = ','.join(order)
        db = Database()
        decl = ['class S(db.Entity):\n    id = PrimaryKey(int); name = Required(str); v = Required(int); ks = Set("K")',
                'class T(db.Entity):\n    id = PrimaryKey(int); name = Required(str); v = Required(int); ks = Set("K")',
                'class M(db.Entity):\n    a = Required(int); b = Required(int); label = Required(str); w = Required(int); PrimaryKey(a, b); ks = Set("K")',
                'class W(db.Entity):\n    a = Required(int); b = Required(str); c = Required(int); label = Required(str); w = Required(int); PrimaryKey(a, b, c); ks = Set("K")',
                'class K(db.Entity):\n    ' + '\n    '.join(KEYREF_COMPONENTS[c][0] for c in ['s', 't', 'm', 'w', 'n'])
                + '\n    val = Required(int, unique=True)\n    PrimaryKey(%s)\n    ds = Set("D")' % ', '.join(order),
                'class D(db.Entity):\n    id = PrimaryKey(int); k = Required("K"); ok = Optional("K", reverse="ods")']
        decl[4] = decl[4].replace('ds = Set("D")', 'ds = Set("D", reverse="k"); ods = Set("D", reverse="ok")')
        ns = dict(db=db, PrimaryKey=PrimaryKey, Required=Required, Optional=Optional, Set=Set)
        try:
            for d in decl: exec(d, ns)
            db.bind('sqlite', ':memory:'); db.generate_mapping(create_tables=True)
        except Exception as ex:
            ctx.count('keyref:schema-refused:%s' % type(ex).__name__); ctx.note('keyref schema %s refused: %s: %s' % (sig, type(ex).__name__, str(ex)[:120])); continue
        S, T, M, W, K, D = (ns[x] for x in 'STMWKD')
        present = ['s', 't', 'm', 'w', 'n']       # every component is an attribute of K; `order` says which of them form the key
        # mirror data
        names = ['a', 'ab', 'b', 'ba']
        mS = [_Obj(id=i, name=rng.choice(names), v=rng.randint(1, 3), ks=[]) for i in (1, 2, 3)]
        mT = [_Obj(id=i, name=rng.choice(names), v=rng.randint(1, 3), ks=[]) for i in (1, 2, 3)]
        mM = [_Obj(a=a, b=b, label=rng.choice(names), w=rng.randint(1, 3), ks=[]) for a, b in ((1, 2), (2, 1), (2, 3), (3, 3), (1, 1))]
        mW = [_Obj(a=a, b=b, c=c, label=rng.choice(names), w=rng.randint(1, 3), ks=[]) for a, b, c in ((1, '2', 3), (2, '1', 1), (3, '3', 2), (2, '2', 2))]
        pools = {'s': mS, 't': mT, 'm': mM, 'w': mW, 'n': [1, 2, 3]}
        mK, seen = [], set()
        for _ in range(60):
            if len(mK) >= 12: break
            pick = {c: rng.choice(pools[c]) for c in present}
            key = tuple(id(pick[c]) if c != 'n' else pick[c] for c in order)
            if key in seen: continue
            seen.add(key)
            k = _Obj(val=len(mK) + 1, ds=[], ods=[], **pick)
            mK.append(k)
            for c in present:
                if c != 'n': pick[c].ks.append(k)
        mD = []
        for i in range(1, 11):
            d = _Obj(id=i, k=rng.choice(mK), ok=rng.choice(mK + [None, None]))
            mD.append(d); d.k.ds.append(d)
            if d.ok is not None: d.ok.ods.append(d)
        try:
            with db_session:
                real = {}
                for o in mS: real[id(o)] = S(id=o.id, name=o.name, v=o.v)
                for o in mT: real[id(o)] = T(id=o.id, name=o.name, v=o.v)
                for o in mM: real[id(o)] = M(a=o.a, b=o.b, label=o.label, w=o.w)
                for o in mW: real[id(o)] = W(a=o.a, b=o.b, c=o.c, label=o.label, w=o.w)
                for k in mK: real[id(k)] = K(val=k.val, **{c: (real[id(getattr(k, c))] if c != 'n' else k.n) for c in present})
                for d in mD: D(id=d.id, k=real[id(d.k)], ok=(real[id(d.ok)] if d.ok is not None else None))
        except Exception as ex:
            ctx.violation('storing objects whose composite primary key contains references raises', {'key order': sig}, observed='%s: %s' % (type(ex).__name__, ex),
                          expected='objects stored', key='keyref-store-raises:%s' % type(ex).__name__)
            db.disconnect(); continue
        pkmap = {}
        for o in mS: pkmap[id(o)] = (S, o.id)
        for o in mT: pkmap[id(o)] = (T, o.id)
        for o in mM: pkmap[id(o)] = (M, (o.a, o.b))
        for o in mW: pkmap[id(o)] = (W, (o.a, o.b, o.c))
        # queries
        qs = []
        refs = [c for c in order if c != 'n']
        for r in refs:
            _, ncol, ent, sa, ia = KEYREF_COMPONENTS[r]
            pool = pools[r]
            qs.append(('projection', '(k.val, k.%s.%s) for k in K' % (r, sa), {}))
            qs.append(('projection', '(k.val, k.%s.%s, k.%s.%s) for k in K' % (r, ia, r, sa), {}))
            for cst in sorted({getattr(o, sa) for o in pool})[:3]:
                qs.append(('filter-attr', 'k.val for k in K if k.%s.%s == %r' % (r, sa, cst), {}))
            qs.append(('filter-attr', 'k.val for k in K if k.%s.%s > %d and k.val < 10' % (r, ia, rng.randint(1, 2)), {}))
            qs.append(('filter-attr', '(k.val, k.%s.%s) for k in K if k.%s.%s >= k.val - %d' % (r, sa, r, ia, rng.randint(3, 8)), {}))
            tgt = rng.choice(pool)
            qs.append(('filter-object', 'k.val for k in K if k.%s == p0' % r, {'p0': tgt}))
            qs.append(('filter-object', 'k.val for k in K if k.%s != p0' % r, {'p0': tgt}))
            if ncol == 1: qs.append(('filter-key', 'k.val for k in K if k.%s.id == %d' % (r, tgt.id), {}))
            elif ncol == 2: qs.append(('filter-key', 'k.val for k in K if k.%s.a == %d and k.%s.b == %d' % (r, tgt.a, r, tgt.b), {})); qs.append(('filter-key', 'k.val for k in K if k.%s.b == %d' % (r, tgt.b), {}))
            else: qs.append(('filter-key', 'k.val for k in K if k.%s.c == %d' % (r, tgt.c), {})); qs.append(('filter-key', '(k.val, k.%s.b) for k in K if k.%s.a == %d' % (r, r, tgt.a), {}))
            qs.append(('collection', '(x.%s, k.val) for x in %s for k in x.ks' % (sa, ent), {}))
            qs.append(('collection', '(x.%s, k.val) for x in %s for k in x.ks if k.%s.%s == x.%s and k.val > %d' % (ia, ent, r, sa, sa, rng.randint(0, 4)), {}))
            qs.append(('collection-count', '(%s, x.%s, count(x.ks)) for x in %s' % ({1: 'x.id', 2: 'x.a, x.b', 3: 'x.a, x.b, x.c'}[ncol], sa, ent), {}))
            qs.append(('through-foreign-key', '(d.id, d.k.%s.%s) for d in D' % (r, sa), {}))
            qs.append(('through-foreign-key', 'd.id for d in D if d.k.%s.%s > %d' % (r, ia, rng.randint(1, 2)), {}))
            qs.append(('through-foreign-key', 'd.id for d in D if d.ok.%s.%s == %r' % (r, sa, rng.choice(names)), {}))
            qs.append(('through-foreign-key', 'd.id for d in D if d.k.%s == p0' % r, {'p0': tgt}))
        for r1 in refs:
            for r2 in refs:
                if r1 < r2:
                    a1, a2 = KEYREF_COMPONENTS[r1][3], KEYREF_COMPONENTS[r2][3]
                    qs.append(('two-references', 'k.val for k in K if k.%s.%s <= k.%s.%s' % (r1, a1, r2, a2), {}))
                    qs.append(('two-references', '(k.val, k.%s.%s, k.%s.%s) for k in K if k.%s.%s != k.%s.%s' % (r1, a1, r2, a2, r1, KEYREF_COMPONENTS[r1][4], r2, KEYREF_COMPONENTS[r2][4]), {}))
        if 'n' in order and refs:
            r = refs[0]
            qs.append(('filter-attr', 'k.val for k in K if k.%s.%s == k.n' % (r, KEYREF_COMPONENTS[r][4]), {}))
        qs.append(('collection', '(d.id, k.val) for k in K for d in k.ds', {}))
        qs.append(('collection', '(d.id, k.val) for k in K for d in k.ods if d.k.val >= k.val', {}))
        pyG = dict(S=mS, T=mT, M=mM, W=mW, K=mK, D=mD, count=len)
        with db_session:
            for kind, src, prm in qs:
                try:
                    G2 = dict(pyG); G2.update(prm)
                    exp = sorted(set(eval('[%s]' % src.replace('d.ok.', 'd.ok is not None and d.ok.'), G2)), key=repr)
                except Exception as ex:
                    ctx.divergence('the Python reading of a key-reference query cannot be evaluated', {'query': src}, model='%s: %s' % (type(ex).__name__, ex), impl=None); continue
                G = dict(S=S, T=T, M=M, W=W, K=K, D=D, count=count, select=select)
                G.update({n_: pkmap[id(o)][0][pkmap[id(o)][1]] for n_, o in prm.items()})
                for form in ('string', 'generator'):
                    ctx.case(['keyref', sig, form, src], kind='keyref:%s:%s' % (kind, form))
                    inp = {'key order of K': 'PrimaryKey(%s)' % ', '.join(order), 'query': 'select(%s)' % src, 'params': {n_: repr(o.__dict__.get('id', (o.__dict__.get('a'), o.__dict__.get('b'), o.__dict__.get('c')))) for n_, o in prm.items()},
                           'rows of K (val: key)': {k.val: [(getattr(k, c) if c == 'n' else {x: y for x, y in getattr(k, c).__dict__.items() if x != 'ks'}) for c in order] for k in mK}}
                    try:
                        q = select(src, G) if form == 'string' else eval('select(%s)' % src, G)
                        got = sorted(set(q[:]), key=repr)
                    except (TranslationError, NotImplementedError) as ex:
                        ctx.count('keyref:refused:%s:%s' % (kind, type(ex).__name__)); continue
                    except Exception as ex:
                        ctx.violation('a query navigating through a reference that is part of a composite primary key raises (%s form)' % form, inp,
                                      observed='%s: %s' % (type(ex).__name__, ex), expected=exp, key='keyref-raises:%s:%s' % (kind, type(ex).__name__))
                        continue
                    if got != exp:
                        ctx.violation('a query navigating through a reference that is part of a composite primary key returns other rows than Python evaluation of the same expression (%s, %s form)' % (kind, form),
                                      dict(inp, sql=' '.join(db.last_sql.split())), observed=got, expected=exp, key='composite-key-reference:%s' % kind)
        db.disconnect()



def run(ctx):
    import time
    steps = [
        ('witnesses', lambda: (run_witnesses(ctx), run_optional_ref_witness(ctx), run_tuple_and_refset_witnesses(ctx), run_subquery_null_witness(ctx), run_arith_witnesses(ctx))),
        ('exists', lambda: run_exists(ctx, ctx.scale(40, 400))),
        ('exists-m2m', lambda: run_exists_m2m(ctx, ctx.scale(30, 300))),
        ('joins', lambda: run_joins(ctx, ctx.scale(40, 400))),
        ('key-references', lambda: run_key_refs(ctx, ctx.scale(16, None))),
        ('temporal', lambda: run_temporal(ctx, 0)),
        ('subquery-nulls', lambda: run_subquery_nulls(ctx, ctx.scale(4, 40))),
        ('string-index', lambda: run_string_index(ctx, ctx.scale(25, 300))),
        ('relational', lambda: run_relational(ctx, ctx.scale(4, 40))),
        ('distinct', lambda: run_distinct(ctx, ctx.scale(3, 30))),
        ('schema2', lambda: run_schema2(ctx, ctx.scale(5, 60))),
        ('projections', lambda: run_projections(ctx, ctx.scale(60, 800))),
        ('fragment', lambda: run_fragment(ctx, 'frag', ctx.scale(240, 2000), 4)),
        ('extended', lambda: run_fragment(ctx, 'ext', ctx.scale(150, 1200), 4)),
    ]
    cpu = {}
    for name, f in steps:
        t0 = time.process_time(); w0 = time.time()
        f()
        cpu[name] = [round(time.process_time() - t0, 1), round(time.time() - w0, 1)]
    ctx.extra['engine_seconds(cpu, wall) per stream'] = cpu


def replay(ctx, data):
    run(ctx)
