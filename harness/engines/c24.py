"""C24 — query methods agree with list semantics of the full ordered result.

Tie, part 1 (translator validation): the definitions regenerated from the source (Gen.combineLimitAndOffset,
Gen.queryGetitem, Gen.queryPage) are executed by the Lean driver on the same arguments as the real functions.
Tie, part 2 (hand model + property oracle): random data and random method chains on real Pony over SQLite are
compared with the Python list operation applied to the full ordered result R.
"""
import itertools, random
from pony.orm import Database, Required, Optional, Set, PrimaryKey, left_join, exists, rollback, db_session, select, count, sum as psum, min as pmin, max as pmax, avg, group_concat, desc, raw_sql
from pony.orm import core
from pony.orm.sqltranslation import combine_limit_and_offset

NONE = None

class FakeQuery:
    def _fetch(self, *args, **kw):
        return {'call': 'query._fetch', 'args': list(args) + [[k, v] for k, v in kw.items()]}

def real_call(f, *args):
    try:
        return {'ok': f(*args)}
    except AssertionError as e:
        return {'error': 'AssertionError'}
    except TypeError as e:
        return {'error': 'TypeError'}
    except Exception as e:
        return {'error': type(e).__name__}

def norm(x):
    if isinstance(x, tuple): return [norm(i) for i in x]
    if isinstance(x, list): return [norm(i) for i in x]
    if isinstance(x, dict): return {k: norm(v) for k, v in x.items()}
    return x

def model_norm(r):
    if 'error' in r: return {'error': r['error']}
    return {'ok': r['ok']}

def py_window(R, limit, offset):
    """SQL LIMIT/OFFSET on a list; a negative LIMIT is SQLite's 'no limit'"""
    o = offset or 0
    d = R[o:]
    return d if (limit is None or limit < 0) else d[:limit]

def translator_tie(ctx):
    if not ctx.driver.ok:
        ctx.note('driver unavailable: translator tie skipped'); return
    vals = [None, 0, 1, 2, 3, 5, 7] + ([10, 11, 100] if ctx.thorough else [])
    reqs, reals, inputs = [], [], []
    for l, o, l2, o2 in itertools.product(vals + [-1], vals, vals + [-1], vals):
        reqs.append({'op': 'combine', 'args': [l, o, l2, o2]})
        reals.append(norm(real_call(combine_limit_and_offset, l, o, l2, o2)))
        inputs.append(('combine', l, o, l2, o2))
    fq = FakeQuery()
    getitem = core.Query.__getitem__
    getitem = getattr(getitem, '__wrapped__', getitem)
    for a, b, st in itertools.product(vals + [-1], vals + [-1], [None, 1, 2]):
        reqs.append({'op': 'getitem', 'args': [True, st, a, b]})
        reals.append(norm(real_call(getitem, fq, slice(a, b, st))))
        inputs.append(('getitem', a, b, st))
    reqs.append({'op': 'getitem', 'args': [False, None, None, None]})
    reals.append(norm(real_call(getitem, fq, 3))); inputs.append(('getitem-nonslice', 3))
    page = getattr(core.Query.page, '__wrapped__', core.Query.page)
    for n, k in itertools.product([1, 2, 3, 4, 10], [0, 1, 2, 3, 10]):
        reqs.append({'op': 'page', 'args': [n, k]})
        reals.append(norm(real_call(page, fq, n, k))); inputs.append(('page', n, k))
    outs = ctx.driver('C24', reqs)
    for inp, real, out in zip(inputs, reals, outs):
        ctx.case(list(inp), nontrivial=True, kind='translator-tie:' + inp[0])
        m = model_norm(out)
        if m != real:
            ctx.divergence('generated Lean definition and the real function disagree', list(inp), model=m, impl=real)
    # the typed mirror's window law evaluated on the REAL function (this is the property oracle for combine)
    R = list(range(12))
    for l, o, l2, o2 in itertools.product(vals, repeat=4):
        r = real_call(combine_limit_and_offset, l, o, l2, o2)
        if 'ok' not in r: continue
        lim, off = r['ok']
        got = py_window(R, lim, off)
        exp = py_window(py_window(R, l, o), l2, o2)
        ctx.case(['combine-window', l, o, l2, o2], kind='oracle:combine-window')
        if got != exp:
            ctx.violation('combine_limit_and_offset does not compose LIMIT/OFFSET windows', {'limit': l, 'offset': o, 'limit2': l2, 'offset2': o2},
                          observed=got, expected=exp, key='combine:%r,%r,%r,%r' % (l, o, l2, o2))

def build_db(rng, n):
    db = Database()
    class G(db.Entity):
        k = Required(int)
        s = Required(str)
        v = Optional(int)
        m = Required(int)
        hs = Set('H')
    class H(db.Entity):
        g = Required(G)
        w = Required(int)
    db.bind('sqlite', ':memory:')
    db.generate_mapping(create_tables=True)
    with db_session:
        for i in range(n):
            g = G(k=rng.choice([0, 1, 2, 3, 3, 5]), s=rng.choice(['a', 'b', 'ab', 'c', '']) or 'z', v=rng.choice([None, None, 0, 1, 2, 7, -3]), m=rng.choice([0, 1, 1, 2, -4]))
            for j in range(rng.choice([0, 0, 1, 2, 3])):
                H(g=g, w=rng.choice([0, 1, 5, 9]))
    return db, G, H

FILTERS = [
    ('all', None, lambda o: True),
    ('k>1', 'g.k > 1', lambda o: o.k > 1),
    ('k==3', 'g.k == 3', lambda o: o.k == 3),
    ('v-none', 'g.v is None', lambda o: o.v is None),
    ('k<0', 'g.k < 0', lambda o: o.k < 0),
    ('s-a', "g.s.startswith('a')", lambda o: o.s.startswith('a')),
]

def sel(G, what, cond):
    return select('%s for g in G%s' % (what, (' if ' + cond) if cond else ''))

def method_oracle(ctx):
    rng = ctx.rng
    rounds = ctx.scale(6, 60)
    chain_rows, sample_reqs = [], []
    for rd in range(rounds):
        n = rng.choice([0, 1, 2, 5, 9, 14])
        db, G, H = build_db(rng, n)
        with db_session:
            for name, mk, pyf in FILTERS:
                if mk is None: q0 = select(g for g in G)
                elif rng.random() < 0.5: q0 = sel(G, 'g', mk)
                else:
                    q0 = select(g for g in G)
                    q0 = q0.filter('lambda g: ' + mk) if rng.random() < 0.5 else q0.where('lambda g: ' + mk)
                desc_order = rng.random() < 0.3
                q = q0.order_by(desc(G.id)) if desc_order else q0.order_by(G.id)
                allobjs = sorted(G.select()[:], key=lambda o: o.id, reverse=desc_order)
                R = [o for o in allobjs if pyf(o)]
                ids = [o.id for o in R]
                def check(what, got, exp, inp):
                    ctx.case([name, what] + inp, kind='oracle:' + what)
                    if got != exp:
                        ctx.violation('%s differs from the Python operation on the full ordered result' % what,
                                      {'filter': name, 'method': what, 'args': inp, 'rows': len(allobjs), 'desc': desc_order, 'R': ids},
                                      observed=got, expected=exp, key='method:%s:%s:%r' % (name, what, inp))
                if [o.id for o in q[:]] != ids:
                    check('order_by', [o.id for o in q[:]], ids, []); continue
                check('order_by', ids, ids, [])
                for _ in range(ctx.scale(6, 12)):
                    a = rng.choice([None, 0, 0, 1, 2, 3, len(R), len(R) + 1, 20]); b = rng.choice([None, 0, 1, 2, 3, 5, len(R), len(R) + 2, 20])
                    check('slice', [o.id for o in q[a:b]], ids[a:b], [a, b])
                    l = rng.choice([None, 0, 1, 2, 3, 7, 20]); o = rng.choice([None, 0, 1, 2, 5, 20])
                    check('limit', [x.id for x in q.limit(l, offset=o)], [x for x in py_window(ids, l, o)], [l, o])
                    pn = rng.choice([1, 2, 3, 4]); ps = rng.choice([1, 2, 3, 5])
                    check('page', [x.id for x in q.page(pn, ps)], ids[(pn - 1) * ps: pn * ps], [pn, ps])
                    # limited subquery iterated by a limited query
                    l2 = rng.choice([None, 0, 1, 2, 4]); o2 = rng.choice([None, 0, 1, 3])
                    if l is not None or o is not None:
                        inner = q.limit(l, offset=o)
                        outer = select(x for x in inner)
                        outer = outer.limit(l2, offset=o2) if (l2 is not None or o2 is not None) else outer
                        exp = py_window(py_window(ids, l, o), l2, o2)
                        try:
                            got = [x.id for x in outer]
                        except Exception as e:
                            got = 'raised ' + type(e).__name__
                        # without an ORDER BY on the outer query only the set is determined when no outer window is applied
                        if l2 is None and o2 is None and isinstance(got, list): got, exp = sorted(got), sorted(exp)
                        check('subquery-limit', got, exp, [l, o, l2, o2])
                f = q.first(); check('first', f.id if f is not None else None, ids[0] if ids else None, [])
                try: g = q.get(); g = g.id if g is not None else None
                except core.MultipleObjectsFoundError: g = 'multiple'
                check('get', g, None if not ids else (ids[0] if len(ids) == 1 else 'multiple'), [])
                check('exists', q.exists(), bool(ids), [])
                check('count', q.count(), len(R), [])
                ks = [o.k for o in R]; vs = [o.v for o in R if o.v is not None]
                qk = sel(G, 'g.k', mk); qv = sel(G, 'g.v', mk)
                check('sum', qk.without_distinct().sum(), sum(ks), [])
                check('min', qk.min(), min(ks) if ks else None, [])
                check('max', qk.max(), max(ks) if ks else None, [])
                a_ = qk.without_distinct().avg(); check('avg', None if a_ is None else round(a_, 9), round(sum(ks) / len(ks), 9) if ks else None, [])
                check('sum-nullable', qv.without_distinct().sum(), sum(vs), [])
                check('max-nullable', qv.max(), max(vs) if vs else None, [])
                check('count-distinct', qk.count(), len(set(ks)), [])
                # the same query key asked with every distinct flag, in both orders (warm SQL / result caches must not mix them up)
                flags = [None, False, True, None, True, False, None]
                rng.shuffle(flags)
                for fl in flags:
                    got = qk.count() if fl is None else qk.count(distinct=fl)
                    check('count(distinct=%r)' % fl, got, len(ks) if fl is False else len(set(ks)), [])
                    got = qv.count() if fl is None else qv.count(distinct=fl)
                    check('count-nullable(distinct=%r)' % fl, got, len(vs) if fl is False else len(set(vs)), [])
                for fl in flags:
                    got = qk.sum() if fl is None else qk.sum(distinct=fl)
                    check('sum(distinct=%r)' % fl, got, sum(set(ks)) if fl else sum(ks), [])
                    got = qk.avg() if fl is None else qk.avg(distinct=fl)
                    base = list(set(ks)) if fl else ks
                    check('avg(distinct=%r)' % fl, None if got is None else round(got, 9), round(sum(base) / len(base), 9) if base else None, [])
                check('distinct', sorted(qk.distinct()[:]), sorted(set(ks)), [])
                check('without_distinct', sorted(qk.without_distinct()[:]), sorted(ks), [])
                gc = sel(G, 'g.s', mk).without_distinct().group_concat(sep='|')
                check('group_concat', sorted(gc.split('|')) if gc else [], sorted(o.s for o in R), [])
                rnd = [o.id for o in q0.random(3)]
                check('random', (len(rnd), set(rnd) <= set(ids), len(set(rnd))), (min(3, len(ids)), True, min(3, len(ids))), [])
                # a filter / projection / aggregate over a LIMITED subquery must see only the window
                l = rng.choice([1, 2, 3, 5]); o = rng.choice([None, 0, 1, 2])
                win = py_window(R, l, o)
                thr = rng.choice([0, 1, 2, 3])
                try: got = sorted(x.id for x in select(x for x in q.limit(l, offset=o) if x.k >= thr))
                except Exception as e: got = 'raised ' + type(e).__name__
                exp = sorted(x.id for x in win if x.k >= thr)
                ctx.case([name, 'filter-over-limited-subquery', l, o, thr], kind='oracle:filter-over-limited-subquery')
                if got != exp and not (isinstance(got, str)):
                    ctx.violation('a condition on a query that iterates over a limited subquery is applied BEFORE the limit (the outer WHERE is merged into the limited inner query)',
                                  {'inner': 'q.limit(%r, offset=%r)' % (l, o), 'outer': 'select(x for x in inner if x.k >= %d)' % thr, 'R': ids, 'window': [x.id for x in win]},
                                  observed=got, expected=exp, key='filter-over-limited-subquery')
                # aggregates repeated after an unflushed change must see it (same query object, warm result cache)
                before_cnt = q0.count(); before_sum = qk.without_distinct().sum()
                extra = G(k=3, s='ab', v=None, m=0)
                inc = 1 if pyf(extra) else 0
                check('count-after-unflushed-insert', q0.count(), before_cnt + inc, [])
                check('sum-after-unflushed-insert', qk.without_distinct().sum(), before_sum + 3 * inc, [])
                extra.delete()
                check('count-after-unflushed-delete', q0.count(), before_cnt, [])
                # chained order_by: the NEWER criterion has priority (ORDER BY k, m for order_by(m).order_by(k)); compared on the key pairs
                # (rows with equal (k, m) may come in any order) and, through the model, with the double stable sort
                chained = q0.order_by(G.m).order_by(G.k)[:]
                check('order_by-chain', [(o.k, o.m) for o in chained], sorted((o.k, o.m) for o in R), [])
                chained2 = q0.order_by(G.m).order_by(desc(G.k))[:]
                check('order_by-chain-desc', [(o.k, o.m) for o in chained2], sorted(((o.k, o.m) for o in R), key=lambda t: (-t[0], t[1])), [])
                check('order_by-chain-is-permutation', sorted(o.id for o in chained), sorted(ids), [])
                chain_rows.append(([[o.id, o.m, o.k] for o in R], [[o.k, o.m] for o in chained], name))
                # three criteria, the last call first: ORDER BY k, m, id — fully determined
                ch3 = q0.order_by(G.id).order_by(G.m).order_by(G.k)[:]
                check('order_by-chain3', [o.id for o in ch3], [o.id for o in sorted(R, key=lambda o: (o.k, o.m, o.id))], [])
                # chained filter / where = conjunction
                f2 = q.filter(lambda g: g.m >= 1).where(lambda g: g.k != 2)
                check('filter-chain', [o.id for o in f2], [o.id for o in R if o.m >= 1 and o.k != 2], [])
                f3 = q.filter(m=1)
                check('filter-kwargs', [o.id for o in f3], [o.id for o in R if o.m == 1], [])
                # random(n): sample without replacement — judged by the model's isSample
                for rn in (0, 1, 2, 3, 50):
                    rr = [o.id for o in q0.random(rn)]
                    sample_reqs.append((ids, rr, rn, name))
                # ordering only permutes the unordered result (entity queries)
                check('order-permutes', sorted(o.id for o in q0[:]), sorted(ids), [])
            # first() of an UNORDERED tuple projection orders by every column: the smallest row of the full result
            for nm, mkq, pyrow in [('(k, m)', lambda: select((g.k, g.m) for g in G), lambda o: (o.k, o.m)),
                                   ('(m, k, id)', lambda: select((g.m, g.k, g.id) for g in G), lambda o: (o.m, o.k, o.id)),
                                   ('(k, s)', lambda: select((g.k, g.s) for g in G), lambda o: (o.k, o.s)),
                                   ('(k, m) filtered', lambda: select((g.k, g.m) for g in G if g.k >= 1), lambda o: (o.k, o.m) if o.k >= 1 else None),
                                   ('(m,) + id', lambda: select((g.m, g.id) for g in G), lambda o: (o.m, o.id))]:
                rowsP = sorted(r for r in (pyrow(o) for o in G.select()) if r is not None)
                try: got = mkq().first()
                except Exception as e: got = 'raised ' + type(e).__name__
                ctx.case(['first-tuple', nm, n], kind='oracle:first-tuple')
                exp = rowsP[0] if rowsP else None
                if got != exp:
                    ctx.violation('first() of an unordered tuple query is not the smallest row of its result (it must order by every column)',
                                  {'query': 'select(%s for g in G).first()' % nm, 'rows': rowsP}, observed=got, expected=exp, key='first-tuple:%s' % nm)
            # known finding: ordering drops the inferred DISTINCT of a non-entity projection
            unordered = select(g.k for g in G)[:]
            ordered = select(g.k for g in G).order_by(1)[:]
            ctx.case(['order-permutes-projection', n], kind='oracle:order-permutes-projection')
            if sorted(unordered) != sorted(ordered):
                ctx.violation('select(g.k for g in G).order_by(1) returns duplicates that the unordered query does not (ORDER BY drops the inferred DISTINCT)',
                              {'query': 'select(g.k for g in G).order_by(1)', 'unordered': sorted(unordered), 'ordered': sorted(ordered)},
                              observed=sorted(ordered), expected=sorted(unordered), key='order_by-drops-inferred-distinct')
        # bulk delete removes exactly the selected rows
        with db_session:
            name, mk, pyf = rng.choice(FILTERS[1:])
            before = {o.id: pyf(o) for o in H.select()[:] for pyf in [lambda h: h.w > 1]}
            cnt = select(h for h in H if h.w > 1).delete(bulk=True)
            left = sorted(h.id for h in H.select())
            exp = sorted(i for i, sel in before.items() if not sel)
            ctx.case(['bulk-delete', n], kind='oracle:bulk-delete')
            if left != exp or cnt != len(before) - len(exp):
                ctx.violation('bulk delete did not remove exactly the selected rows', {'before': before}, observed=left, expected=exp, key='bulk-delete')
        db.disconnect()
    # model side of random() and of the order_by chain
    if ctx.driver.ok:
        outs = ctx.driver('C24', [{'op': 'sample', 'R': R, 'res': res, 'n': n} for R, res, n, _ in sample_reqs])
        for (R, res, n, name), out in zip(sample_reqs, outs):
            ctx.case(['random', name, n, len(R)], kind='oracle:random-sample')
            if out is not True:
                ctx.violation('q.random(n) did not return min(n, len(R)) rows of the result drawn without replacement',
                              {'filter': name, 'n': n, 'R': R}, observed=res, expected='%d distinct rows of R' % min(n, len(R)), key='method:%s:random:%d' % (name, n))
        outs = ctx.driver('C24', [{'op': 'orderchain', 'rows': rows} for rows, _, _ in chain_rows])
        for (rows, real_keys, name), out in zip(chain_rows, outs):
            ctx.case(['orderchain-model', name, len(rows)], kind='order-chain-tie')
            byid = {r[0]: r for r in rows}
            model_keys = [[byid[i][2], byid[i][1]] for i in out] if isinstance(out, list) else out
            if model_keys != real_keys:
                ctx.divergence('order_by(m).order_by(k): model orderChain (Model/Aggr.lean) and real Pony disagree on the key sequence', rows, model=model_keys, impl=real_keys)

def build_db2(rng, n):
    """second schema: optional reference, primary key not declared first, grouped sources"""
    db = Database()
    class G2(db.Entity):
        name = Required(str)
        k = Required(int)
        ts = Set('T2')
    class T2(db.Entity):
        b = Required(int)
        a = Required(int)
        id2 = PrimaryKey(int)
        g = Optional(G2)
    db.bind('sqlite', ':memory:')
    db.generate_mapping(create_tables=True)
    with db_session:
        gs = [G2(name=rng.choice(['z', 'a', 'm', 'q']) + str(i), k=rng.choice([0, 1, 2])) for i in range(rng.choice([1, 2, 3]))]
        ids = list(range(1, n + 1)); rng.shuffle(ids)
        for i in ids:
            T2(id2=i, a=rng.choice([0, 1, 2, 3]), b=rng.choice([1, 5, 7, 9, 11]) * 10 - i, g=rng.choice(gs + [None]))
    return db, G2, T2

def extra_oracle(ctx):
    """limited subqueries over sources that cannot be folded into the outer query, bulk delete with aggregate
    conditions, ordering through an optional reference, ordering an entity query by position"""
    rng = ctx.rng
    QUERIES = {
        'grouped-source': 'q = select((t.a, count(t)) for t in T2).order_by(-1); list(q)',
        'iterate-limited-grouped-source': 'select((a, c) for a, c in q.limit(l, offset=o)) with q = select((t.a, count(t)) for t in T2).order_by(-1); args = [rows, l, o]',
        'sum-over-limited-grouped-source': 'select(sum(c) for a, c in q.limit(l, offset=o)) with q = select((t.a, count(t)) for t in T2).order_by(-1); args = [rows, l, o]',
        'iterate-page-of-grouped-source': 'select((a, c) for a, c in q.page(pn, ps)) with q = select((t.a, count(t)) for t in T2).order_by(-1); args = [rows, pn, ps]',
        'iterate-limited-left_join-source': 'select((a, c) for a, c in ql.limit(l, offset=o)) with ql = left_join((g.name, t.id2) for g in G2 for t in g.ts).order_by(1, 2)',
        'limited-query-as-second-for-clause': 'select((g, t) for g in G2 for t in T2.select().order_by(T2.id2).limit(l, offset=o) if t.g == g)',
        'limited-projection-as-second-for-clause': 'select((g.k, i, a) for g in G2 for i, a in select((t.id2, t.a) for t in T2).order_by(1).limit(l, offset=o) if a == g.k)',
    }
    state = {}
    def check(what, got, exp, inp, key=None):
        ctx.case([what] + list(inp), kind='oracle:' + what)
        if got != exp:
            ctx.violation('%s differs from the Python operation on the full result' % what,
                          {'method': what, 'args': list(inp), 'query': QUERIES.get(what), 'T2 rows (id2, a, b, g)': state.get('rows')},
                          observed=got, expected=exp, key=key or 'method2:%s:%r' % (what, list(inp)))
    def run(f):
        try: return f()
        except Exception as e: return 'raised %s: %s' % (type(e).__name__, str(e)[:80])
    for rd in range(ctx.scale(5, 50)):
        n = rng.choice([0, 1, 3, 6, 9, 12])
        db, G2, T2 = build_db2(rng, n)
        with db_session:
            allT = sorted(T2.select()[:], key=lambda t: t.id2)
            state['rows'] = [(t.id2, t.a, t.b, t.g and t.g.id) for t in allT]
            state['grows'] = sorted((g.id, g.k) for g in G2.select())
            # --- grouped source (GROUP BY cannot be folded): R = [(a, count)] ordered by a descending
            grouped = {}
            for t in allT: grouped[t.a] = grouped.get(t.a, 0) + 1
            R = sorted(grouped.items(), key=lambda p: -p[0])
            q = select((t.a, count(t)) for t in T2).order_by(-1)
            check('grouped-source', run(lambda: list(q)), R, [n])
            for _ in range(ctx.scale(6, 10)):
                l = rng.choice([None, 0, 1, 2, 3, 10]); o = rng.choice([None, 0, 1, 2, 4])
                if l is None and o is None: continue
                win = py_window(R, l, o)
                check('iterate-limited-grouped-source', run(lambda: sorted(select((a, c) for a, c in q.limit(l, offset=o)))), sorted(win), [n, l, o],
                      key='subquery-window:grouped:%s' % ('offset' if o else 'limit'))
                check('sum-over-limited-grouped-source', run(lambda: select(sum(c) for a, c in q.limit(l, offset=o)).first() or 0), sum(c for a, c in win), [n, l, o],
                      key='subquery-window:grouped-aggregate:%s' % ('offset' if o else 'limit'))
                pn = rng.choice([1, 2, 3]); ps = rng.choice([1, 2])
                check('iterate-page-of-grouped-source', run(lambda: sorted(select((a, c) for a, c in q.page(pn, ps)))), sorted(R[(pn - 1) * ps: pn * ps]), [n, pn, ps],
                      key='subquery-window:grouped:page')
                # left_join source
                Rl = sorted(((g.name, t.id2 if t else None) for g in G2.select() for t in (list(g.ts) or [None])), key=lambda p: (p[0], p[1] or 0))
                ql = left_join((g.name, t.id2) for g in G2 for t in g.ts).order_by(1, 2)
                got_full = run(lambda: list(ql))
                if isinstance(got_full, list) and got_full == Rl:
                    check('iterate-limited-left_join-source', run(lambda: sorted(select((a, c) for a, c in ql.limit(l, offset=o)), key=lambda p: (p[0], p[1] or 0))),
                          py_window(Rl, l, o), [n, l, o], key='subquery-window:left_join:%s' % ('offset' if o else 'limit'))
                # the limited query as a NON-first for clause
                inner = select(t for t in T2).order_by(T2.id2).limit(l, offset=o)
                winT = py_window(allT, l, o)
                got2 = run(lambda: sorted((g.id, t.id2) for g, t in select((g, t) for g in G2 for t in inner if t.g == g)))
                check('limited-query-as-second-for-clause', got2, sorted((t.g.id, t.id2) for t in winT if t.g is not None), [n, l, o],
                      key='limited-entity-query-as-non-first-for-clause:AssertionError' if str(got2).startswith('raised AssertionError')
                          else 'subquery-window:second-for:%s' % ('offset' if o else 'limit'))
                # ... and a limited PROJECTION as a non-first for clause (this form is translated)
                innerp = select((t.id2, t.a) for t in T2).order_by(1).limit(l, offset=o)
                winP = py_window([(t.id2, t.a) for t in allT], l, o)
                check('limited-projection-as-second-for-clause', run(lambda: sorted(select((g.k, i, a) for g in G2 for i, a in innerp if a == g.k))),
                      sorted(set((g.k, i, a) for g in G2.select() for i, a in winP if a == g.k)), [n, l, o], key='subquery-window:second-for-projection:%s' % ('offset' if o else 'limit'))
            # --- ordering an entity query by position / first(): Python's sorted(R) compares entities by key
            byb = [t.id2 for t in sorted(allT, key=lambda t: t.b)]
            got = run(lambda: [t.id2 for t in select(t for t in T2).order_by(1)])
            ctx.case(['order_by-number-entity', n], kind='oracle:order_by-number-entity')
            if got != [t.id2 for t in allT]:
                ctx.violation('select(t for t in T).order_by(1) / first() on an entity whose primary key is not declared first orders by the first declared attribute, not by the key',
                              {'entity': 'b = Required(int); a = Required(int); id2 = PrimaryKey(int)', 'rows': [(t.id2, t.b) for t in allT]},
                              observed=got, expected=[t.id2 for t in allT],
                              key='order_by-number-on-entity-with-pk-not-declared-first' if got == byb else 'method2:order_by(1):%r' % (got,))
            # --- ordering through an optional reference only permutes
            got = run(lambda: sorted(t.id2 for t in select(t for t in T2).order_by(lambda t: t.g.name)))
            ctx.case(['order_by-optional-path', n], kind='oracle:order_by-optional-path')
            if got != [t.id2 for t in allT]:
                nonnull = [t.id2 for t in allT if t.g is not None]
                ctx.violation('ordering by an attribute path through an optional reference drops the rows whose reference is NULL',
                              {'query': 'select(t for t in T).order_by(lambda t: t.g.name)', 'rows': [(t.id2, t.g and t.g.name) for t in allT]},
                              observed=got, expected=[t.id2 for t in allT],
                              key='order_by-through-optional-reference-drops-rows' if got == nonnull else 'method2:order_by-optional-path:%r' % (got,))
            got = run(lambda: [(t.g.name, t.id2) for t in select(t for t in T2 if t.g is not None).order_by(lambda t: (t.g.name, t.id2))])
            check('order_by-required-path', got, sorted((t.g.name, t.id2) for t in allT if t.g is not None), [n])
        # --- bulk delete with aggregate conditions removes exactly the selected rows
        for src, mk, pyf in [('select(t for t in T2 if count(t.g.ts) > 1)', lambda: select(t for t in T2 if count(t.g.ts) > 1), lambda t: t.g is not None and len(t.g.ts) > 1),
                             ('select(t for t in T2 if sum(t.g.ts.b) > 60)', lambda: select(t for t in T2 if psum(t.g.ts.b) > 60), lambda t: t.g is not None and sum(x.b for x in t.g.ts) > 60),
                             ('select(t for t in T2 if t.a > 0 and count(t.g.ts) == 1)', lambda: select(t for t in T2 if t.a > 0 and count(t.g.ts) == 1),
                              lambda t: t.a > 0 and t.g is not None and len(t.g.ts) == 1)] + [
                # correlated subqueries, nested one to three levels deep; the levels in between do or do not mention the outer variable
                ('select(t for t in T2 if exists(g for g in G2 if g == t.g and g.k > 0))',
                 lambda: select(t for t in T2 if exists(g for g in G2 if g == t.g and g.k > 0)), lambda t: t.g is not None and t.g.k > 0),
                ('select(t for t in T2 if not exists(t2 for t2 in T2 if t2.a > t.a))',
                 lambda: select(t for t in T2 if not exists(t2 for t2 in T2 if t2.a > t.a)), lambda t: not any(t2.a > t.a for t2 in T2.select())),
                ('select(t for t in T2 if exists(g for g in G2 if exists(t2 for t2 in T2 if t2.g == g and t2.a > t.a)))',
                 lambda: select(t for t in T2 if exists(g for g in G2 if exists(t2 for t2 in T2 if t2.g == g and t2.a > t.a))),
                 lambda t: any(any(t2.g == g and t2.a > t.a for t2 in T2.select()) for g in G2.select())),
                ('select(t for t in T2 if exists(g for g in G2 if g.k <= t.a and exists(t2 for t2 in T2 if t2.g == g and t2.a > t.a)))',
                 lambda: select(t for t in T2 if exists(g for g in G2 if g.k <= t.a and exists(t2 for t2 in T2 if t2.g == g and t2.a > t.a))),
                 lambda t: any(g.k <= t.a and any(t2.g == g and t2.a > t.a for t2 in T2.select()) for g in G2.select())),
                ('select(t for t in T2 if t.a in select(g.k for g in G2 if g.id in select(t2.g.id for t2 in T2 if t2.b > t.b)))',
                 lambda: select(t for t in T2 if t.a in select(g.k for g in G2 if g.id in select(t2.g.id for t2 in T2 if t2.b > t.b))),
                 lambda t: t.a in [g.k for g in G2.select() if g.id in [t2.g.id for t2 in T2.select() if t2.g is not None and t2.b > t.b]]),
                ('select(t for t in T2 if exists(g for g in G2 if exists(t2 for t2 in T2 if t2.g == g and exists(t3 for t3 in T2 if t3.a == t2.a and t3.id2 < t.id2))))',
                 lambda: select(t for t in T2 if exists(g for g in G2 if exists(t2 for t2 in T2 if t2.g == g and exists(t3 for t3 in T2 if t3.a == t2.a and t3.id2 < t.id2)))),
                 lambda t: any(any(t2.g == g and any(t3.a == t2.a and t3.id2 < t.id2 for t3 in T2.select()) for t2 in T2.select()) for g in G2.select())),
                ('select(t for t in T2 if count(t2 for t2 in T2 if t2.a == t.a and exists(g for g in G2 if g.k == t.a)) > 1)',
                 lambda: select(t for t in T2 if count(t2 for t2 in T2 if t2.a == t.a and exists(g for g in G2 if g.k == t.a)) > 1),
                 lambda t: len([t2 for t2 in T2.select() if t2.a == t.a and any(g.k == t.a for g in G2.select())]) > 1)]:
            with db_session:
                before = {t.id2: bool(pyf(t)) for t in T2.select()}
                sel = run(lambda: sorted(t.id2 for t in mk()))
                check('aggregate-condition-select', sel, sorted(i for i, s in before.items() if s), [src, n])
                cnt = run(lambda: mk().delete(bulk=True))
                left = sorted(t.id2 for t in T2.select())
                exp = sorted(i for i, s in before.items() if not s)
                ctx.case(['bulk-delete-aggregate', src, n], kind='oracle:bulk-delete-aggregate')
                if left != exp or cnt != len(before) - len(exp):
                    ctx.violation('bulk delete of a query with an aggregate condition or a (nested) correlated subquery did not remove exactly the selected rows',
                                  {'query': src + '.delete(bulk=True)', 'before': before, 'T2 rows (id2, a, b, g)': state.get('rows'), 'G2 rows (id, k)': state.get('grows')},
                                  observed={'left': left, 'count': cnt}, expected={'left': exp, 'count': len(before) - len(exp)},
                                  key='bulk-delete:aggregate-condition' if 'exists' not in src and ' in select' not in src else 'bulk-delete:correlated-subquery')
                rollback()
        db.disconnect()

def aggr_tie(ctx):
    """hand model of the aggregates (Model/Aggr.lean) against real Pony on SQLite: nullable int column, every flag"""
    if not ctx.driver.ok:
        ctx.note('driver unavailable: aggregate tie skipped'); return
    rng = ctx.rng
    cols = [[], [None], [None, None], [0], [3, 3], [3, None, 3, 5], [-1, 0, 1, None, -1]]
    for _ in range(ctx.scale(25, 250)):
        cols.append([rng.choice([None, None, -3, 0, 1, 2, 2, 7, 10**12]) for _ in range(rng.choice([1, 2, 3, 5, 8, 13]))])
    reqs, reals = [], []
    for col in cols:
        db = Database()
        class V(db.Entity):
            v = Optional(int, size=64)
        db.bind('sqlite', ':memory:'); db.generate_mapping(create_tables=True)
        with db_session:
            for x in col: V(v=x)
        with db_session:
            q = lambda: select(x.v for x in V if x.v is not None)   # Pony's aggregates skip missing values like SQL
            qa = lambda: select(x.v for x in V)
            real = {'count_none': qa().count(), 'count_false': qa().count(distinct=False), 'count_true': qa().count(distinct=True),
                    'sum': qa().sum(), 'sum_distinct': qa().sum(distinct=True), 'min': qa().min(), 'max': qa().max(),
                    'distinct': sorted(q().distinct()[:]), 'avg': qa().avg(), 'avg_distinct': qa().avg(distinct=True)}
        db.disconnect()
        reqs.append({'op': 'aggr', 'col': col}); reals.append(real)
    outs = ctx.driver('C24', reqs)
    for col, real, out in zip(cols, reals, outs):
        ctx.case(['aggr', col], kind='aggregate-tie')
        if 'driver_error' in out:
            ctx.divergence('driver error in aggregate model', col, model=out, impl=real); continue
        out = dict(out, distinct=sorted(out['distinct']))
        for k in ('avg', 'avg_distinct'):   # the model keeps (sum, n) exact; Pony returns the float quotient
            mv, rv = out.get(k), real[k]
            if (mv is None) == (rv is None) and (mv is None or abs(mv[0] / mv[1] - rv) <= 1e-9 * max(1.0, abs(rv))):
                out[k] = rv
        if out != real:
            ctx.divergence('aggregate model (Model/Aggr.lean) and real Pony on SQLite disagree', col, model=out, impl=real)
            # the property oracle for the same input: Python on the column
            nn = [x for x in col if x is not None]
            exp = {'count_none': len(set(nn)), 'count_false': len(nn), 'count_true': len(set(nn)), 'sum': sum(nn), 'sum_distinct': sum(set(nn)),
                   'min': min(nn) if nn else None, 'max': max(nn) if nn else None, 'distinct': sorted(set(nn)),
                   'avg': sum(nn) / len(nn) if nn else None, 'avg_distinct': sum(set(nn)) / len(set(nn)) if nn else None}
            for k in ('avg', 'avg_distinct'):
                if exp[k] is not None and real[k] is not None and abs(exp[k] - real[k]) <= 1e-9 * max(1.0, abs(exp[k])): exp[k] = real[k]
            if real != exp:
                ctx.violation('aggregate over a nullable column differs from the Python operation on the column', {'column': col},
                              observed=real, expected=exp, key='aggr:%r' % (sorted(k for k in exp if exp[k] != real[k]),))

def gconcat_tie(ctx):
    """GROUP_CONCAT model against real Pony on SQLite: nullable string column, several separators"""
    if not ctx.driver.ok:
        ctx.note('driver unavailable: group_concat tie skipped'); return
    rng = ctx.rng
    cols = [[], [None], ['a'], ['a', None, 'b'], ['x', 'x', ''], [None, 'p,q', 'r']]
    for _ in range(ctx.scale(15, 150)):
        cols.append([rng.choice([None, 'a', 'b', 'ab', '', 'x y', 'é', ',', '|']) for _ in range(rng.choice([1, 2, 3, 5, 8]))])
    reqs, reals = [], []
    for col in cols:
        sep = rng.choice([',', '|', ', ', '', '--'])
        db = Database()
        class V(db.Entity):
            t = Optional(str, nullable=True)
        db.bind('sqlite', ':memory:'); db.generate_mapping(create_tables=True)
        with db_session:
            for x in col: V(t=x)
        with db_session:
            # group_concat has no ORDER BY of its own: SQLite concatenates in scan (= id) order for a single-table query
            real = select(x.t for x in V).without_distinct().group_concat(sep)
        db.disconnect()
        reqs.append({'op': 'gconcat', 'col': col, 'sep': sep}); reals.append(real)
    outs = ctx.driver('C24', reqs)
    for col, rq, real, out in zip(cols, reqs, reals, outs):
        ctx.case(['gconcat', col, rq['sep']], kind='group-concat-tie')
        if out != real:
            ctx.divergence('group_concat model (Model/Aggr.lean) and real Pony on SQLite disagree', [col, rq['sep']], model=out, impl=real)
            nn = [x for x in col if x is not None]
            exp = rq['sep'].join(nn) if nn else None
            if real != exp:
                ctx.violation('group_concat over a nullable string column differs from sep.join of the non-missing values', {'column': col, 'sep': rq['sep']},
                              observed=real, expected=exp, key='group_concat:%r' % (rq['sep'],))

def qresult_tie(ctx):
    """the list-like QueryResult object: random sequences of len / indexing / slicing / in / index / iteration / reversed / == /
    reverse() on results created lazily (limit, page) and eagerly (q[a:b], fetch) — real Pony == Model/QResult.lean == Python list of
    the window, whichever call materialises the result (pickling of results belongs to C31)"""
    rng = ctx.rng
    reqs, reals, metas = [], [], []
    def one_op(ids):
        k = rng.choice(['len', 'get', 'slice', 'mem', 'index', 'iter', 'rev', 'eq', 'reverse'])
        if k == 'get': return ['get', rng.choice([0, 0, 1, 2, 3, 7])]
        if k == 'slice': return ['slice', rng.choice([None, 0, 1, 2, 9]), rng.choice([None, 0, 1, 2, 3, 9])]
        if k in ('mem', 'index'): return [k, rng.choice(ids + [0, 99]) if ids else 99]
        if k == 'eq':
            cand = rng.choice([ids, ids[1:], ids[:1], list(reversed(ids)), []])
            return ['eq', list(cand)]
        return [k]
    def apply(res, op, byid):
        k = op[0]
        try:
            if k == 'len': return len(res)
            if k == 'get': return {'item': res[op[1]].id}
            if k == 'slice': return [x.id for x in res[op[1]:op[2]]]
            if k == 'mem': return (byid[op[1]] in res) if op[1] in byid else False
            if k == 'index': return res.index(byid[op[1]]) if op[1] in byid else {'error': 'ValueError'}
            if k == 'iter': return [x.id for x in res]
            if k == 'rev': return [x.id for x in reversed(res)]
            if k == 'eq': return res == [byid[i] for i in op[1]]
            if k == 'reverse': return res.reverse()
        except IndexError: return {'error': 'IndexError'}
        except ValueError: return {'error': 'ValueError'}
    def py_apply(xs, op):
        k = op[0]
        try:
            if k == 'len': return len(xs)
            if k == 'get': return {'item': xs[op[1]]}
            if k == 'slice': return xs[op[1]:op[2]]
            if k == 'mem': return op[1] in xs
            if k == 'index': return xs.index(op[1])
            if k == 'iter': return list(xs)
            if k == 'rev': return list(reversed(xs))
            if k == 'eq': return xs == op[1]
            if k == 'reverse': return xs.reverse()
        except IndexError: return {'error': 'IndexError'}
        except ValueError: return {'error': 'ValueError'}
    for rd in range(ctx.scale(8, 60)):
        n = rng.choice([0, 1, 3, 6, 10])
        db, G, H = build_db(rng, n)
        with db_session:
            q = select(g for g in G).order_by(G.id)
            ids = [g.id for g in q[:]]
            byid = {g.id: g for g in G.select()}
            for _ in range(ctx.scale(10, 25)):
                form = rng.choice(['limit', 'limit', 'page', 'slice', 'fetch'])
                if form == 'page':
                    pn = rng.choice([1, 2, 3]); ps = rng.choice([1, 2, 3]); l, o = ps, (pn - 1) * ps
                    mk = lambda: q.page(pn, ps); lazy = True; desc_ = 'q.page(%d, %d)' % (pn, ps)
                elif form == 'slice':
                    a = rng.choice([None, 0, 1, 2, 4]); b = rng.choice([None, 1, 2, 3, 6, 20])
                    if b is not None and (a or 0) >= b: l, o = 0, None
                    elif b is None: l, o = None, (a or None)
                    else: l, o = b - (a or 0), (a or 0)
                    mk = lambda: q[a:b]; lazy = False; desc_ = 'q[%r:%r]' % (a, b)
                else:
                    l = rng.choice([None, 0, 1, 2, 3, 7]); o = rng.choice([None, 0, 1, 2, 5])
                    mk = (lambda: q.limit(l, offset=o)) if form == 'limit' else (lambda: q.fetch(l, offset=o))
                    lazy = form == 'limit'; desc_ = 'q.%s(%r, offset=%r)' % (form, l, o)
                ops = [one_op(ids) for _ in range(rng.choice([1, 2, 4, 6]))]
                res = mk()
                real = [apply(res, op, byid) for op in ops]
                win = py_window(ids, l, o); xs = list(win)
                exp = [py_apply(xs, op) for op in ops]
                ctx.case(['qresult', desc_, ops], kind='oracle:query-result-object')
                if real != exp:
                    ctx.violation('list-like calls on a query result differ from the same calls on the Python list of its window',
                                  {'result': desc_, 'calls': ops, 'R': ids, 'window': win}, observed=real, expected=exp, key='qresult:%s:%r:%r' % (form, ops[0][0], lazy))
                reqs.append({'op': 'qres', 'R': ids, 'l': l, 'o': o, 'lazy': lazy, 'ops': ops}); reals.append(real); metas.append(desc_)
        db.disconnect()
    outs = ctx.driver('C24', reqs)
    for rq, real, out, d in zip(reqs, reals, outs, metas):
        ctx.case(['qres-tie', d, rq['ops']], kind='query-result-tie')
        if out != real:
            ctx.divergence('QueryResult model (Model/QResult.lean) and real Pony disagree', {'result': d, 'R': rq['R'], 'calls': rq['ops']}, model=out, impl=real)

def run(ctx):
    translator_tie(ctx)
    for part in (aggr_tie, gconcat_tie, qresult_tie, method_oracle, extra_oracle):
        try:
            part(ctx)
        except Exception as e:
            # the real code raised on a valid query-method chain: the method did not return what Python returns
            import traceback
            tb = traceback.extract_tb(e.__traceback__)
            where = next((f for f in reversed(tb) if '/pony/' in f.filename), tb[-1])
            ctx.violation('a query method raised %s on a valid chain (%s)' % (type(e).__name__, str(e)[:200]),
                          {'part': part.__name__, 'exception': type(e).__name__, 'message': str(e)[:300], 'where': '%s:%s %s' % (where.filename, where.lineno, where.name),
                           'harness_line': next((f.lineno for f in reversed(tb) if f.filename.endswith('c24.py')), None)},
                          observed='raised ' + type(e).__name__, expected='the list operation result',
                          key='raised:%s:%s' % (type(e).__name__, where.name))

def replay(ctx, data):
    run(ctx)
