"""C11 — one in-memory object per primary key per session; key indexes map exactly the current values.

Tie (correspondence): random entity models — explicit / auto / composite primary key, unique attributes, composite keys,
optional attributes with None, a class hierarchy (base class references later loaded as a subclass), a helper entity R
whose rows reference the entity (seeds, navigation, prefetch) and, in some models, a required one-to-one reference whose
update makes the constructor fail AFTER the identity map was touched, and, in some, a parent entity P whose delete cascades
to the objects and is then refused by a second collection (nested deletes undone) — are built as real Pony classes over in-memory
SQLite and pre-populated.  A random history of calls runs inside one db_session: constructor calls (valid, key
conflicts, pk conflicts, late failures), attribute assignment and set(**kw) (valid and conflicting, key parts, None),
delete, P.delete() (cascade, refused or not), flush (auto primary keys), E[pk], get(**kw) by primary / unique / composite key, select() with and without a
filter, select_by_sql with a subset of the columns, obj.load(), navigation r.e, prefetch, pickle / unpickle in the same
session, proxies, attribute reads.  Every real call is translated into a group of operations of the Lean model
(`Model/KeyIndex.lean`); after EVERY call the outcome, the identity (creation number) of every returned object, every
object's status / primary key / values / database values / read and write bits, `cache.indexes` (primary key, every
unique and composite key) and `objects_to_save` are compared with the model driven with the same history.

Property oracle (real objects only, after every call, failing calls included):
  * identity: among all objects ever obtained in the session no two that still hold their primary key share it, every
    returned object IS `cache.indexes[pk][its pk]`, a proxy resolves to the same object;
  * indexes: `cache.indexes[pk]` equals {pk: obj} over the session's objects that hold a primary key (not cancelled /
    flushed-deleted); `cache.indexes[key]` equals {current value: obj} over the non-deleted objects whose key value has no None.
"""
import pickle, random, re, signal, sys, types, json
from pony.orm import db_session, flush, commit, rollback, select, ObjectNotFound
from pony.orm import core

DEL = core.del_statuses
NL = 'NL'
_world_counter = [0]

# ---------------------------------------------------------------- models

def _gen_spec_base(rng):
    n = rng.choice([1, 2, 2, 3, 3, 4])
    unique = [rng.random() < 0.5 for _ in range(n)]
    ckeys = []
    if n >= 2:
        for _ in range(rng.choice([0, 0, 1, 1, 2])):
            k = rng.sample(range(n), 3 if (n >= 3 and rng.random() < 0.3) else 2)
            if k not in ckeys: ckeys.append(k)
    if not any(unique) and not ckeys and rng.random() < 0.7: unique[rng.randrange(n)] = True
    nsub = rng.choice([0, 0, 1, 2])
    parents = [None] + ([0] if nsub >= 1 else []) + ([rng.choice([0, 1])] if nsub == 2 else [])
    return {'nattrs': n, 'unique': unique, 'ckeys': ckeys, 'pk': rng.choice(['explicit', 'explicit', 'auto', 'auto', 'composite']),
            'parents': parents, 'with_h': rng.random() < 0.2, 'with_p': False}


def gen_spec(rng):
    spec = _gen_spec_base(rng)
    # a parent entity P: `items = Set(E0, cascade_delete=True)` followed by a collection that REFUSES the delete
    spec['with_p'] = (not spec['with_h']) and rng.random() < 0.3
    # primary key containing a relationship attribute: PrimaryKey(owner, issue) with the one-to-one reverse Q.badge
    # ('relpk'), or the one-to-one reference itself as the primary key ('relpk1')
    if rng.random() < 0.22:
        spec['pk'] = rng.choice(['relpk', 'relpk', 'relpk1']); spec['with_h'] = spec['with_p'] = False
    # custom discriminator values; the root's value is FALSY (0 / ''): the class checks must not depend on its truth value
    spec['discr'] = rng.choice([None, None, 'int', 'str']) if len(spec['parents']) > 1 else None
    return spec



class World:
    def __init__(self, spec, dbfile=None):
        self.spec = spec
        _world_counter[0] += 1
        self.modname = 'c11w_%d' % _world_counter[0]
        mod = types.ModuleType(self.modname); sys.modules[self.modname] = mod
        ns = mod.__dict__
        self.db = db = core.Database()
        ns['db'] = db
        for k in ('PrimaryKey', 'Optional', 'Required', 'Set', 'composite_key', 'Discriminator'): ns[k] = getattr(core, k)
        n = spec['nattrs']; pk = spec['pk']; parents = spec['parents']
        L = ['class E0(db.Entity):']
        if pk == 'explicit': L.append('    id = PrimaryKey(int)')
        elif pk == 'composite': L += ['    p0 = Required(int)', '    p1 = Required(int)', '    PrimaryKey(p0, p1)']
        elif pk == 'relpk': L += ["    owner = Required('Q')", '    issue = Required(int)', '    PrimaryKey(owner, issue)']
        elif pk == 'relpk1': L += ["    owner = PrimaryKey('Q')"]
        if pk in ('relpk', 'relpk1'):
            L[:0] = ['class Q(db.Entity):', '    id = PrimaryKey(int)', "    badge = Optional('E0')"]
        for i in range(n): L.append('    a%d = Optional(int%s)' % (i, ', unique=True' if spec['unique'][i] else ''))
        for k in spec['ckeys']: L.append('    composite_key(%s)' % ', '.join('a%d' % i for i in k))
        dv = self.discr_values = {None: ['E%d' % c for c in range(len(parents))], 'int': [0, 1, 2], 'str': ['', 'b', 'c']}[spec.get('discr')][:len(parents)]
        if spec.get('discr'):
            L.append('    classtype = Discriminator(%s)' % spec['discr'])
            L.append('    _discriminator_ = %r' % dv[0])
        L.append("    rs = Set('R', reverse='e')")
        if spec['with_h']: L.append("    h = Required('H')")
        if spec.get('with_p'): L.append("    p = Optional('P')")
        for c in range(1, len(parents)):
            L.append('class E%d(E%d):' % (c, parents[c]))
            if spec.get('discr'): L.append('    _discriminator_ = %r' % dv[c])
            L.append("    rf = Set('R', reverse='f')" if c == 1 else '    pass')
            if c == 1:
                # attributes and keys declared IN THE DERIVED ENTITY (single-table inheritance): columns n, n+1, …
                for j, u in enumerate(spec.get('sub_unique') or []):
                    L.append('    a%d = Optional(int%s)' % (n + j, ', unique=True' if u else ''))
                for k in spec.get('sub_ckeys') or []:      # an inherited attribute is named by a string
                    L.append('    composite_key(%s)' % ', '.join(('a%d' % i) if i >= n else ("'a%d'" % i) for i in k))
        L += ['class R(db.Entity):', "    e = Optional(E0, reverse='rs')"]
        if len(parents) > 1: L.append("    f = Optional(E1, reverse='rf')")
        if spec['with_h']: L += ['class H(db.Entity):', '    e = Optional(E0)']
        if spec.get('with_p'):
            # deleting a P cascades to its items FIRST (declaration order), then the second collection refuses when it is not empty
            L += ['class P(db.Entity):', "    items = Set('E0', cascade_delete=True)", "    locks = Set('L', cascade_delete=False)",
                  'class L(db.Entity):', "    p = Required('P')"]
        self.source = '\n'.join(L)
        exec(self.source, ns)
        self.classes = [ns['E%d' % c] for c in range(len(parents))]
        self.E0 = self.classes[0]; self.R = ns['R']; self.H = ns.get('H'); self.P = ns.get('P'); self.L = ns.get('L'); self.Q = ns.get('Q')
        self.ps = []; self.qs = {}; self.relpk = pk if pk in ('relpk', 'relpk1') else None
        if dbfile is None: db.bind('sqlite', ':memory:')
        else: db.bind('sqlite', dbfile, create_db=True)
        if spec.get('legacy'):
            # a table created before `unique=True` / composite_key were added to the model: Pony's own DDL with the UNIQUE constraints
            # of the non-primary keys stripped — only the session's key indexes can report a conflict
            db.generate_mapping(check_tables=False, create_tables=False)
            script = db.schema.generate_create_script()
            script = re.sub(r',\s*CONSTRAINT "[^"]*" UNIQUE \([^)]*\)', '', script)
            script = re.sub(r'^(\s*"a\d+" [A-Z]+) UNIQUE', r'\1', script, flags=re.M)
            with db_session(ddl=True):
                for stmt in script.split(';'):
                    if stmt.strip(): db.execute(stmt)
        else:
            db.generate_mapping(create_tables=True)
        E0 = self.E0
        nsub = len(spec.get('sub_unique') or []) if len(parents) > 1 else 0
        KE = self.classes[1] if nsub else E0                     # the entity that knows every attribute and key
        self.attrs = [getattr(KE, 'a%d' % i) for i in range(n + nsub)]
        self.attr_cls = [0] * n + [1] * nsub                     # the class that declares attribute i
        n = n + nsub
        self.pk_attrs = E0._pk_attrs_
        self.composite_pk = len(self.pk_attrs) > 1
        self.auto = pk == 'auto'
        # the model's schema is read back from the real classes
        self.keys = [[self.attrs.index(a)] for a in KE._simple_keys_] + [[self.attrs.index(a) for a in k] for k in KE._composite_keys_]
        self.key_objs = [a for a in KE._simple_keys_] + [k for k in KE._composite_keys_]      # keys of cache.indexes
        # does a subclass number the read/write bits of its base's attributes differently (then a modified base-class stub cannot
        # be refined: NotImplementedError in _get_from_identity_map_)
        differ = any(sub._bits_.get(attr) != bit for base in self.classes for sub in self.classes
                     if sub is not base and issubclass(sub, base) for attr, bit in base._bits_.items())
        self.model_schema = {'nattrs': n, 'keys': self.keys, 'parent': parents, 'classBitsDiffer': bool(differ)}
        self.table = E0._table_
        self.pk_cols = [c for a in self.pk_attrs for c in a.columns]
        self.hier = len(parents) > 1
        self.con = None
        self.objs = []          # E objects in model numbering
        self.dumps = []         # (pickle bytes, model row) made in this session
        self.log = []

    def close(self):
        try: self.db.disconnect()
        except Exception: pass
        sys.modules.pop(self.modname, None)

    # ---- helpers
    def cache(self): return self.db._get_cache()
    def raw(self):
        con = self.db.provider.pool.con
        if con is not self.con:
            self.con = con
            if con is not None: con.set_trace_callback(self.log.append)
        return con
    def pkl(self, o):
        p = o._pkval_
        if p is None: return None
        if self.relpk: return list(o._get_raw_pkval_())          # the related object counts as its own primary key
        return list(p) if self.composite_pk else [p]
    def rawkey(self, k):
        if self.relpk == 'relpk': return [k[0]._pkval_, k[1]]
        if self.relpk == 'relpk1': return [k._pkval_]
        return list(k) if self.composite_pk else [k]
    def pkt(self, pk):
        if self.relpk:
            if pk[0] not in self.qs: raise StaleOp()
            return (self.qs[pk[0]], pk[1]) if self.relpk == 'relpk' else self.qs[pk[0]]
        return tuple(pk) if self.composite_pk else pk[0]
    def pk_kw(self, pk):
        if self.relpk:
            if pk[0] not in self.qs: raise StaleOp()
            return {'owner': self.qs[pk[0]], 'issue': pk[1]} if self.relpk == 'relpk' else {'owner': self.qs[pk[0]]}
        return {'p0': pk[0], 'p1': pk[1]} if self.composite_pk else {'id': pk[0]}
    def idx(self, x):
        for i, o in enumerate(self.objs):
            if o is x: return i
        return -1
    def reg(self, x):
        i = self.idx(x)
        if i < 0:
            self.objs.append(x); i = len(self.objs) - 1
        return i
    def cidx(self, o): return self.classes.index(type(o))
    def subclasses(self, c):
        out = [c]
        for d in range(len(self.spec['parents'])):
            p = d
            while p is not None and p != c: p = self.spec['parents'][p]
            if p == c and d not in out: out.append(d)
        return out
    def db_rows(self, where='', params=()):
        """rows of the entity table as the session's connection sees them, in primary-key order: [{cls, pk, vals}]"""
        con = self.raw()
        cols = self.pk_cols + ['a%d' % i for i in range(len(self.attrs))] + (['classtype'] if self.hier else [])
        sql = 'select %s from "%s" %s order by %s' % (', '.join('"%s"' % c for c in cols), self.table, where, ', '.join('"%s"' % c for c in self.pk_cols))
        saved = self.log[:]
        rows = con.execute(sql, params).fetchall()
        self.log[:] = saved
        npk = len(self.pk_cols); n = len(self.attrs)
        return [{'cls': self.discr_values.index(r[-1]) if self.hier else 0, 'pk': list(r[:npk]), 'vals': list(r[npk:npk + n])} for r in rows]
    def live_index_obj(self, pk):
        return self.cache().indexes[self.pk_attrs].get(self.pkt(pk))

    # ---- setup
    def populate_setup(self):
        """rows a directed history wants committed before its session (part of the spec, so that replays have them too)"""
        rows = self.spec.get('setup_rows')
        if rows:
            with db_session:
                for kw in rows: self.E0(**kw)

    def populate_parents(self, with_q=False):
        if with_q and self.Q is not None:
            with db_session:
                for i in range(1, 5): self.Q(id=i)
        if self.P is None: return
        with db_session:
            p0 = self.P(); self.P()
            self.L(p=p0)               # P[1] refuses to be deleted, P[2] does not

    def populate(self, rng):
        n = len(self.attrs)
        with db_session:
            made = []
            qs = {i: self.Q(id=i) for i in range(1, 5)} if self.Q else {}
            for _ in range(rng.choice([0, 1, 2, 3, 4, 5])):
                kw = self.rand_create_kw(rng, explicit_auto=False)
                cls = self.classes[rng.randrange(len(self.classes))]
                if self.H: kw['h'] = self.H()
                if self.Q: kw['owner'] = qs[kw['owner']]
                try: made.append(cls(**kw))
                except Exception: pass
            for _ in range(rng.choice([0, 1, 2, 3])):
                kw = {}
                if made and rng.random() < 0.8: kw['e'] = rng.choice(made)
                if self.hier:
                    subs = [o for o in made if self.cidx(o) in self.subclasses(1)]
                    if subs and rng.random() < 0.7: kw['f'] = rng.choice(subs)
                self.R(**kw)
            try: commit()
            except Exception: rollback()

    def rand_val(self, rng):
        return rng.choice([None, 0, 1, 1, 2, 2, 3])
    def rand_pk(self, rng):
        if self.relpk == 'relpk': return [rng.randrange(1, 5), rng.randrange(1, 3)]
        if self.relpk == 'relpk1': return [rng.randrange(1, 5)]
        return [rng.randrange(1, 3), rng.randrange(1, 4)] if self.composite_pk else [rng.randrange(1, 7)]
    def has_attr(self, o_or_cls, i):
        c = o_or_cls if isinstance(o_or_cls, int) else self.cidx(o_or_cls)
        return self.attr_cls[i] == 0 or 1 in self._ancestors(c)

    def _ancestors(self, c):
        out = []
        while c is not None: out.append(c); c = self.spec['parents'][c]
        return out

    def rand_create_kw(self, rng, explicit_auto=True, cls=0):
        kw = {}
        if self.relpk:
            p = self.rand_pk(rng); kw['owner'] = p[0]              # the id of a Q; op_create passes the object
            if self.relpk == 'relpk': kw['issue'] = p[1]
        elif self.composite_pk:
            p = self.rand_pk(rng); kw['p0'], kw['p1'] = p
        elif not self.auto or (explicit_auto and rng.random() < 0.25):
            kw['id'] = self.rand_pk(rng)[0]
        for i in range(len(self.attrs)):
            if not self.has_attr(cls, i): continue
            v = self.rand_val(rng)
            if v is not None or rng.random() < 0.3: kw['a%d' % i] = v
        return kw

    # ---- real calls; each returns {'err', 'yields': [objects] | None, 'mops': [model ops], 'end': bool}
    def apply(self, op):
        self.log.clear()
        self.raw()
        n0 = len(self.objs)
        try:
            res = getattr(self, 'op_' + op['k'])(op)
        except StaleOp:
            return {'skip': True}
        # objects that entered the session as a side effect (rows of R fetched inside delete / navigation name them): seeds
        left = [o for o in self.cache().objects if isinstance(o, self.E0) and self.idx(o) < 0]
        if left:
            left.sort(key=lambda o: self.pkl(o) or [])
            explicit_new = len(self.objs) > n0
            seeds = []
            for o in left:
                self.reg(o)
                if o._pkval_ is not None: seeds.append({'k': 'seed', 'cls': self.cidx(o), 'pk': self.pkl(o)})
            res['mops'] = (res['mops'] + seeds) if explicit_new else (seeds + res['mops'])
            res['side_seeds'] = len(seeds)
        return res

    def call(self, f):
        # a watchdog: a real call that blocks (a lock that was never released) is reported as an outcome, not waited for
        def on_alarm(signum, frame): raise CallTimedOut('the call did not return within 20 s')
        old = signal.signal(signal.SIGALRM, on_alarm); signal.setitimer(signal.ITIMER_REAL, 20)
        try: return None, f()
        except Exception as e: return type(e).__name__, e
        finally:
            signal.setitimer(signal.ITIMER_REAL, 0); signal.signal(signal.SIGALRM, old)

    def obj(self, i):
        if not isinstance(i, int) or i < 0 or i >= len(self.objs): raise StaleOp()
        return self.objs[i]

    def op_create(self, op):
        kw = dict(op['kw'])
        late = False
        if self.H:
            if op.get('steal') is not None:
                h = self.obj(op['steal'])._vals_.get(self.E0.h)
                if h is None or h._status_ in DEL or self.H.e not in h._vals_: raise StaleOp()
                cur = h._vals_[self.H.e]
                late = cur is not None
                kw['h'] = h
            else: kw['h'] = self.H()
        if op.get('parent') is not None:
            if not self.ps or self.ps[op['parent']]._status_ in DEL: raise StaleOp()
            kw['p'] = self.ps[op['parent']]
        before = None
        if self.relpk:
            if kw['owner'] not in self.qs: raise StaleOp()
            q = self.qs[kw['owner']]
            pk = [kw['owner'], kw['issue']] if self.relpk == 'relpk' else [kw['owner']]
            kw['owner'] = q
            # the primary-key attribute's own update_reverse raises INSIDE the identity map: the owner is marked deleted, or its
            # one-to-one side is occupied ('Cannot unlink …')
            if q._status_ in DEL: late = True
            else:
                if self.Q.badge not in q._vals_: raise StaleOp()           # would query the database inside the constructor
                cur = q._vals_[self.Q.badge]
                late = cur is not None
        cache = self.cache()
        before = (set(id(o) for o in cache.objects if isinstance(o, self.E0)), set(cache.indexes[self.pk_attrs]))
        cls = self.classes[op['cls']]
        err, res = self.call(lambda: cls(**kw))
        if not self.relpk: pk = [kw['p0'], kw['p1']] if self.composite_pk else ([kw['id']] if 'id' in kw else None)
        mop = {'k': 'create', 'cls': op['cls'], 'pk': pk, 'vals': [kw.get('a%d' % i) for i in range(len(self.attrs))], 'lateFail': late}
        if err is None: self.reg(res)
        out = {'err': err, 'yields': [res] if err is None else [], 'mops': [mop], 'late': late}
        if err is not None:
            # the property, for a failed creation: nothing of it stays in the session (no zombie in cache.objects / the identity map)
            after = (set(id(o) for o in cache.objects if isinstance(o, self.E0)), set(cache.indexes[self.pk_attrs]))
            if after != before:
                out['extra_bad'] = [('failed-create-left-object-behind',
                                     {'outcome': err, 'new objects in the session': len(after[0] - before[0]),
                                      'new primary-key index entries': sorted(repr(k) for k in after[1] - before[1])})]
        return out

    def op_qdelete(self, op):
        """Q[i].delete() of an owner without a badge (with one the delete is refused: Q.badge has no cascade)"""
        if op['q'] not in self.qs: raise StaleOp()
        q = self.qs[op['q']]
        if q._status_ in DEL or self.Q.badge not in q._vals_ or q._vals_[self.Q.badge] is not None: raise StaleOp()
        err, _ = self.call(q.delete)
        return {'err': err, 'yields': None, 'mops': []}

    def op_qinit(self, op):
        """the session reads every owner's one-to-one side first (so that constructors do not query the database)"""
        if not self.Q: raise StaleOp()
        rows = self.db_rows()
        def f():
            for i in sorted(self.qs): self.qs[i].badge
        err, _ = self.call(f)
        by_owner = {}
        for r in rows: by_owner.setdefault(r['pk'][0], []).append(r)
        mops = []
        for i in sorted(self.qs):
            for r in by_owner.get(i, [])[:1]:
                mops.append(self.row_mop(r))
                o = self.cache().indexes[self.pk_attrs].get(self.pkt(r['pk']))
                if o is not None: self.reg(o)
        return {'err': err, 'yields': None, 'mops': mops}

    def op_set(self, op):
        o = self.obj(op['o'])
        ch = op['changes']
        if op.get('via') == 'attr' and len(ch) == 1:
            err, _ = self.call(lambda: setattr(o, 'a%d' % ch[0][0], ch[0][1]))
        else:
            err, _ = self.call(lambda: o.set(**{'a%d' % a: v for a, v in ch}))
        return {'err': err, 'yields': None, 'mops': [{'k': 'set', 'o': op['o'], 'changes': [list(c) for c in ch]}]}

    def op_read(self, op):
        o = self.obj(op['o'])
        if o._vals_ is None or self.attrs[op['a']] not in o._vals_: raise StaleOp()
        err, _ = self.call(lambda: getattr(o, 'a%d' % op['a']))
        return {'err': err, 'yields': None, 'mops': [{'k': 'read', 'o': op['o'], 'a': op['a']}]}

    def op_delete(self, op):
        o = self.obj(op['o'])
        if self.H and o._status_ not in DEL:
            h = o._vals_.get(self.E0.h)            # the required one-to-one: un-linking it inside delete would load rows
            if h is None or self.H.e not in h._vals_: raise StaleOp()
        st = self.load_state()
        err, _ = self.call(o.delete)
        # a reference that is not loaded (`p` of an object known by primary key only) makes delete load the row first
        loads = self.infer_loads(st)
        res = {'err': err, 'yields': None, 'mops': loads + [{'k': 'delete', 'o': op['o']}]}
        if loads: res['inferred'] = True
        if err == 'TransactionIntegrityError' and loads:
            # the row load INSIDE delete (an object known by primary key only) was refused: the model's `load` predicts it
            res['end'] = True
        elif err is not None:
            # delete reads the rows of R that reference the object; a typed reference (R.f -> E1) naming an object of the base
            # class with read/write bits makes THAT fail (class refinement): relationship code, outside this model
            res['outside_model'] = True; res['end'] = True
        return res

    def op_pdelete(self, op):
        """P[i].delete(): cascades to the E objects in its `items`; P[1] then refuses (its `locks` is not empty): everything is undone"""
        if not self.ps: raise StaleOp()
        p = self.ps[op['p']]
        if p._status_ in DEL: raise StaleOp()
        kids = [i for i, o in enumerate(self.objs) if o._status_ not in DEL and o._vals_ is not None and o._vals_.get(self.E0.p) is p]
        st = self.load_state()
        err, _ = self.call(p.delete)
        loads = self.infer_loads(st)          # reading `items` re-fetches the rows of the flushed children
        if err == 'ConstraintError':
            return {'err': err, 'yields': None, 'mops': loads + [{'k': 'cascadeFail', 'children': kids}], 'nkids': len(kids)}
        if err is None:
            q = [o for o in self.cache().objects_to_save if o is not None]
            pos = lambda i: next((j for j, x in enumerate(q) if x is self.objs[i]), -1)
            kids.sort(key=pos)
            return {'err': None, 'yields': None, 'mops': loads + [{'k': 'delete', 'o': i} for i in kids], 'nkids': len(kids), 'cascade_ok': True}
        return {'err': err, 'yields': None, 'mops': loads, 'outside_model': True, 'end': True}

    def op_flush(self, op):
        cache = self.cache()
        q = [o for o in cache.objects_to_save if o is not None and isinstance(o, self.E0)]
        before = [(o._status_, o._pkval_) for o in q]
        err, exc = self.call(flush)
        mops = []; refused = False
        for o, (st, pk0) in zip(q, before):
            i = self.idx(o)
            if o._status_ == st:
                # not saved: either the failing object or one after it
                if err == 'TransactionIntegrityError' and 'Newly auto-generated id value' in str(exc) and st == 'created' and pk0 is None and not refused:
                    new_id = int(str(exc).split('Newly auto-generated id value')[1].split()[0])
                    mops.append({'k': 'saveCreated', 'o': i, 'newId': new_id})
                refused = True
                break
            if st == 'created': mops.append({'k': 'saveCreated', 'o': i, 'newId': o._pkval_ if pk0 is None else None})
            elif st == 'modified': mops.append({'k': 'saveUpdated', 'o': i})
            elif st == 'marked_to_delete': mops.append({'k': 'saveDeleted', 'o': i})
        db_refused = err is not None and not (mops and mops[-1].get('newId') is not None and 'Newly auto-generated' in str(exc))
        return {'err': err, 'yields': None, 'mops': mops, 'end': err is not None, 'db_refused': db_refused}

    def need_flushed(self):
        if self.cache().modified: raise StaleOp()

    def row_mop(self, row, used=(), unpickling=False):
        return {'k': 'load', 'cls': row['cls'], 'pk': row['pk'], 'vals': row['vals'], 'used': list(used), 'unpickling': unpickling}

    def class_where(self, c):
        if not self.hier: return '', []
        subs = self.subclasses(c)
        return '"classtype" in (%s)' % ', '.join(("'%s'" % self.discr_values[d]) if isinstance(self.discr_values[d], str) else str(self.discr_values[d]) for d in subs), []

    def op_get(self, op):
        """E[pk] / E.get(pk) / E.get(**kw)"""
        self.need_flushed()
        cls = self.classes[op['cls']]
        kw = {'a%d' % a: v for a, v in op['kw']}
        pk = op.get('pk')
        if pk is not None:
            kw.update(self.pk_kw(pk))
            if self.relpk and self.qs[pk[0]]._status_ in DEL: raise StaleOp()      # a deleted object as a search value is refused by validate
        conds = []; params = []
        cw, _ = self.class_where(op['cls'])
        if cw: conds.append(cw)
        if pk is not None:
            for c, v in zip(self.pk_cols, pk): conds.append('"%s" = ?' % c); params.append(v)
        for a, v in op['kw']: conds.append('"a%d" = ?' % a); params.append(v)
        rows = self.db_rows('where ' + ' and '.join(conds) if conds else '', params)
        # a candidate found in the cache whose criteria attribute is not loaded would make _find_in_cache_ load it: not generated
        cand = self.peek_candidate(pk, op['kw'])
        if cand is not None:
            if cand._vals_ is None or any(self.attrs[a] not in cand._vals_ for a, _ in op['kw']): raise StaleOp()
            if self.hier and cand in self.cache().seeds[self.pk_attrs]: raise StaleOp()
        rel_fallback = False
        if cand is None and self.relpk and pk is not None:
            # `_find_in_cache_` has a 4th way: through the reverse one-to-one attribute of a value (`q.badge`); the object found
            # there has another primary key, so the answer is ObjectNotFound without asking the database (relationship path)
            if op['kw']: raise StaleOp()
            b = self.qs[pk[0]]._vals_.get(self.Q.badge) if pk[0] in self.qs else None
            rel_fallback = b is not None
            if rel_fallback and self.idx(b) < 0: raise StaleOp()
        self.log.clear()
        if op.get('how') == 'item' and pk is not None and not op['kw']:
            err, res = self.call(lambda: cls[self.pkt(pk)])
        else:
            err, res = self.call(lambda: cls.get(**kw))
            if err is None and res is None: err = 'ObjectNotFound'
        queried = any(s.lstrip().upper().startswith('SELECT') for s in self.log)
        mops = [{'k': 'find', 'cls': op['cls'], 'pk': pk, 'kw': [list(p) for p in op['kw']]}]
        if rel_fallback: mops.append({'k': 'findVia', 'cls': op['cls'], 'pk': pk, 'via': self.idx(b), 'kw': []})
        if queried and len(rows) == 1: mops.append(self.row_mop(rows[0], used=[a for a, _ in op['kw']]))
        ys = []
        if err is None: self.reg(res); ys = [res]
        out = {'err': err, 'yields': ys, 'mops': mops, 'queried': queried, 'nrows': len(rows), 'rel_fallback': rel_fallback}
        if err is None and not isinstance(res, cls):
            # a lookup through an entity returns an object of that entity (or a subclass) — whatever the discriminator values are
            out['extra_bad'] = [('lookup-returned-object-of-another-class', {'asked': cls.__name__, 'got': type(res).__name__, 'pk': repr(res._pkval_)})]
        return out

    def peek_candidate(self, pk, kw):
        ix = self.cache().indexes
        if pk is not None:
            o = ix[self.pk_attrs].get(self.pkt(pk))
            if o is not None: return o
        d = dict(kw)
        for key, ko in zip(self.keys, self.key_objs):
            if all(a in d for a in key):
                v = d[key[0]] if len(key) == 1 else tuple(d[a] for a in key)
                o = ix[ko].get(v) if ko in ix else None
                if o is not None: return o
        return None

    def op_select(self, op):
        self.need_flushed()
        cls = self.classes[op['cls']]
        conds = []; params = []
        cw, _ = self.class_where(op['cls'])
        if cw: conds.append(cw)
        used = []
        if op.get('filt') is not None:
            a, k = op['filt']
            q = cls.select('lambda e: e.a%d >= %d' % (a, k)); conds.append('"a%d" >= ?' % a); params.append(k); used = [a]
        else: q = cls.select()
        q = q.order_by(*[getattr(self.E0, c.name) for c in self.pk_attrs])
        rows = self.db_rows('where ' + ' and '.join(conds) if conds else '', params)
        self.log.clear()
        err, res = self.call(lambda: q[:])
        queried = any(s.lstrip().upper().startswith('SELECT') for s in self.log)
        mops = [self.row_mop(r) for r in rows] if queried else []
        ys = []
        if err is None:
            ys = list(res)
            for o in ys: self.reg(o)
        # `_set_rbits(objects, used_attrs)` runs once, after ALL rows were processed (not at all when a row raised)
        if queried and used and err is None: mops.append({'k': 'markRead', 'os': [self.idx(o) for o in ys], 'attrs': used})
        return {'err': err, 'yields': ys if queried else None, 'mops': mops, 'results': ys}

    def op_sql(self, op):
        """select_by_sql with a subset of the columns (pk and classtype always)"""
        self.need_flushed()
        cols = list(self.pk_cols) + (['classtype'] if self.hier else []) + ['a%d' % a for a in op['attrs']] + (['h'] if self.H else [])
        where = ''; params = []
        if op.get('pk') is not None:
            where = 'where ' + ' and '.join('"%s" = %d' % (c, v) for c, v in zip(self.pk_cols, op['pk']))
        rows = self.db_rows(where)
        sql = 'select %s from "%s" %s order by %s' % (', '.join('"%s"' % c for c in cols), self.table, where, ', '.join('"%s"' % c for c in self.pk_cols))
        err, res = self.call(lambda: self.E0.select_by_sql(sql))
        mops = []
        for r in rows:
            r = dict(r, vals=[v if i in op['attrs'] else NL for i, v in enumerate(r['vals'])])
            mops.append(self.row_mop(r))
        ys = []
        if err is None:
            ys = list(res)
            for o in ys: self.reg(o)
        return {'err': err, 'yields': ys, 'mops': mops}

    def op_load(self, op):
        o = self.obj(op['o'])
        self.need_flushed()
        if o._status_ in core.created_or_deleted_statuses:
            err, _ = self.call(o.load)
            return {'err': err, 'yields': None, 'mops': []}
        missing = [i for i, a in enumerate(self.attrs) if a not in o._vals_]
        rows = self.db_rows('where ' + ' and '.join('"%s" = %d' % (c, v) for c, v in zip(self.pk_cols, self.pkl(o))))
        if len(rows) != 1: raise StaleOp()
        err, _ = self.call(o.load)
        r = dict(rows[0], vals=[v if i in missing else NL for i, v in enumerate(rows[0]['vals'])])
        return {'err': err, 'yields': None, 'mops': [self.row_mop(r)]}

    def infer_loads(self, before_state):
        """model ops for objects the call fetched implicitly (navigation / prefetch): new objects are seeds, objects whose
        loaded attribute set grew (or that stopped being seeds) were fetched with their full row"""
        cache = self.cache()
        mops = []
        new = [o for o in cache.objects if isinstance(o, self.E0) and self.idx(o) < 0]
        new.sort(key=lambda o: self.pkl(o))
        for o in new:
            self.reg(o)
            mops.append({'k': 'seed', 'cls': self.cidx(o), 'pk': self.pkl(o)})
        seeds = cache.seeds[self.pk_attrs]
        late = []
        rows = {tuple(r['pk']): r for r in self.db_rows()}
        for o in sorted([o for o in self.objs if o._pkval_ is not None and o._status_ not in ('deleted', 'cancelled') and o._vals_ is not None], key=lambda o: self.pkl(o)):
            was = before_state.get(id(o))
            now = (o in seeds, frozenset(a for a in self.attrs if a in o._vals_), frozenset(a for a in self.attrs if o._dbvals_ is not None and a in o._dbvals_))
            if was is None: was = (True, frozenset(), frozenset())
            wcls = before_state.get(('cls', id(o)), self.cidx(o))
            if was != now and tuple(self.pkl(o)) in rows:
                # a row whose load was refused midway (database values stored, `_vals_` not) was the LAST one of its batch
                refused = bool(now[2] - now[1])
                (late if refused else mops).append(self.row_mop(rows[tuple(self.pkl(o))]))
            elif wcls != self.cidx(o):
                # a typed reference (R.f -> E1) named an object known as its base class: class refinement without a load
                mops.append({'k': 'seed', 'cls': self.cidx(o), 'pk': self.pkl(o)})
        return mops + late

    def load_state(self):
        cache = self.cache()
        seeds = cache.seeds[self.pk_attrs]
        st = {id(o): (o in seeds, frozenset(a for a in self.attrs if o._vals_ is not None and a in o._vals_),
                      frozenset(a for a in self.attrs if o._dbvals_ is not None and a in o._dbvals_)) for o in self.objs}
        for o in self.objs: st[('cls', id(o))] = self.cidx(o)
        return st

    def op_nav(self, op):
        """r = R[id]; r.e / r.f"""
        self.need_flushed()
        st = self.load_state()
        name = op['attr']
        if not hasattr(self.R, name): raise StaleOp()
        def f():
            r = self.R.get(id=op['r'])
            return None if r is None else getattr(r, name)
        err, res = self.call(f)
        mops = self.infer_loads(st)
        ys = []
        if err is None and res is not None: self.reg(res); ys = [res]
        return {'err': err, 'yields': None, 'mops': mops, 'results': ys, 'inferred': True}

    def op_prefetch(self, op):
        self.need_flushed()
        st = self.load_state()
        R = self.R
        attr = getattr(R, op.get('attr', 'e'), None)
        if attr is None: raise StaleOp()
        err, res = self.call(lambda: select(r for r in R).prefetch(attr)[:])
        mops = self.infer_loads(st)
        ys = []
        if err is None:
            for r in res:
                v = r._vals_.get(attr)
                if v is not None: ys.append(v)
        return {'err': err, 'yields': None, 'mops': mops, 'results': ys, 'inferred': True}

    def op_pickle(self, op):
        o = self.obj(op['o'])
        if self.H or self.relpk or o._vals_ is None: raise StaleOp()     # a loaded one-to-one cycle cannot be pickled
        err, data = self.call(lambda: pickle.dumps(o))
        if err is None:
            row = {'cls': self.cidx(o), 'pk': self.pkl(o), 'vals': [o._vals_.get(a, NL) for a in self.attrs]}
            self.dumps.append((data, row))
        return {'err': None if err in ('OrmError', 'OperationWithDeletedObjectError') else err, 'yields': None, 'mops': []}

    def op_unpickle(self, op):
        if not self.dumps: raise StaleOp()
        data, row = self.dumps[op['d'] % len(self.dumps)]
        err, res = self.call(lambda: pickle.loads(data))
        ys = []
        if err is None: self.reg(res); ys = [res]
        out = {'err': err, 'yields': ys, 'mops': [self.row_mop(row, unpickling=True)]}
        if self.P is not None and err == 'UnrepeatableReadError':
            # the stale pickle names a parent whose `items` collection is fully loaded and does not contain the (deleted) object:
            # `db_reverse_add` refuses the phantom — relationship code, outside this model; the history ends here
            out['outside_model'] = True; out['end'] = True
        return out

    def op_proxy(self, op):
        o = self.obj(op['o'])
        if o._pkval_ is None or self.relpk: raise StaleOp()      # the proxy keeps the RAW key: never found in the index, always entity[pk]
        if self.live_index_obj(self.pkl(o)) is None: raise StaleOp()          # would fall back to entity[pk] (a database query)
        err, res = self.call(lambda: core.make_proxy(o)._get_object())
        return {'err': err, 'yields': [res] if err is None else [], 'mops': [{'k': 'proxy', 'o': op['o']}]}

    # ---- observation
    def slot(self, d, a):
        if d is None or a not in d: return NL
        return d[a]

    def snapshot(self):
        cache = self.cache()
        objs = []
        for o in self.objs:
            bits = o._bits_
            own = [self.has_attr(o, i) for i in range(len(self.attrs))]
            objs.append({'cls': self.cidx(o), 'status': o._status_, 'pk': self.pkl(o),
                         'vals': [self.slot(o._vals_, a) if h else '-' for a, h in zip(self.attrs, own)],
                         'dbvals': [self.slot(o._dbvals_, a) if h else '-' for a, h in zip(self.attrs, own)],
                         'rbits': [bool((o._rbits_ or 0) & bits.get(a, 0)) for a in self.attrs],
                         'wbits': None if o._wbits_ is None else [bool(o._wbits_ & bits.get(a, 0)) for a in self.attrs]})
        def norm(ix, simple):
            out = []
            for k, o in ix.items():
                key = [k] if simple else list(k)
                out.append([key, self.idx(o)])
            return sorted(out)
        ixs = cache.indexes
        pk = sorted([self.rawkey(k), self.idx(o)] for k, o in (ixs[self.pk_attrs] if self.pk_attrs in ixs else {}).items())
        keyix = [norm(ixs[ko] if ko in ixs else {}, len(key) == 1) for key, ko in zip(self.keys, self.key_objs)]
        queue = [self.idx(o) for o in cache.objects_to_save if o is not None and isinstance(o, self.E0)]
        return {'objs': objs, 'pk': pk, 'ixs': keyix, 'queue': queue}

    def oracle(self, yields):
        """the property on the real objects: [(key, detail)]"""
        bad = []
        cache = self.cache()
        ixs = cache.indexes
        everyone = list(self.objs) + [o for o in cache.objects if isinstance(o, self.E0) and self.idx(o) < 0]
        pkix = ixs[self.pk_attrs] if self.pk_attrs in ixs else {}
        holders = {}
        for o in everyone:
            if o._pkval_ is not None and o._status_ not in ('deleted', 'cancelled'):
                holders.setdefault(o._pkval_, []).append(o)
        for p, l in holders.items():
            if len(l) > 1: bad.append(('two-objects-one-pk', {'pk': repr(p), 'statuses': [o._status_ for o in l]}))
        want = {p: l[0] for p, l in holders.items() if l[0] in cache.objects or True}
        if {p: id(o) for p, o in want.items()} != {p: id(o) for p, o in pkix.items()}:
            bad.append(('pk-index-differs', {'index': sorted(repr(k) for k in pkix), 'holders': sorted(repr(k) for k in want),
                                              'wrong-object': [repr(p) for p in pkix if p in want and want[p] is not pkix[p]]}))
        for key, ko in zip(self.keys, self.key_objs):
            real = ixs[ko] if ko in ixs else {}
            cur = {}
            dup = False
            for o in everyone:
                if o._status_ in DEL or o._vals_ is None: continue
                vals = [o._vals_.get(self.attrs[a]) for a in key]
                if None in vals: continue
                v = vals[0] if len(key) == 1 else tuple(vals)
                if v in cur: dup = True
                cur[v] = o
            if dup: bad.append(('two-objects-one-key-value', {'key': key}))
            if {v: id(o) for v, o in cur.items()} != {v: id(o) for v, o in real.items()}:
                bad.append(('key-index-differs', {'key': key, 'index': sorted(repr(k) for k in real), 'current': sorted(repr(k) for k in cur)}))
        for y in yields or []:
            if y is None or not isinstance(y, self.E0): continue
            if y._pkval_ is not None and y._status_ not in ('deleted', 'cancelled') and pkix.get(y._pkval_) is not y:
                bad.append(('returned-object-is-not-the-indexed-one', {'pk': repr(y._pkval_)}))
        return bad


class StaleOp(Exception):
    pass

class CallTimedOut(Exception):
    pass

# ---------------------------------------------------------------- histories

def gen_op(rng, w):
    n = len(w.attrs)
    objs = w.objs
    cache = w.cache()
    live = [i for i, o in enumerate(objs) if o._status_ not in DEL]
    r = rng.random()
    if cache.modified and r < 0.22: return {'k': 'flush'}
    if r < 0.2 or not objs:
        op = {'k': 'create', 'cls': rng.randrange(len(w.classes)), 'kw': w.rand_create_kw(rng)}
        if w.H and live and rng.random() < 0.3: op['steal'] = rng.choice(live)
        if w.ps and rng.random() < 0.7: op['parent'] = rng.choice([0, 0, 1])
        return op
    if w.Q and r < 0.24:
        return {'k': 'qdelete', 'q': rng.randrange(1, 5)}
    if w.ps and r < 0.27:
        withkids = [i for i, p in enumerate(w.ps) if p._status_ not in DEL and any(o._status_ not in DEL and o._vals_ and o._vals_.get(w.E0.p) is p for o in objs)]
        if withkids or rng.random() < 0.3: return {'k': 'pdelete', 'p': rng.choice(withkids) if withkids else rng.choice([0, 1])}
    any_obj = rng.choice(objs and range(len(objs)))
    o = rng.choice(live) if live and rng.random() < 0.9 else any_obj
    fu = getattr(w, 'followup', None)
    if fu is not None:
        # after a refused multi-keyword set(): the value its FIRST keyword asked for must be free (create) and not findable (get)
        w.followup = None
        a, v = fu
        if rng.random() < 0.5 and not cache.modified: return {'k': 'get', 'cls': 0, 'pk': None, 'kw': [[a, v]]}
        kw = w.rand_create_kw(rng)
        for i in range(n): kw.pop('a%d' % i, None)
        kw['a%d' % a] = v
        return {'k': 'create', 'cls': 0, 'kw': kw}
    if r < 0.38 and objs[o]._status_ not in DEL and objs[o]._vals_ is not None and rng.random() < 0.3:
        # a multi-keyword set() that must be refused AFTER an earlier key was moved: a simple unique attribute (preferably one
        # that is None / not loaded now) gets a fresh value, a LATER key (simple or composite) gets a tuple another object holds
        simple = [k[0] for k in w.keys if len(k) == 1]
        held_by_others = lambda key, vals: any(x is not objs[o] and x._status_ not in DEL and x._vals_ is not None and
                                               [x._vals_.get(w.attrs[a]) for a in key] == vals for x in objs)
        cands = []
        for ki, key in enumerate(w.keys):
            for x in objs:
                if x is objs[o] or x._status_ in DEL or x._vals_ is None: continue
                vals = [x._vals_.get(w.attrs[a]) for a in key]
                if None in vals: continue
                firsts = [a for a in simple if w.keys.index([a]) < ki and a not in key]
                if firsts: cands.append((key, vals, firsts))
        if cands:
            key, vals, firsts = rng.choice(cands)
            nones = [a for a in firsts if objs[o]._vals_.get(w.attrs[a]) is None]
            a = rng.choice(nones) if nones and rng.random() < 0.8 else rng.choice(firsts)
            fresh = next((v for v in (8, 9, 7, 6, 5) if not held_by_others([a], [v])), None)
            if fresh is not None:
                w.followup_candidate = (a, fresh)
                return {'k': 'set', 'o': o, 'changes': [[a, fresh]] + [[b, v] for b, v in zip(key, vals)], 'via': 'set'}
    if r < 0.38:
        k = 1 if rng.random() < 0.6 else rng.choice([1, 2, 2, 3])
        attrs = rng.sample(range(n), min(k, n))
        # favour key parts
        keyattrs = sorted({a for key in w.keys for a in key})
        if keyattrs and rng.random() < 0.6: attrs[0] = rng.choice(keyattrs); attrs = list(dict.fromkeys(attrs))
        ch = [[a, w.rand_val(rng)] for a in attrs]
        return {'k': 'set', 'o': o, 'changes': ch, 'via': 'attr' if len(ch) == 1 and rng.random() < 0.6 else 'set'}
    if r < 0.46: return {'k': 'delete', 'o': o}
    if r < 0.50: return {'k': 'read', 'o': o, 'a': rng.randrange(n)}
    if cache.modified: return {'k': 'flush'}
    if r < 0.62:
        cls = rng.randrange(len(w.classes))
        t = rng.random()
        if t < 0.4:
            pk = w.pkl(objs[o]) if objs[o]._pkval_ is not None and rng.random() < 0.6 else w.rand_pk(rng)
            return {'k': 'get', 'cls': cls, 'pk': pk, 'kw': [], 'how': rng.choice(['item', 'get'])}
        if w.keys and t < 0.9:
            key = rng.choice(w.keys)
            src = objs[o]
            kw = []
            for a in key:
                v = src._vals_.get(w.attrs[a]) if (src._vals_ is not None and rng.random() < 0.6) else None
                if v is None: v = rng.choice([0, 1, 2, 3])
                kw.append([a, v])
            return {'k': 'get', 'cls': cls, 'pk': None, 'kw': kw}
        return {'k': 'get', 'cls': cls, 'pk': None, 'kw': [[rng.randrange(n), rng.choice([0, 1, 2, 3])]]}
    if r < 0.70:
        op = {'k': 'select', 'cls': rng.randrange(len(w.classes))}
        if rng.random() < 0.4: op['filt'] = [rng.randrange(n), rng.choice([0, 1, 2])]
        return op
    if r < 0.79:
        op = {'k': 'sql', 'attrs': sorted(rng.sample(range(n), rng.randrange(0, n + 1)))}
        if rng.random() < 0.6: op['pk'] = w.pkl(objs[o]) if objs[o]._pkval_ is not None and rng.random() < 0.7 else w.rand_pk(rng)
        return op
    if r < 0.83: return {'k': 'load', 'o': o}
    if r < 0.89: return {'k': 'nav', 'r': rng.randrange(1, 4), 'attr': rng.choice(['e', 'e', 'f'])}
    if r < 0.92: return {'k': 'prefetch', 'attr': rng.choice(['e', 'e', 'f'])}
    if r < 0.95: return {'k': 'pickle', 'o': o}
    if r < 0.98: return {'k': 'unpickle', 'd': rng.randrange(8)}
    return {'k': 'proxy', 'o': o}


def first_ops(rng, w):
    """the session starts by obtaining some committed objects in different ways"""
    ops = []
    for _ in range(rng.choice([0, 1, 1, 2])):
        t = rng.random()
        if t < 0.35: ops.append({'k': 'nav', 'r': rng.randrange(1, 4), 'attr': rng.choice(['e', 'e', 'f'])})
        elif t < 0.6: ops.append({'k': 'sql', 'attrs': sorted(rng.sample(range(len(w.attrs)), rng.randrange(0, len(w.attrs) + 1)))})
        elif t < 0.8: ops.append({'k': 'select', 'cls': rng.randrange(len(w.classes))})
        else: ops.append({'k': 'get', 'cls': 0, 'pk': w.rand_pk(rng), 'kw': [], 'how': 'item'})
    return ops


def run_history(spec, pop_seed, ops=None, rng=None, nops=0, ctx=None, dbfile=None):
    """runs a history on fresh real classes; `ops` given: replay exactly; else generate `nops` calls with `rng`.
    returns (world, trace) with trace = [(op, result, snapshot, oracle findings)]"""
    w = World(spec, dbfile=dbfile)
    w.populate_parents(with_q=pop_seed is None)
    w.populate_setup()
    if pop_seed is not None: w.populate(random.Random(pop_seed))       # None: the history starts on an empty database
    trace = []
    with db_session:
        w.raw()
        if w.P is not None: w.ps = list(w.P.select().order_by(w.P.id))
        if w.Q is not None: w.qs = {q.id: q for q in w.Q.select()}
        pending = list(ops) if ops is not None else first_ops(rng, w)
        if w.Q is not None and not (pending and pending[0]['k'] == 'qinit'): pending.insert(0, {'k': 'qinit'})
        count = 0
        while True:
            if pending: op = pending.pop(0)
            elif ops is None and count < nops: op = gen_op(rng, w)
            else: break
            count += 1
            res = w.apply(op)
            if res.get('skip'):
                if ctx: ctx.count('op-not-applicable:' + op['k'])
                continue
            cand = getattr(w, 'followup_candidate', None); w.followup_candidate = None
            if cand is not None and op['k'] == 'set' and res.get('err') == 'CacheIndexError': w.followup = cand
            snap = w.snapshot()
            ys = (res.get('yields') or []) + (res.get('results') or [])
            bad = w.oracle(ys) + res.pop('extra_bad', [])
            res['yinfo'] = [(w.idx(y), w.pkl(y), y._status_) for y in ys if y is not None]
            res['yield_ids'] = None if res.get('yields') is None else [w.idx(y) for y in res['yields']]
            res.pop('yields', None); res.pop('results', None)
            trace.append((op, res, snap, bad))
            if bad or res.get('end'): break
        rollback()
    return w, trace


def slim(res):
    return {k: v for k, v in res.items() if k in ('err', 'mops', 'db_refused', 'queried', 'nrows', 'inferred')}


def first_violation(spec, pop_seed, ops):
    try:
        w, trace = run_history(spec, pop_seed, ops=ops)
    except Exception:
        return None
    finally:
        pass
    out = None
    for i, (op, res, snap, bad) in enumerate(trace):
        if bad:
            out = (i, classify(op, res, bad[0][0]), bad[0][1], [t[0] for t in trace[:i + 1]]); break
    w.close()
    return out


LOADING_CALLS = ('unpickle', 'get', 'select', 'sql', 'load', 'nav', 'prefetch')

def classify(op, res, what):
    """canonical id of the root cause where it is recognisable: a row load (`_db_set_`) refused with
    TransactionIntegrityError after it had already moved an index entry (it has no undo list)"""
    loads = op['k'] in LOADING_CALLS or any(m.get('k') == 'load' for m in res.get('mops') or [])     # also a load inside delete
    if loads and res.get('err') == 'TransactionIntegrityError' and what in ('key-index-differs', 'pk-index-differs'):
        return 'load-conflict-leaves-half-updated-index'
    return what


def shrink(spec, pop_seed, ops, key):
    changed = True
    while changed:
        changed = False
        for i in range(len(ops) - 2, -1, -1):
            if ops[i]['k'] == 'qinit': continue            # re-inserted by every replay
            cand = ops[:i] + ops[i + 1:]
            v = first_violation(spec, pop_seed, cand)
            if v is not None and v[1] == key and len(v[3]) < len(ops):
                ops = v[3]; changed = True; break
    return ops


def report(ctx, spec, pop_seed, ops, key, detail):
    small = shrink(spec, pop_seed, ops, key)
    v = first_violation(spec, pop_seed, small)
    if v is not None: detail = v[2]
    canon = '%s:%s' % (key, small[-1]['k']) if key == 'load-conflict-leaves-half-updated-index' else '%s:%s:%s' % (key, small[-1]['k'], spec['pk'])
    ctx.violation('after the call the session holds two objects for one key or its key indexes differ from the current values (%s)' % key,
                  {'spec': spec, 'pop_seed': pop_seed, 'ops': small}, observed=detail,
                  expected='one object per primary key; cache.indexes == current key values of the non-deleted objects',
                  key=canon)


def compare(ctx, w, spec, pop_seed, trace, steps):
    """model vs real, call by call"""
    hist = lambda i: {'spec': spec, 'pop_seed': pop_seed, 'ops': [t[0] for t in trace[:i + 1]], 'model_schema': w.model_schema}
    for i, ((op, res, snap, bad), m) in enumerate(zip(trace, steps)):
        merr = m['err']
        rerr = res['err']
        if not m['inv']: ctx.count('model:inv-false')
        if merr in ('BadOp', 'NeedLoad'):
            ctx.divergence('the model rejected a call the engine generated', hist(i), model=merr, impl=rerr); return
        if res.get('late') and merr == 'ConstraintError' and rerr == 'OperationWithDeletedObjectError': merr = rerr    # the owner was deleted
        if res.get('outside_model'):
            ctx.count('call-failed-outside-the-model:%s:%s' % (op['k'], rerr)); return
        if res.get('db_refused'):
            ctx.count('flush:refused-by-the-database:' + str(rerr))
            merr = rerr                       # the database refusing a statement is an input of this model, not a prediction
        if res.get('inferred') and rerr is not None and merr is None:
            ctx.count('inferred-call-raised:%s:%s' % (op['k'], rerr))    # which row raised inside navigation / prefetch is not predicted
            merr = rerr
        if op['k'] == 'get' and res.get('rel_fallback'):
            # the model's `findVia` (the candidate reached through the reverse one-to-one attribute) answers; no query
            ctx.count('get:answered-through-the-reverse-one-to-one')
            if res.get('queried'):
                ctx.divergence('lookup through the reverse one-to-one attribute queried the database', hist(i), model=merr, impl=[rerr, res.get('queried')]); return
        elif op['k'] == 'get':
            if merr is None and not [y for y in m['yields'] if y is not None]: merr = 'ObjectNotFound'
            if res.get('nrows', 0) > 1 and res.get('queried'): merr = 'MultipleObjectsFoundError' if merr in (None, 'ObjectNotFound') else merr
            if res.get('queried') != (len(m['yields']) >= 1 and m['yields'][0] is None):
                ctx.divergence('cache lookup outcome differs (database consulted or not)', hist(i), model=m['yields'], impl=res.get('queried')); return
        if (merr or None) != (rerr or None):
            ctx.divergence('outcome of the call differs', hist(i), model=merr, impl=rerr); return
        if res.get('yield_ids') is not None and rerr is None:
            my = [y for y in m['yields'] if y is not None]
            ry = res['yield_ids']
            if op['k'] == 'get': my = my[-1:]
            if my != ry:
                ctx.divergence('identity of the returned objects differs', hist(i), model=my, impl=ry); return
        for yi, ypk, yst in res.get('yinfo') or []:
            p = [e[1] for e in m['pk'] if e[0] == ypk] if ypk is not None else None
            if p is not None and yst not in ('deleted', 'cancelled') and p != [yi]:
                ctx.divergence('returned object is not the model\'s object for its primary key', hist(i), model=p, impl=yi); return
        mo = m['objs']; ro = snap['objs']
        if len(mo) != len(ro):
            ctx.divergence('number of objects differs', hist(i), model=len(mo), impl=len(ro)); return
        for j, (a, b) in enumerate(zip(mo, ro)):
            a = {k: a[k] for k in b}
            if a != b:
                ctx.divergence('object state differs', hist(i), model=dict(a, obj=j), impl=dict(b, obj=j)); return
        if sorted(m['pk']) != snap['pk']:
            ctx.divergence('primary-key index differs', hist(i), model=sorted(m['pk']), impl=snap['pk']); return
        if [sorted(x) for x in m['ixs']] != snap['ixs']:
            ctx.divergence('key indexes differ', hist(i), model=[sorted(x) for x in m['ixs']], impl=snap['ixs']); return
        if m['queue'] != snap['queue']:
            ctx.divergence('objects_to_save differs', hist(i), model=m['queue'], impl=snap['queue']); return
        ctx.count('tie:calls-compared')


def histories(ctx, rng, nhist, nops):
    done = 0
    while done < nhist:                       # in chunks: traces hold a snapshot per call
        n = min(250, nhist - done); done += n
        histories_chunk(ctx, rng, n, nops)


def histories_chunk(ctx, rng, nhist, nops):
    batch = []
    for h in range(nhist):
        spec = gen_spec(rng)
        pop_seed = rng.randrange(1 << 30)
        sub = random.Random(rng.randrange(1 << 30))
        try:
            w, trace = run_history(spec, pop_seed, rng=sub, nops=nops, ctx=ctx)
        except core.ERDiagramError as e:
            ctx.count('model-rejected:' + type(e).__name__); continue
        ctx.count('model:pk=%s,keys=%d,classes=%d%s%s' % (spec['pk'], len(w.keys), len(w.classes), ',late-failure' if spec['with_h'] else '', ',cascade-parent' if spec.get('with_p') else ''))
        if w.relpk: ctx.count('model:relationship-in-primary-key:' + w.relpk)
        if spec.get('discr'): ctx.count('model:custom-discriminator:' + spec['discr'])
        for op, res, snap, bad in trace:
            ctx.count('call:%s:%s' % (op['k'], res['err'] or 'ok'))
            ctx.case({'model': w.model_schema, 'call': op}, nontrivial=True, kind=op['k'])
            for mop in res['mops']: ctx.count('model-op:' + mop['k'] + (':unpickling' if mop.get('unpickling') else '') + (':late-failure' if mop.get('lateFail') else ''))
            if res.get('queried') is False: ctx.count('get:answered-from-cache')
            if res.get('side_seeds'): ctx.count('side-effect-seeds:' + op['k'], res['side_seeds'])
            if 'nkids' in res: ctx.count('cascade:%s:children=%d' % ('refused' if res['err'] else 'done', min(res['nkids'], 3)))
            if bad:
                ctx.count('oracle:' + bad[0][0])
                report(ctx, spec, pop_seed, [t[0] for t in trace], classify(op, res, bad[0][0]), bad[0][1])
        batch.append((w, spec, pop_seed, trace))
        w.close()
    if not ctx.driver.ok:
        ctx.note('driver unavailable: the correspondence part is skipped, the oracle still ran'); return
    outs = ctx.driver('C11', [{'op': 'run', 'schema': w.model_schema, 'groups': [t[1]['mops'] for t in trace]} for w, _, _, trace in batch])
    for (w, spec, pop_seed, trace), out in zip(batch, outs):
        steps = out.get('steps')
        if steps is None:
            if 'unknown property' in str(out.get('driver_error')): raise RuntimeError('the shared driver executable was replaced while running: %r' % out)
            ctx.divergence('driver error', {'spec': spec, 'pop_seed': pop_seed, 'ops': [t[0] for t in trace]}, model=out); continue
        compare(ctx, w, spec, pop_seed, trace, steps)


def _spec(n, unique, ckeys=(), pk='explicit', parents=(None,), with_h=False, with_p=False, discr=None):
    return {'discr': discr, 'nattrs': n, 'unique': list(unique), 'ckeys': [list(k) for k in ckeys], 'pk': pk, 'parents': list(parents), 'with_h': with_h, 'with_p': with_p}

DIRECTED = [
    # a constructor that fails AFTER the identity map was touched (repaired in /repo, 19b6b9f): no zombie under its primary key
    ('late-failure', _spec(1, [True], with_h=True),
     [{'k': 'create', 'cls': 0, 'kw': {'id': 1, 'a0': 1}}, {'k': 'create', 'cls': 0, 'kw': {'id': 2, 'a0': 2}, 'steal': 0}, {'k': 'flush'},
      {'k': 'get', 'cls': 0, 'pk': [2], 'kw': [], 'how': 'get'}, {'k': 'create', 'cls': 0, 'kw': {'id': 2, 'a0': 2}}]),
    # a refused set() (repaired in /repo, 47bba9f): the first key was already moved when the second one conflicts
    ('refused-set', _spec(2, [True, True]),
     [{'k': 'create', 'cls': 0, 'kw': {'id': 1, 'a0': 1, 'a1': 1}}, {'k': 'create', 'cls': 0, 'kw': {'id': 2, 'a0': 2, 'a1': 2}},
      {'k': 'set', 'o': 1, 'changes': [[0, 7], [1, 1]], 'via': 'set'}, {'k': 'create', 'cls': 0, 'kw': {'id': 3, 'a0': 7}}, {'k': 'flush'},
      {'k': 'get', 'cls': 0, 'pk': None, 'kw': [[0, 2]]}]),
    # lookups through a SIBLING / SUBCLASS entity when the cached object's discriminator value is falsy (0): ObjectNotFound, not the object
    ('falsy-discriminator-class-check', _spec(1, [True], parents=(None, 0, 0), discr='int'),
     [{'k': 'create', 'cls': 0, 'kw': {'id': 1, 'a0': 1}}, {'k': 'create', 'cls': 1, 'kw': {'id': 2, 'a0': 2}}, {'k': 'flush'},
      {'k': 'get', 'cls': 1, 'pk': [1], 'kw': [], 'how': 'item'}, {'k': 'get', 'cls': 2, 'pk': None, 'kw': [[0, 1]]},
      {'k': 'get', 'cls': 2, 'pk': [2], 'kw': [], 'how': 'get'}, {'k': 'get', 'cls': 0, 'pk': [2], 'kw': [], 'how': 'item'}]),
    # a refused set(**kw) whose FIRST keyword moved a unique attribute from None (resp. from not loaded) to a value before a later
    # keyword conflicted: the undo must take the new entry out again — the value stays free and is not findable
    ('refused-set-after-none', _spec(2, [True, True]),
     [{'k': 'create', 'cls': 0, 'kw': {'id': 1, 'a1': 7}}, {'k': 'create', 'cls': 0, 'kw': {'id': 2}}, {'k': 'flush'},
      {'k': 'set', 'o': 1, 'changes': [[0, 5], [1, 7]], 'via': 'set'}, {'k': 'flush'}, {'k': 'get', 'cls': 0, 'pk': None, 'kw': [[0, 5]]},
      {'k': 'create', 'cls': 0, 'kw': {'id': 3, 'a0': 5}}, {'k': 'flush'}, {'k': 'get', 'cls': 0, 'pk': None, 'kw': [[0, 5]]}]),
    ('refused-set-after-not-loaded', dict(_spec(3, [True, False, True], ckeys=[[1, 2]]), setup_rows=[{'id': 1, 'a1': 1, 'a2': 7}, {'id': 2, 'a0': 4}]),
     [{'k': 'sql', 'attrs': [1, 2]}, {'k': 'set', 'o': 1, 'changes': [[0, 5], [2, 7]], 'via': 'set'},
      {'k': 'set', 'o': 1, 'changes': [[0, 6], [1, 1], [2, 7]], 'via': 'set'}, {'k': 'create', 'cls': 0, 'kw': {'id': 3, 'a0': 5}},
      {'k': 'create', 'cls': 0, 'kw': {'id': 4, 'a0': 6}}]),
    # a refused single assignment / set(): the FIRST composite key of the attribute was already moved when the SECOND one conflicts
    ('refused-assignment-second-composite', _spec(3, [False, False, False], ckeys=[[0, 1], [0, 2]]),
     [{'k': 'create', 'cls': 0, 'kw': {'id': 1, 'a0': 1, 'a1': 1, 'a2': 1}}, {'k': 'create', 'cls': 0, 'kw': {'id': 2, 'a0': 2, 'a1': 2, 'a2': 1}},
      {'k': 'set', 'o': 1, 'changes': [[0, 1]], 'via': 'attr'}, {'k': 'create', 'cls': 0, 'kw': {'id': 3, 'a0': 1, 'a1': 2}},
      {'k': 'set', 'o': 1, 'changes': [[0, 1]], 'via': 'set'}, {'k': 'create', 'cls': 0, 'kw': {'id': 4, 'a0': 2, 'a1': 2}}]),
    # the id the database generates is already used by a pending object with an explicit id
    ('auto-id-collision', _spec(1, [False], pk='auto'),
     [{'k': 'create', 'cls': 0, 'kw': {}}, {'k': 'create', 'cls': 0, 'kw': {'id': 1}}, {'k': 'flush'}]),
    # unpickling after the object was deleted and flushed; the primary key is free again and taken by the unpickled object
    ('unpickle-after-delete', _spec(1, [True]),
     [{'k': 'create', 'cls': 0, 'kw': {'id': 1, 'a0': 5}}, {'k': 'flush'}, {'k': 'pickle', 'o': 0}, {'k': 'delete', 'o': 0}, {'k': 'flush'},
      {'k': 'create', 'cls': 0, 'kw': {'id': 2, 'a0': 5}}, {'k': 'unpickle', 'd': 0}, {'k': 'create', 'cls': 0, 'kw': {'id': 1}}]),
    # the primary key CONTAINS a relationship attribute: its update_reverse raises inside the identity map, after the
    # primary-key index was written (owner occupied: 'Cannot unlink'; owner deleted): the key must stay free
    ('failed-create-rel-pk', _spec(1, [True], pk='relpk'),
     [{'k': 'qinit'}, {'k': 'create', 'cls': 0, 'kw': {'owner': 1, 'issue': 1, 'a0': 1}}, {'k': 'create', 'cls': 0, 'kw': {'owner': 1, 'issue': 2, 'a0': 2}},
      {'k': 'flush'}, {'k': 'get', 'cls': 0, 'pk': [1, 2], 'kw': [], 'how': 'get'}, {'k': 'delete', 'o': 0},
      {'k': 'create', 'cls': 0, 'kw': {'owner': 1, 'issue': 2, 'a0': 2}}, {'k': 'qdelete', 'q': 3},
      {'k': 'create', 'cls': 0, 'kw': {'owner': 3, 'issue': 1, 'a0': 5}}, {'k': 'create', 'cls': 0, 'kw': {'owner': 2, 'issue': 1, 'a0': 5}}]),
    ('failed-create-one-to-one-pk', _spec(1, [True], pk='relpk1'),
     [{'k': 'qinit'}, {'k': 'create', 'cls': 0, 'kw': {'owner': 1, 'a0': 1}}, {'k': 'create', 'cls': 0, 'kw': {'owner': 1, 'a0': 2}},
      {'k': 'qdelete', 'q': 3}, {'k': 'create', 'cls': 0, 'kw': {'owner': 3, 'a0': 5}}, {'k': 'flush'},
      {'k': 'get', 'cls': 0, 'pk': [3], 'kw': [], 'how': 'get'}, {'k': 'create', 'cls': 0, 'kw': {'owner': 2, 'a0': 5}}]),
    # a delete that cascades to never-flushed objects with explicit primary keys and is then refused by a later collection:
    # the nested deletes popped the primary-key and key indexes; the undo must put every entry back
    ('refused-cascade', _spec(2, [True, False], ckeys=[[0, 1]], with_p=True),
     [{'k': 'create', 'cls': 0, 'kw': {'id': 10, 'a0': 1, 'a1': 1}, 'parent': 0}, {'k': 'create', 'cls': 0, 'kw': {'id': 11, 'a0': 2}, 'parent': 0},
      {'k': 'create', 'cls': 0, 'kw': {'id': 12, 'a0': 3}, 'parent': 1}, {'k': 'pdelete', 'p': 0}, {'k': 'flush'},
      {'k': 'get', 'cls': 0, 'pk': [10], 'kw': [], 'how': 'get'}, {'k': 'get', 'cls': 0, 'pk': None, 'kw': [[0, 2]]},
      {'k': 'pdelete', 'p': 0}, {'k': 'pdelete', 'p': 1}, {'k': 'create', 'cls': 0, 'kw': {'id': 12, 'a0': 3}}]),
    # a stale pickle whose primary key now belongs to a NEW (unflushed) object: `assert obj._status_ not in created_or_deleted_statuses`
    ('unpickle-onto-created', _spec(1, [False]),
     [{'k': 'create', 'cls': 0, 'kw': {'id': 1, 'a0': 5}}, {'k': 'flush'}, {'k': 'pickle', 'o': 0}, {'k': 'delete', 'o': 0}, {'k': 'flush'},
      {'k': 'create', 'cls': 0, 'kw': {'id': 1, 'a0': 6}}, {'k': 'unpickle', 'd': 0}, {'k': 'proxy', 'o': 1}]),
    # delete of an object known by primary key only loads its row with the flush disabled; the row's second unique value is held
    # by a not-yet-flushed new object: the load is refused (fine) but `_db_set_` has no undo list (known finding, 2nd trigger)
    ('load-inside-delete-conflict', dict(_spec(2, [True, True], with_p=True), setup_rows=[{'id': 5, 'a0': 3, 'a1': 1}]),
     [{'k': 'sql', 'attrs': []}, {'k': 'create', 'cls': 0, 'kw': {'id': 3, 'a1': 1}}, {'k': 'delete', 'o': 0}]),
    # a stale pickle whose unique value was taken meanwhile: pickle.loads is refused (fine) but `_db_set_` has no undo list
    ('stale-unpickle-conflict', _spec(2, [True, True]),
     [{'k': 'create', 'cls': 0, 'kw': {'id': 1, 'a0': 3, 'a1': 1}}, {'k': 'flush'}, {'k': 'pickle', 'o': 0}, {'k': 'delete', 'o': 0}, {'k': 'flush'},
      {'k': 'create', 'cls': 0, 'kw': {'id': 2, 'a1': 1}}, {'k': 'unpickle', 'd': 0}]),
    # a unique value handed from one object to another; a composite key completed from None; delete frees both
    ('move-values', _spec(3, [True, False, False], ckeys=[[1, 2]]),
     [{'k': 'create', 'cls': 0, 'kw': {'id': 1, 'a0': 5, 'a1': 1}}, {'k': 'create', 'cls': 0, 'kw': {'id': 2, 'a0': 6, 'a1': 1, 'a2': 2}},
      {'k': 'set', 'o': 0, 'changes': [[2, 2]], 'via': 'attr'}, {'k': 'set', 'o': 1, 'changes': [[0, None]], 'via': 'attr'},
      {'k': 'set', 'o': 0, 'changes': [[0, 6]], 'via': 'attr'}, {'k': 'delete', 'o': 1}, {'k': 'set', 'o': 0, 'changes': [[2, 2]], 'via': 'set'}, {'k': 'flush'},
      {'k': 'get', 'cls': 0, 'pk': None, 'kw': [[1, 1], [2, 2]]}, {'k': 'proxy', 'o': 0}]),
]


def directed(ctx):
    batch = []
    for name, spec, ops in DIRECTED:
        w, trace = run_history(spec, None, ops=ops)
        ctx.case({'directed': name}, nontrivial=True, kind='directed')
        for op, res, snap, bad in trace:
            ctx.count('directed:%s:%s:%s' % (name, op['k'], res['err'] or 'ok'))
            if bad: report(ctx, spec, None, [t[0] for t in trace], classify(op, res, bad[0][0]), bad[0][1])
        batch.append((w, spec, None, trace)); w.close()
    if ctx.driver.ok:
        outs = ctx.driver('C11', [{'op': 'run', 'schema': w.model_schema, 'groups': [t[1]['mops'] for t in trace]} for w, _, _, trace in batch])
        for (w, spec, pop_seed, trace), out in zip(batch, outs):
            if out.get('steps') is None: ctx.divergence('driver error', {'spec': spec, 'ops': [t[0] for t in trace]}, model=out)
            else: compare(ctx, w, spec, pop_seed, trace, out['steps'])


def witness(ctx):
    """`Props/C11.lean: C11_step_full_false` on the real code: a row load refused with TransactionIntegrityError after it
    already moved an index entry.  Needs a CONCURRENT writer (outside the property's histories), hence a file database."""
    import os, sqlite3, ponyutil
    wd = ponyutil.workdir('c11')
    try:
        spec = _spec(2, [True, True])
        w = World(spec, dbfile=os.path.join(wd, 'w.sqlite'))
        with db_session:
            w.E0(id=1, a0=1, a1=1); w.E0(id=2, a0=2, a1=2)
        ext = sqlite3.connect(os.path.join(wd, 'w.sqlite'), timeout=0, isolation_level=None)
        with db_session:
            x = w.E0[1]; w.reg(x)
            ext.execute('update "%s" set a1 = 5 where id = 1' % w.table)
            ext.execute('update "%s" set a0 = 8, a1 = 1 where id = 2' % w.table)
            err, _ = w.call(lambda: w.E0[2])
            for o in sorted((o for o in w.cache().objects if isinstance(o, w.E0) and w.idx(o) < 0), key=w.pkl): w.reg(o)
            snap = w.snapshot()
            bad = w.oracle([])
            rollback()
        ext.close(); w.close()
        ctx.case({'witness': 'load-conflict'}, nontrivial=True, kind='witness')
        reproduced = err == 'TransactionIntegrityError' and any(b[0] == 'key-index-differs' for b in bad)
        ctx.count('witness:load-conflict-leaves-half-updated-index:' + ('reproduced' if reproduced else 'NOT-reproduced(%s)' % err))
        ctx.extra['witness_load_conflict'] = {'outcome': err, 'indexes_after': snap['ixs'], 'objects_after': [{'pk': o['pk'], 'vals': o['vals']} for o in snap['objs']],
                                              'oracle': [b[0] for b in bad], 'note': 'needs a concurrent writer: outside the histories the property quantifies over; guard of C11_step'}
        if not reproduced: ctx.note('the witness of C11_step_full_false is no longer reproduced by the real code (outcome %s)' % err)
        if ctx.driver.ok:
            rows = [{'k': 'load', 'cls': 0, 'pk': [1], 'vals': [1, 1], 'used': [], 'unpickling': False}, {'k': 'load', 'cls': 0, 'pk': [2], 'vals': [8, 1], 'used': [], 'unpickling': False}]
            out = ctx.driver('C11', [{'op': 'run', 'schema': w.model_schema, 'groups': [[r] for r in rows]}])[0]
            st = out.get('steps')
            if st is None: ctx.divergence('driver error on the witness', rows, model=out)
            else:
                m = st[-1]
                if m['err'] != err or [sorted(x) for x in m['ixs']] != snap['ixs'] or sorted(m['pk']) != snap['pk'] or m['inv']:
                    ctx.divergence('model and real code differ on the load-conflict witness', rows, model=[m['err'], m['ixs'], m['inv']], impl=[err, snap['ixs']])
                else: ctx.count('witness:model-agrees')
    finally:
        ponyutil.rmtree(wd)


def run(ctx):
    directed(ctx)
    witness(ctx)
    histories(ctx, ctx.rng, ctx.scale(350, 6000), ctx.scale(16, 24))


def replay(ctx, data):
    inp = data.get('input') or {}
    if 'spec' in inp and 'ops' in inp:
        v = first_violation(inp['spec'], inp.get('pop_seed', 0), inp['ops'])
        ctx.case({'replay': True}, kind='replay')
        if v is not None: report(ctx, inp['spec'], inp.get('pop_seed', 0), inp['ops'], v[1], v[2])
    else:
        run(ctx)
