"""C15 — deletion honours cascade rules and leaves no dangling references.

Tie (correspondence), all on real Pony + SQLite with Pony's own DDL (`PRAGMA foreign_keys` is switched on by Pony):
  * `Attribute.linked`: every declaration pair (kind x Required/Optional x cascade_delete option on both sides) is declared on
    real entities; accepted/TypeError and the effective `cascade_delete` flags are compared with `linkedCheck`/`effCascade`.
  * `generate_mapping`: for every random schema the ON DELETE action SQLite reports (`PRAGMA foreign_key_list`) for every FK
    column and link-table column is compared with `onDeleteOf` / `linkOnDelete`.
  * `Entity._delete_`: random schemas (required/optional one-to-one with the column on either side, one-to-many, many-to-many,
    symmetric, self references, with/without cascade_delete), random committed data, then in a FRESH session (objects are
    loaded lazily by the delete itself) a random sequence of `obj.delete()` / `delete(x for x in E if ...)` calls; after every
    call outcome class and set of deleted objects are compared with `deleteTop`; after commit the rows, FK columns and link rows
    read through a raw connection are compared with `commit` of the model's final store.
  * `Query.delete(bulk=True)`: bulk statements on committed data; refusal / resulting rows compared with `dbDelete`.

Property oracle (independent of the Lean model; own closure computation on the data read back after the first commit):
  * a delete that succeeded deleted exactly the cascade closure, NULLed / unlinked exactly the references to it, and after
    commit `PRAGMA foreign_key_check` is empty and explicit joins find no FK value / link row without its row;
  * a delete that raised left the session (statuses, loaded values, save queue) and, after commit, the database unchanged;
  * ConstraintError must be justified by a required dependent on a relationship without cascade; a delete with a required
    dependent OUTSIDE the closure must not succeed; RecursionError / AssertionError (cascade cycles) are reported;
  * a bulk delete never leaves a dangling reference; a refused bulk delete leaves the database unchanged.
"""
import itertools, json, random
from pony.orm import Database, Required, Optional, Set, db_session, commit, rollback, flush, select, delete
from pony.orm import core

DEL = core.del_statuses

# ---------------------------------------------------------------- schema

def S(ent, coll=False, req=False, casc=None, column=False):
    return {'ent': ent, 'coll': coll, 'req': req, 'opt_casc': casc, 'column': column}


def gen_schema(rng):
    nent = rng.choice([1, 2, 2, 2, 3, 3, 4])
    nrel = rng.choice([1, 1, 2, 2, 3, 3, 4])
    rels = []
    for i in range(nrel):
        kind = rng.choice(['o2o', 'o2o', 'o2o', 'm2o', 'm2o', 'm2o', 'm2o', 'm2m', 'm2m', 'sym1', 'symm'])
        ea = rng.randrange(nent)
        eb = ea if rng.random() < 0.3 else rng.randrange(nent)
        if kind == 'o2o':
            areq = rng.random() < 0.3
            breq = (not areq) and rng.random() < 0.15
            casc = rng.choice([None, None, ('a', True), ('a', True), ('b', True), ('b', True), ('a', False), 'both'])
            ca = casc[1] if isinstance(casc, tuple) and casc[0] == 'a' else (True if casc == 'both' else None)
            cb = casc[1] if isinstance(casc, tuple) and casc[0] == 'b' else (True if casc == 'both' else None)
            pin = rng.choice([None, None, 'a', 'b']) if not (areq or breq) else None     # explicit column= on one optional side
            r = {'kind': kind, 'sym': False, 'a': S(ea, req=areq, casc=ca, column=pin == 'a'), 'b': S(eb, req=breq, casc=cb, column=pin == 'b')}
        elif kind == 'm2o':
            req = rng.random() < 0.4
            if ea == eb and rng.random() < 0.7: req = False          # a required self reference can hardly be populated
            r = {'kind': kind, 'sym': False,
                 'a': S(ea, req=req, casc=True if rng.random() < 0.03 else None),
                 'b': S(eb, coll=True, casc=rng.choice([None, None, None, False, False] if req else [None, None, True, True, True, False]))}
            if rng.random() < 0.5: r['a'], r['b'] = r['b'], r['a']
        elif kind == 'm2m':
            r = {'kind': kind, 'sym': False, 'a': S(ea, coll=True, casc=True if rng.random() < 0.03 else None), 'b': S(eb, coll=True)}
        elif kind == 'sym1':
            r = {'kind': kind, 'sym': True, 'a': S(ea)}
        else:
            r = {'kind': kind, 'sym': True, 'a': S(ea, coll=True)}
        rels.append(r)
    # some entities get a composite primary key (k1, k2): references to them span two columns, link tables four;
    # some entities are subclasses of an earlier one (single-table inheritance; relationships may sit on either level, references
    # typed with the base class may hold subclass objects, which a fresh session first knows as stubs of the base class)
    base = [None] + [rng.randrange(e) if rng.random() < 0.3 else None for e in range(1, nent)]
    return {'nent': nent, 'rels': rels, 'cpk': [rng.random() < 0.3 for _ in range(nent)], 'base': base}


class World:
    """real entity classes built from a schema spec over a fresh in-memory SQLite database"""
    def __init__(self, schema):
        self.schema = schema
        self.db = db = Database()
        nent = schema['nent']
        dicts = [dict() for _ in range(nent)]
        self.attrs = {}; self.names = {}
        for i, r in enumerate(schema['rels']):
            for sn in (['a'] if r['sym'] else ['a', 'b']):
                d = r[sn]
                other = r['a'] if r['sym'] else r['b' if sn == 'a' else 'a']
                name = 'r%d%s' % (i, sn)
                rname = name if r['sym'] else 'r%d%s' % (i, 'b' if sn == 'a' else 'a')
                cls = Set if d['coll'] else (Required if d['req'] else Optional)
                kw = {'reverse': rname}
                if d['opt_casc'] is not None: kw['cascade_delete'] = d['opt_casc']
                if d.get('column'):
                    if (schema.get('cpk') or [False] * nent)[other['ent']]: kw['columns'] = ['c_%s_1' % name, 'c_%s_2' % name]
                    else: kw['column'] = 'c_' + name
                attr = cls('E%d' % other['ent'], **kw)
                dicts[d['ent']][name] = attr
                self.attrs[(i, sn == 'b')] = attr
                self.names[(i, sn == 'b')] = name
        self.base = list(schema.get('base') or [None] * nent)
        self.root = []
        for e in range(nent): self.root.append(e if self.base[e] is None else self.root[self.base[e]])
        cpk0 = list(schema.get('cpk') or [False] * nent)
        self.cpk = [cpk0[self.root[e]] for e in range(nent)]          # the key is declared on the root of a hierarchy
        for e in range(nent):
            if self.base[e] is not None: continue                      # key and plain columns are inherited
            if self.cpk[e]:
                dicts[e]['k1'] = Required(int); dicts[e]['k2'] = Required(int)
                dicts[e]['_indexes_'] = [core.Index(dicts[e]['k1'], dicts[e]['k2'], is_pk=True)]      # what PrimaryKey(k1, k2) in a class body does
            dicts[e]['tag'] = Required(int)
            dicts[e]['val'] = Optional(int)          # a plain column: pending UPDATEs around refused deletes
        self.classes = []
        for e in range(nent):
            self.classes.append(type('E%d' % e, (db.Entity if self.base[e] is None else self.classes[self.base[e]],), dicts[e]))
        db.bind('sqlite', ':memory:')
        db.generate_mapping(create_tables=True)
        self.model_schema = []
        for i, r in enumerate(schema['rels']):
            def side(key):
                a = self.attrs[key]
                return {'ent': self.classes.index(a.entity), 'coll': bool(a.is_collection), 'req': bool(a.is_required),
                        'casc': bool(a.cascade_delete), 'col': (not a.is_collection) and bool(a.columns)}
            m = {'a': side((i, False)), 'sym': bool(r['sym'])}
            if not r['sym']: m['b'] = side((i, True))
            self.model_schema.append(m)
        # class table: the relationship attributes of every class in the order `_delete_` iterates them (`cls._attrs_`: inherited first)
        key_of = {id(a): k for k, a in self.attrs.items()}
        self.ent_attrs = [[key_of[id(a)] for a in cls._attrs_ if a.reverse] for cls in self.classes]
        self.own_attrs = [[k for k in self.ent_attrs[e] if self.classes.index(self.attrs[k].entity) == e] for e in range(nent)]
        self.class_table = [[list(k) for k in self.ent_attrs[e]] for e in range(nent)]
        if not any(b is not None for b in self.base):
            for e in range(nent): assert self.ent_attrs[e] == sorted(self.ent_attrs[e])
        self.ents = []          # model id -> entity index
        self.pks = []           # model id -> primary key

    def isa(self, c, t):
        return issubclass(self.classes[c], self.classes[t])
    def rev(self, key):
        return key if self.schema['rels'][key[0]]['sym'] else (key[0], not key[1])
    def side(self, key):
        return self.model_schema[key[0]]['b' if key[1] else 'a']
    def relkind(self, key):
        s = self.side(key); rs = self.side(self.rev(key)); k = self.schema['rels'][key[0]]['kind']
        if k == 'm2o': k = 'o2m' if s['coll'] else 'm2o'
        return k + ('+req' if s['req'] else '') + ('+cascade' if s['casc'] else '') + ('+col' if s['col'] else '') + \
            ('/rev' + ('+req' if rs['req'] else '') + ('+cascade' if rs['casc'] else '') if not self.schema['rels'][key[0]]['sym'] else '')

    # ---- data: deterministic creation program (random integers are resolved against what exists when the op runs)
    def populate(self, prog):
        """runs the creation program in one session and commits; returns False if nothing usable was committed"""
        objs = []
        try:
            with db_session:
                for op in prog:
                    try:
                        if op[0] == 'create':
                            e = op[1]; kw = {'tag': len(objs)}
                            if self.cpk[e]: kw['k1'] = len(objs) // 3; kw['k2'] = len(objs)
                            ok = True
                            for key, r in op[2]:
                                key = tuple(key); s = self.side(key); t = self.side(self.rev(key))['ent']
                                cands = [o for o in objs if self.isa(self.classes.index(type(o)), t)]
                                if s['coll']:
                                    kw[self.names[key]] = [cands[x % len(cands)] for x in r] if cands else []
                                elif r is None:
                                    if s['req']: ok = False
                                elif cands: kw[self.names[key]] = cands[r % len(cands)]
                                elif s['req']: ok = False
                            if ok: objs.append(self.classes[e](**kw))
                        elif op[0] == 'flush': flush()
                        elif op[0] == 'link' and objs:
                            o = objs[op[1] % len(objs)]
                            keys = self.ent_attrs[self.classes.index(type(o))]
                            if not keys: continue
                            key = keys[op[2] % len(keys)]
                            t = self.side(self.rev(key))['ent']
                            cands = [x for x in objs if self.isa(self.classes.index(type(x)), t)]
                            if not cands: continue
                            v = cands[op[3] % len(cands)]
                            if self.side(key)['coll']: getattr(o, self.names[key]).add(v)
                            else: setattr(o, self.names[key], v)
                    except (core.ConstraintError, ValueError, TypeError, core.OperationWithDeletedObjectError, core.CacheIndexError):
                        pass
                objs = [o for o in objs if o._status_ not in DEL]
                for i, o in enumerate(objs): o.tag = i
                commit()
                self.ents = [self.classes.index(type(o)) for o in objs]
                self.pks = [o._pkval_ for o in objs]
        except Exception as e:
            self.populate_error = type(e).__name__
            return False
        return bool(objs)

    def read_state(self):
        """everything through the public API in a fresh session -> the `objs` of the driver protocol"""
        out = []
        with db_session:
            objs = [self.classes[e][pk] for e, pk in zip(self.ents, self.pks)]
            idx = {o: i for i, o in enumerate(objs)}
            for i, o in enumerate(objs):
                refs, colls = [], []
                for key in self.ent_attrs[self.ents[i]]:
                    if self.attrs[key].is_collection:
                        colls.append([key[0], key[1], sorted(idx[x] for x in getattr(o, self.names[key]).copy())])
                    else:
                        v = getattr(o, self.names[key])
                        refs.append([key[0], key[1], None if v is None else idx[v]])
                out.append({'ent': self.ents[i], 'alive': True, 'refs': refs, 'colls': colls})
        return out

    def pk_cols(self, e):
        return ['k1', 'k2'] if self.cpk[e] else ['id']
    def load(self, i):
        """the object by primary key: found in the identity map without a query when the session already has it"""
        e = self.ents[i]
        return self.classes[e].get(**({'k1': self.pks[i][0], 'k2': self.pks[i][1]} if self.cpk[e] else {'id': self.pks[i]}))

    # ---- raw database
    def raw(self):
        """rows / FK columns / link rows through a raw connection, in model ids; plus `PRAGMA foreign_key_check` and explicit joins"""
        res = {'rows': [], 'cols': [], 'links': [], 'vals': [], 'fk_check': [], 'orphans': []}
        with db_session:
            con = self.db.get_connection()
            cur = con.cursor()
            cur.execute('PRAGMA foreign_keys'); res['fk_on'] = cur.fetchone()[0]
            cur.execute('PRAGMA foreign_key_check'); res['fk_check'] = [list(map(str, r)) for r in cur.fetchall()]
            pk2id = {}
            for e, cls in enumerate(self.classes):
                if self.root[e] != e: continue
                cur.execute('SELECT %s, "tag" FROM "%s"' % (', '.join('"%s"' % c for c in self.pk_cols(e)), cls._table_))
                pk2id[e] = {tuple(r[:-1]): r[-1] for r in cur.fetchall()}
                res['rows'] += sorted(pk2id[e].values())
                cur.execute('SELECT "tag", "val" FROM "%s"' % cls._table_)
                res['vals'] += [[tag, v] for tag, v in cur.fetchall()]
            for e, cls in enumerate(self.classes):
                re_ = self.root[e]
                for key in self.own_attrs[e]:
                    attr = self.attrs[key]
                    t = self.root[self.side(self.rev(key))['ent']]
                    if not attr.is_collection and attr.columns:
                        npk = len(self.pk_cols(e))
                        cur.execute('SELECT %s FROM "%s"' % (', '.join('"%s"' % c for c in self.pk_cols(e) + list(attr.columns)), cls._table_))
                        for r in cur.fetchall():
                            pk, v = tuple(r[:npk]), tuple(r[npk:])
                            tag = pk2id[re_][pk]
                            has_attr = tag < len(self.ents) and key in self.ent_attrs[self.ents[tag]]
                            if all(x is None for x in v): tv = None
                            elif v not in pk2id[t]:
                                res['orphans'].append(['column', self.names[key], tag, list(v)]); tv = 'MISSING'
                            else: tv = pk2id[t][v]
                            if has_attr: res['cols'].append([tag, key[0], key[1], tv])
                            elif tv is not None: res['orphans'].append(['column-of-another-class', self.names[key], tag, list(v)])
                    elif attr.is_collection and attr.reverse.is_collection and not key[1]:
                        owner_cols = list(attr.reverse_columns if attr.symmetric else attr.reverse.columns)
                        cur.execute('SELECT %s FROM "%s"' % (', '.join('"%s"' % c for c in owner_cols + list(attr.columns)), attr.table))
                        for r in cur.fetchall():
                            p, q = tuple(r[:len(owner_cols)]), tuple(r[len(owner_cols):])
                            if p not in pk2id[re_] or q not in pk2id[t]:
                                res['orphans'].append(['link', self.names[key], list(p), list(q)]); continue
                            res['links'].append([key[0], key[1], pk2id[re_][p], pk2id[t][q]])
            rollback()
        res['rows'].sort(); res['cols'].sort(key=lambda c: (c[0], c[1], c[2])); res['links'].sort(); res['vals'].sort()
        return res

    def on_delete_actions(self):
        """[(rel, side, action)] for every FK column, and the set of actions on link-table columns, as SQLite reports them"""
        out = []; link = set()
        with db_session:
            con = self.db.get_connection(); cur = con.cursor()
            fks = {}
            for t in self.db.schema.tables.values():
                cur.execute('PRAGMA foreign_key_list("%s")' % t.name)
                for r in cur.fetchall(): fks[(t.name, r[3])] = r[6]
            for key, attr in sorted(self.attrs.items()):
                if not attr.is_collection and attr.columns:
                    acts = sorted(set(str(fks.get((attr.entity._table_, c), 'NO FOREIGN KEY')) for c in attr.columns))
                    a = acts[0] if len(acts) == 1 else '/'.join(acts)
                    out.append([key[0], key[1], None if a == 'NO ACTION' else a])
                elif attr.is_collection and attr.reverse.is_collection:
                    for c in list(attr.columns) + list(getattr(attr, 'reverse_columns', None) or []):
                        link.add(fks.get((attr.table, c)))
            rollback()
        return out, sorted(map(str, link))


def gen_prog(rng, w):
    """creation program: objects (references to earlier objects), a flush, then extra links (back edges, cycles, stealing)"""
    nobj = rng.choice([2, 3, 3, 4, 4, 5, 6, 7])
    prog = []
    for _ in range(nobj):
        e = rng.randrange(w.schema['nent'])
        vals = []
        for key in w.ent_attrs[e]:
            s = w.side(key)
            if s['coll']:
                if rng.random() < 0.65: vals.append([list(key), [rng.randrange(1000) for _ in range(rng.choice([1, 1, 2, 3]))]])
            elif s['req'] or rng.random() < 0.75: vals.append([list(key), rng.randrange(1000)])
            else: vals.append([list(key), None])
        prog.append(['create', e, vals])
        prog.append(['flush'])
    for _ in range(rng.choice([0, 0, 0, 1, 2, 3])):
        prog.append(['link', rng.randrange(1000), rng.randrange(1000), rng.randrange(1000)])
    return prog

# ---------------------------------------------------------------- specification-level oracle (plain Python, independent of the Lean model)

def held(so, key):
    for r, s, v in so['refs']:
        if (r, bool(s)) == key: return [] if v is None else [v]
    for r, s, l in so['colls']:
        if (r, bool(s)) == key: return list(l)
    return []


def spec_closure(w, state, a):
    """objects reachable from `a` over relationships whose holder side cascades"""
    seen = [a]; todo = [a]
    while todo:
        p = todo.pop()
        for key in w.ent_attrs[state[p]['ent']]:
            if w.side(key)['casc']:
                for q in held(state[p], key):
                    if q not in seen and state[q]['alive']: seen.append(q); todo.append(q)
    return sorted(seen)


def spec_requirers(w, state, C):
    """(q, key, p): live q holds p in C under a Required attribute"""
    out = []
    for q, so in enumerate(state):
        if not so['alive']: continue
        for key in w.ent_attrs[so['ent']]:
            if w.side(key)['req']:
                for p in held(so, key):
                    if p in C: out.append((q, key, p))
    return out


def spec_apply(w, state, C):
    """the state the property prescribes after a successful delete with closure C"""
    new = []
    for i, so in enumerate(state):
        if i in C:
            new.append(dict(so, alive=False)); continue
        new.append({'ent': so['ent'], 'alive': so['alive'],
                    'refs': [[r, s, None if v in C else v] for r, s, v in so['refs']],
                    'colls': [[r, s, [x for x in l if x not in C]] for r, s, l in so['colls']]})
    return new


def spec_db(w, state):
    """rows / columns / link rows of a state (the `observe_at` of the property)"""
    rows = [i for i, so in enumerate(state) if so['alive']]
    cols, links = [], []
    for i in rows:
        for key in w.ent_attrs[state[i]['ent']]:
            s = w.side(key)
            if s['col']:
                v = held(state[i], key)
                cols.append([i, key[0], key[1], v[0] if v else None])
            elif s['coll'] and w.side(w.rev(key))['coll'] and not key[1]:
                for q in held(state[i], key): links.append([key[0], key[1], i, q])
    cols.sort(key=lambda c: (c[0], c[1], c[2])); links.sort()
    return {'rows': rows, 'cols': cols, 'links': links}


def cascade_cycle(w, state, C):
    """is there a cycle of cascade edges inside C"""
    edges = {p: [q for key in w.ent_attrs[state[p]['ent']] if w.side(key)['casc'] for q in held(state[p], key) if q in C] for p in C}
    color = {}
    def dfs(p):
        color[p] = 1
        for q in edges[p]:
            if color.get(q) == 1: return True
            if q not in color and dfs(q): return True
        color[p] = 2
        return False
    return any(p not in color and dfs(p) for p in C)

# ---------------------------------------------------------------- session snapshots (refused deletes must change nothing)

def session_snapshot(w, cache):
    snap = {}
    for o in list(cache.objects):
        if not isinstance(o, tuple(w.classes)): continue
        vals = {}
        for attr, v in (o._vals_ or {}).items():
            if isinstance(v, core.SetData):
                pk = lambda x: x._pkval_ if x._pkval_ is not None else id(x)
                vals[attr.name] = (bool(v.is_fully_loaded), frozenset(pk(x) for x in v), frozenset(pk(x) for x in (v.added or ())), frozenset(pk(x) for x in (v.removed or ())))
            elif isinstance(v, core.Entity): vals[attr.name] = ('obj', type(v)._root_.__name__, v._pkval_)
            else: vals[attr.name] = v
        snap[(type(o)._root_.__name__, o._pkval_)] = (o._status_, o._save_pos_, vals)
    queue = [None if x is None else (type(x)._root_.__name__, x._pkval_) for x in cache.objects_to_save]
    return snap, queue


def session_diff(before, after):
    (b, bq), (a, aq) = before, after
    if bq != aq: return 'objects_to_save %r -> %r' % (bq, aq)
    for k, (st, pos, vals) in b.items():
        if k not in a: return 'object %r left the session' % (k,)
        st2, pos2, vals2 = a[k]
        if st != st2: return 'status of %r: %s -> %s' % (k, st, st2)
        if pos != pos2: return 'save position of %r: %r -> %r' % (k, pos, pos2)
        for name, v in vals.items():
            if name not in vals2: return 'value %r.%s dropped' % (k, name)
            v2 = vals2[name]
            if isinstance(v, tuple) and len(v) == 4 and isinstance(v[1], frozenset):
                if v[0] and v2[:2] != v[:2]: return 'collection %r.%s: %r -> %r' % (k, name, sorted(v[1], key=repr), sorted(v2[1], key=repr))
                if not v[0] and not v[1] <= v2[1]: return 'collection %r.%s lost items' % (k, name)
                # the pending link changes (what the next flush writes to the link table / the FK columns) must be what they were
                if v[2] != v2[2]: return 'pending additions of collection %r.%s: %r -> %r' % (k, name, sorted(v[2], key=repr), sorted(v2[2], key=repr))
                if v[3] != v2[3]: return 'pending removals of collection %r.%s: %r -> %r' % (k, name, sorted(v[3], key=repr), sorted(v2[3], key=repr))
            elif v != v2: return 'value %r.%s: %r -> %r' % (k, name, v, v2)
    return None

# ---------------------------------------------------------------- one history of object deletes

def run_deletes(w, state0, plan):
    """fresh session; plan = [['load', [ids]] | ['mod', i, k] | ['obj', i] | ['query', e, [ids]]]; returns per-step records and the commit error.
    'load' fetches objects up front (later steps then find them in the identity map: no query, so no flush of pending changes);
    'mod' assigns the plain column `val` (a pending UPDATE whose place in objects_to_save depends on what happened since the last flush)"""
    steps = []
    commit_err = None
    with db_session:
        cache = w.db._get_cache()
        loaded = {}
        # Pony limitation outside C15 (loud): an object first known as a stub of its BASE class and then modified (a delete cleared its
        # reference) cannot be loaded any more: _get_from_identity_map_ throws NotImplementedError for the class change; such a
        # step is skipped (the object counts as not addressable), everything else is still committed and compared
        unloadable = w.unloadable = []
        def get(i):
            if i >= len(w.ents): return None          # plan of a shrinking candidate that lost the object
            if i not in loaded: loaded[i] = w.load(i)
            return loaded[i]
        ident = {(w.classes[w.root[e]].__name__, pk): i for i, (e, pk) in enumerate(zip(w.ents, w.pks))}
        def mid(o): return ident.get((type(o)._root_.__name__, o._pkval_))
        def deleted_now():
            return sorted(mid(o) for o in list(cache.objects) if isinstance(o, tuple(w.classes)) and o._status_ in DEL)
        for st in plan:
            err = None; target_missing = False
            if st[0] in ('load', 'mod', 'add', 'rem'):
                try:
                    if st[0] in ('add', 'rem'):
                        # pending change of a many-to-many collection: obj.coll.add(x) / obj.coll.remove(x), not flushed
                        try: o = get(st[1]); x = get(st[3])
                        except NotImplementedError:
                            unloadable.append(st[1]); o = x = None
                        key = tuple(st[2])
                        # the program is resolved against what exists (a skipped create shifts the numbering; the shrinker drops creates):
                        # the step applies only if object i really has that many-to-many attribute and object j is of its item class
                        applicable = (o is not None and x is not None and st[1] < len(w.ents) and st[3] < len(w.ents)
                                      and key in w.ent_attrs[w.ents[st[1]]] and w.side(key)['coll'] and w.side(w.rev(key))['coll']
                                      and w.isa(w.ents[st[3]], w.side(w.rev(key))['ent']))
                        if not applicable: target_missing = True
                        else: getattr(getattr(o, w.names[key]), 'add' if st[0] == 'add' else 'remove')(x)
                    elif st[0] == 'load':
                        for i in st[1]:
                            try:
                                x = get(i)
                                if len(st) > 2 and st[2] and x is not None:        # deep: every reference and collection read, so that the
                                    for key in w.ent_attrs[w.ents[i]]:              # session knows them before a delete may be refused
                                        v = getattr(x, w.names[key])
                                        if w.attrs[key].is_collection: v.copy()
                            except NotImplementedError: unloadable.append(i)
                    else:
                        try: o = get(st[1])
                        except NotImplementedError:
                            unloadable.append(st[1]); o = None
                        if o is None: target_missing = True
                        else: o.val = st[2]
                except Exception as e:
                    err = type(e).__name__
                steps.append({'err': err, 'missing': True, 'kind': st[0], 'target_missing': target_missing, 'dead': deleted_now(), 'diff': None, 'dangling': [],
                              'queue': [None if x is None else mid(x) for x in cache.objects_to_save]})
                continue
            try:
                if st[0] == 'obj':
                    try: o = get(st[1])        # loading the target is a query: Pony flushes pending changes first
                    except NotImplementedError:
                        unloadable.append(st[1]); o = None
                else: flush()                             # so does the SELECT of a query delete
            except Exception as e:                        # the flush of the earlier deletes failed: same as a failing commit
                commit_err = 'flush:' + type(e).__name__
                rollback()
                break
            before = session_snapshot(w, cache)
            try:
                if st[0] == 'obj':
                    if o is None: target_missing = True
                    else: o.delete()
                else:
                    E = w.classes[st[1]]; tags = list(st[2])
                    delete(x for x in E if x.tag in tags)
            except Exception as e:
                err = type(e).__name__
            after = session_snapshot(w, cache)
            dangling = []
            for o in list(cache.objects):
                if not isinstance(o, tuple(w.classes)) or o._status_ in DEL or not o._vals_: continue
                for attr, v in o._vals_.items():
                    if isinstance(v, core.SetData): bad = [x for x in v if x._status_ in DEL]
                    elif isinstance(v, core.Entity): bad = [v] if v._status_ in DEL else []
                    else: bad = []
                    if bad:
                        # was the deleted object fully known to the session before the call, or a stub (primary key only)?
                        rname = attr.reverse.name
                        stub = any((type(x)._root_.__name__, x._pkval_) not in before[0] or rname not in before[0][(type(x)._root_.__name__, x._pkval_)][2] for x in bad)
                        dangling.append([mid(o), attr.name, [mid(x) for x in bad], 'deleted-object-was-not-loaded' if stub else 'deleted-object-was-loaded'])
            steps.append({'err': err, 'missing': target_missing, 'dead': deleted_now(), 'diff': session_diff(before, after) if err else None,
                          'dangling': dangling})
        if commit_err is None:
            try: commit()
            except Exception as e:
                commit_err = type(e).__name__
                rollback()
    return steps, commit_err


def flat_plan(w, state, plan):
    """the sequence of `_delete_` targets a plan amounts to (query deletes fetch in primary-key order = creation order)"""
    out = []
    for st in plan:
        if st[0] in ('load', 'mod', 'add', 'rem'): out.append([])
        elif st[0] == 'obj': out.append([st[1]] if st[1] < len(w.ents) else [])
        else: out.append(sorted(i for i in st[2] if i < len(w.ents) and w.isa(w.ents[i], st[1])))
    return out


def build(schema, prog):
    w = World(schema)
    if not w.populate(prog): return w, None
    return w, w.read_state()


def check_history(ctx, schema, prog, plan, report=True):
    """runs one history on a fresh world; returns (key, detail) of the first property violation or None; registers tie results"""
    w, state0 = build(schema, prog)
    try:
        if state0 is None: return None
        return _check_history(ctx, w, schema, prog, plan, state0, report)
    finally:
        w.db.disconnect()


def _check_history(ctx, w, schema, prog, plan, state0, report):
    inp = {'schema': schema, 'prog': prog, 'plan': plan}
    raw0 = w.raw()
    sdb0 = spec_db(w, state0)
    vals = {i: None for i in range(len(state0))}       # expected content of the plain column
    if (raw0['rows'], raw0['cols'], raw0['links']) != (sdb0['rows'], sdb0['cols'], sdb0['links']) or raw0['vals'] != [[i, None] for i in sdb0['rows']]:
        ctx.divergence('rows read through a raw connection differ from what the public API shows', inp, model=sdb0, impl=raw0)
        return None
    steps, commit_err = run_deletes(w, state0, plan)
    raw1 = w.raw()
    if getattr(w, 'unloadable', None):
        ctx.count('observation:modified-base-class-stub-cannot-be-loaded(NotImplementedError)')
        if not ctx.extra.get('modified_stub_example'): ctx.extra['modified_stub_example'] = inp
    # ---------------- specification oracle
    state = state0
    viol = None
    cycle_ok = []          # closures with a cascade cycle whose in-memory delete went through
    req_inside = []        # closures in which one member holds another under a Required reference whose relationship does not cascade
    groups = flat_plan(w, state0, plan)
    model_dels = []
    model_state0 = None        # the store the deletes start from: state0 with the pending link changes applied
    for st, grp, rec in zip(plan, groups, steps):
        if rec.get('kind') in ('add', 'rem'):
            i, key, j = st[1], tuple(st[2]), st[3]
            if rec['target_missing'] or max(i, j) >= len(state):
                ctx.count('m2m:step-not-applicable(object of another class / gone)'); continue
            if state[i]['alive'] and state[j]['alive']:
                if rec['err'] is None:
                    rkey = w.rev(key)
                    def upd(so, k, x, add):
                        return dict(so, colls=[[r, sd, (sorted(set(l) | {x}) if add else [y for y in l if y != x]) if (r, bool(sd)) == k else l] for r, sd, l in so['colls']])
                    state = list(state)
                    state[i] = upd(state[i], key, j, st[0] == 'add')
                    state[j] = upd(state[j], rkey, i, st[0] == 'add')
                    ctx.count('m2m:pending-%s' % st[0])
                elif not viol: viol = ('link-change-raised:' + rec['err'], {'step': st})
            else: ctx.count('m2m:on-deleted-object:%s' % rec['err'])
            continue
        if model_state0 is None and st[0] in ('obj', 'query'): model_state0 = state
        if rec.get('kind') == 'mod':
            i = st[1]
            if rec['target_missing'] or i >= len(state): continue
            if state[i]['alive']:
                if rec['err'] is None:
                    vals[i] = st[2]
                    ctx.count('mod:pending-update-at-queue-position:%s' % (rec['queue'].index(i) if i in rec['queue'] else 'none'))
                elif not viol: viol = ('assignment-raised:' + rec['err'], {'step': st})
            else: ctx.count('mod:on-deleted-object:%s' % rec['err'])
            continue
        if rec['missing']:                       # a 'load' step, or the row is gone (deleted by an earlier step): nothing to call
            continue
        if rec['dangling'] and not viol:
            viol = ('session-dangling:%s:%s' % (rec['err'] or 'ok', rec['dangling'][0][3]), {'step': st, 'live object holds a deleted one': rec['dangling'][0][:3]})
        prev = state; ok_prefix = []
        # a query delete runs _delete_ per fetched object and stops at the first that raises
        expect_dead = sorted(i for i, so in enumerate(state) if not so['alive'])
        targets = [i for i in grp]
        if rec['err'] is None:
            for a in targets:
                model_dels.append(a)
                if not state[a]['alive']: continue
                C = spec_closure(w, state, a)
                outside = [t for t in spec_requirers(w, state, C) if t[0] not in C]
                if outside and not viol:
                    q, key, p = outside[0]
                    viol = ('deleted-despite-required-dependent:' + w.relkind(key), {'step': st, 'closure': C, 'requires': [q, list(key), p]})
                ctx.count('delete-ok:closure-size:%s' % (len(C) if len(C) < 4 else '4+'))
                if len(C) > 1 and cascade_cycle(w, state, C): cycle_ok.append(C); ctx.count('delete-ok:closure-with-cascade-cycle')
                inner = [t for t in spec_requirers(w, state, C) if t[0] in C and not w.side(w.rev(t[1]))['casc']]
                if inner: req_inside.append([C, [inner[0][0], list(inner[0][1]), inner[0][2]]]); ctx.count('delete-ok:required-reference-inside-closure')
                before_links = sum(len(held(so, key)) for i, so in enumerate(state) if so['alive'] and i not in C for key in w.ent_attrs[so['ent']])
                state = spec_apply(w, state, C)
                after_links = sum(len(held(so, key)) for i, so in enumerate(state) if so['alive'] for key in w.ent_attrs[so['ent']])
                ctx.count('delete-ok:links-of-survivors-cleared:%s' % ('0' if before_links == after_links else '1+'))
            expect_dead = sorted(i for i, so in enumerate(state) if not so['alive'])
            if rec['dead'] != expect_dead and not viol:
                viol = ('cascade-closure-differs', {'step': st, 'deleted': rec['dead'], 'closure-says': expect_dead})
        else:
            # which target raised is not observable for a query delete: find the first target the specification lets fail
            done = False; went_through = False
            for a in targets:
                if not state[a]['alive']:
                    model_dels.append(a); continue
                C = spec_closure(w, state, a)
                reqs = spec_requirers(w, state, C)
                dead_if_ok = sorted(set(i for i, so in enumerate(state) if not so['alive']) | set(C))
                if rec['dead'] == dead_if_ok or (len(targets) > 1 and set(dead_if_ok) <= set(rec['dead'])):
                    model_dels.append(a); state = spec_apply(w, state, C); went_through = True; continue      # this one went through
                model_dels.append(a); done = True
                ctx.count('failed-delete:%s' % rec['err'])
                if rec['dead'] != sorted(i for i, so in enumerate(state) if not so['alive']) and not viol:
                    viol = ('failed-delete-changed-session:' + rec['err'], {'step': st, 'deleted-after-the-failed-call': rec['dead']})
                if rec['err'] == 'ConstraintError':
                    # a refusal is justified by an object requiring a closure member through a relationship whose other side does not cascade
                    blocking = [t for t in reqs if not w.side(w.rev(t[1]))['casc']]
                    if not blocking:
                        if not viol: viol = ('refused-without-required-dependent', {'step': st, 'closure': C})
                    else:
                        inside = all(q in C for q, _, _ in reqs)
                        same_edge = [t for t in reqs if t[0] in C and w.side(t[1])['casc'] and t[2] in held(state[t[0]], t[1])]
                        if inside and same_edge and len(same_edge) == len(reqs):
                            ctx.count('refusal:required-cascading-holder')
                            if not viol: viol = ('required-one-to-one-cascade-refused', {'step': st, 'closure': C, 'holder requires its own cascade child': [same_edge[0][0], list(same_edge[0][1]), same_edge[0][2]]})
                        elif inside: ctx.count('refusal:dependent-inside-closure(declaration order)')
                        else: ctx.count('refusal:dependent-outside-closure')
                elif rec['err'] in ('RecursionError', 'AssertionError', 'OperationWithDeletedObjectError'):
                    cyc = cascade_cycle(w, state, C)
                    ctx.count('cascade-cycle-failure:%s:%s' % (rec['err'], 'cycle' if cyc else 'NO-CYCLE'))
                    if not viol: viol = ('cascade-cycle-raises' if cyc else 'delete-raised:%s' % rec['err'], {'step': st, 'closure': C, 'raised': rec['err']})
                elif rec['err'] == 'NotImplementedError':
                    # Pony limitation: the delete had to load an object the session knew as a stub of its BASE class and had already
                    # modified (an earlier delete cleared its reference): _get_from_identity_map_ refuses the class change
                    ctx.count('delete-raised:NotImplementedError')
                    if not viol: viol = ('modified-base-class-stub-cannot-be-loaded', {'step': st, 'closure': C, 'raised': 'NotImplementedError'})
                elif not viol:
                    viol = ('delete-raised:%s' % rec['err'], {'step': st, 'closure': C})
                break
            if not done and not viol:
                viol = ('delete-raised-although-every-target-went-through:%s' % rec['err'], {'step': st})
        if rec['err'] and rec['diff'] and not viol and not (st[0] == 'query' and went_through):     # earlier targets of a query delete stay deleted
            viol = ('failed-delete-changed-session:' + rec['err'], {'step': st, 'difference': rec['diff']})
    expect = spec_db(w, state)
    expect['vals'] = [[i, vals[i]] for i in expect['rows']]          # pending updates of surviving objects must have been written
    got = {'rows': raw1['rows'], 'cols': raw1['cols'], 'links': raw1['links'], 'vals': raw1['vals']}
    if raw1['fk_check'] or raw1['orphans']:
        viol = viol or ('dangling-after-commit', {'foreign_key_check': raw1['fk_check'], 'orphans': raw1['orphans']})
    if not raw1['fk_on']:
        ctx.divergence('PRAGMA foreign_keys is off on the connection Pony uses', inp)
    if commit_err:
        ctx.count('commit-failed:' + commit_err)
        if not any(commit_err.endswith(x) for x in ('OptimisticCheckError', 'IntegrityError', 'TransactionIntegrityError', 'ConstraintError')):
            ctx.note('flush/commit after the deletes raised %s: %s' % (commit_err, json.dumps(inp)))
        base = {'rows': raw0['rows'], 'cols': raw0['cols'], 'links': raw0['links'], 'vals': raw0['vals']}
        if got != base and not viol: viol = ('failed-commit-changed-database:' + commit_err, {'before': base, 'after': got})
        elif not viol and not any(r['err'] for r in steps):
            if cycle_ok and commit_err.endswith('OptimisticCheckError'):
                # same root as the refused cycle: the rows of a cascade cycle cannot be deleted in an order that keeps the database's
                # own ON DELETE actions from pre-empting Pony's optimistic UPDATE of a referrer (loud, rolled back)
                viol = ('cascade-cycle-raises', {'plan': plan, 'closure': cycle_ok[0], 'raised': commit_err + ' at commit'})
            elif req_inside and commit_err.endswith('IntegrityError'):
                # both rows go, but the referencing row holds a NOT NULL key without ON DELETE action to the other one and the
                # queue deletes the cascade target first: the database refuses (loud, rolled back)
                viol = ('commit-failed:required-reference-inside-cascade-closure', {'plan': plan, 'closure': req_inside[0][0],
                        'requires': req_inside[0][1], 'raised': commit_err + ' at commit'})
            else:
                viol = ('commit-failed-after-successful-deletes:' + commit_err, {'plan': plan})
    elif got != expect and not viol:
        if {k: v for k, v in got.items() if k != 'vals'} == {k: v for k, v in expect.items() if k != 'vals'}:
            refused = [r['err'] for r in steps if r['err'] and not r.get('kind')]
            viol = ('pending-update-lost' + (':after-refused-delete' if refused else ''),
                    {'column val in the database': got['vals'], 'assigned in the session': expect['vals'], 'refused deletes': refused})
        else:
            viol = ('database-differs-from-prescribed-state', {'database': got, 'prescribed': expect})
    # ---------------- correspondence with the Lean model
    if report:
        late = False; seen_del = False
        for st in plan:
            if st[0] in ('obj', 'query'): seen_del = True
            elif st[0] in ('add', 'rem') and seen_del: late = True
        if late: ctx.count('tie:skipped(link change after a delete)')
        else: tie(ctx, w, inp, model_state0 if model_state0 is not None else state, plan, groups, steps, commit_err, got)
    return viol


_GUARD = []


def guard_present():
    """which variant of `_delete_` the tree has: does deleting a node that is its own cascade child recurse for ever (current code)
    or return (tree with the re-entrancy guard of fixes/C15-cascade-cycle-recursion.diff)?  Decided by running it; the whole tie
    then validates the model variant chosen (`guard` argument of `delete`); the theorems hold for both."""
    if not _GUARD:
        wi = W_CYCLE_SELF
        w, st = build(wi['schema'], wi['prog'])
        try:
            steps, _ = run_deletes(w, st, wi['plan'])
            _GUARD.append(steps[0]['err'] != 'RecursionError')
        finally: w.db.disconnect()
    return _GUARD[0]


JOBS = []      # (driver request, function evaluating the reply): sent to the Lean driver in ONE batch (flush_jobs)


def flush_jobs(ctx):
    jobs = JOBS[:]; del JOBS[:]
    if not jobs or not ctx.driver.ok: return
    outs = ctx.driver('C15', [j[0] for j in jobs])
    for (req, fn), out in zip(jobs, outs):
        if 'unknown property' in str(out.get('driver_error')): raise RuntimeError('the shared driver executable was replaced while running: %r' % out)
        fn(out)


def tie(ctx, w, inp, state0, plan, groups, steps, commit_err, got):
    dels = []; marks = []
    for grp, rec in zip(groups, steps):
        if rec['missing']: marks.append(None); continue
        marks.append((len(dels), len(grp))); dels += grp
    relkinds = None
    JOBS.append(({'op': 'run', 'schema': w.model_schema, 'classes': w.class_table, 'objs': state0, 'guard': guard_present(), 'deletes': dels},
                 lambda out: tie_eval(ctx, inp, plan, groups, steps, marks, commit_err, got, out)))


def tie_eval(ctx, inp, plan, groups, steps, marks, commit_err, got, out):
    if 'steps' not in out:
        ctx.divergence('driver error', inp, model=out); return
    ms = out['steps']
    real_failed = False
    for (st, grp, rec, mk) in zip(plan, groups, steps, marks):
        if mk is None: continue
        sub = ms[mk[0]:mk[0] + mk[1]]
        merr = next((m['err'] for m in sub if m['err']), None)
        for m in sub:
            if not m.get('undo_ok', True):
                ctx.divergence('model: replaying the undo trail does not give the store the call started from', dict(inp, step=st), model=m); return
            if m['err']: ctx.count('model:failed-delete:undo-trail-length:%s' % (m['trail'] if m['trail'] < 6 else '6+'))
            # C15_terminates_checked: a ranked (acyclic) cascade graph never ends in the model's RecursionError
            if m.get('ranked') and m['err'] == 'RecursionError':
                ctx.divergence('model: RecursionError although the cascade graph is ranked', dict(inp, step=st), model=m['err']); return
        if sub and len(grp) == 1:
            ctx.count('rank-check:%s:%s' % ('ranked' if sub[0].get('ranked') else 'cyclic', rec['err'] or 'ok'))
            if sub[0].get('ranked') and rec['err'] == 'RecursionError':
                ctx.divergence('the real delete raised RecursionError although the cascade graph of the session is ranked (no cascade cycle)',
                               dict(inp, step=st), model='ranked', impl=rec['err']); return
        if rec['err'] is None and merr is None:
            mdead = sorted(i for i, o in enumerate(sub[-1]['objs']) if not o['alive']) if sub else None
            if sub and mdead != rec['dead']:
                ctx.divergence('set of deleted objects differs', dict(inp, step=st), model=mdead, impl=rec['dead']); return
            if sub and not (sub[-1]['agree'] and sub[-1]['nodangling']): ctx.count('model:invariant-false-after-success')
            ctx.count('tie:step-agrees:ok')
        elif rec['err'] is not None and merr is not None:
            if len(grp) > 1:
                ctx.count('tie:query-delete-failed (not compared further)'); return
            if rec['err'] != merr:
                both = {rec['err'], merr}
                if both <= {'RecursionError', 'AssertionError', 'OperationWithDeletedObjectError', 'ConstraintError'}:
                    ctx.count('tie:both-fail-different-class:%s/%s' % (merr, rec['err']))     # set iteration order picks another first failure
                else:
                    ctx.divergence('error class differs', dict(inp, step=st), model=merr, impl=rec['err']); return
            else: ctx.count('tie:step-agrees:' + merr)
            if rec['diff'] or sorted(i for i, o in enumerate(sub[-1]['objs']) if not o['alive']) != rec['dead']:
                real_failed = True          # the real code did not restore the session: a property violation (reported by the oracle), not a model difference
                return
        elif rec['err'] == 'NotImplementedError' and merr is None:
            # failure cause outside the model (Pony refuses the class change of a modified base-class stub); the oracle reports it
            # under its own key and checks that nothing changed; the rest of this history is not compared
            ctx.count('tie:failure-outside-model:NotImplementedError'); return
        else:
            ctx.divergence('outcome differs', dict(inp, step=st), model=merr, impl=rec['err']); return
    if commit_err: return
    mdb = out['db']
    mgot = {'rows': mdb['rows'], 'cols': sorted(mdb['cols'], key=lambda c: (c[0], c[1], c[2])), 'links': sorted(mdb['links'])}
    if mgot != {k: v for k, v in got.items() if k != 'vals'}:
        ctx.divergence('database after commit differs from commit(model store)', inp, model=mgot, impl=got)
    elif not out['fk']:
        ctx.divergence('model database violates its own FK check', inp, model=mdb)
    else: ctx.count('tie:database-agrees')

# ---------------------------------------------------------------- shrinking / reporting

def violation_of(ctx, schema, prog, plan):
    try: return check_history(ctx, schema, prog, plan, report=False)
    except Exception: return None


def shrink(ctx, schema, prog, plan, key):
    def same(s, p, pl):
        v = violation_of(ctx, s, p, pl)
        return v is not None and v[0] == key
    changed = True
    while changed:
        changed = False
        for i in range(len(plan) - 1, -1, -1):
            cand = plan[:i] + plan[i + 1:]
            if cand and same(schema, prog, cand): plan = cand; changed = True
        for i in range(len(prog) - 1, -1, -1):
            if prog[i][0] == 'flush': continue
            cand = prog[:i] + prog[i + 1:]
            if same(schema, cand, plan): prog = cand; changed = True
        for i in range(len(schema['rels']) - 1, -1, -1):
            if len(schema['rels']) == 1: break
            s2 = dict(schema, rels=schema['rels'][:i] + schema['rels'][i + 1:])
            def fix(k): return [k[0] - 1 if k[0] > i else k[0], k[1]]
            p2 = [[op[0], op[1], [[fix(k), r] for k, r in op[2] if k[0] != i]] if op[0] == 'create' else op for op in prog]
            if same(s2, p2, plan): schema, prog = s2, p2; changed = True; break
    return schema, prog, plan


REPORTED = set()


def report(ctx, schema, prog, plan, v):
    key, detail = v
    if key in REPORTED:           # already shrunk and reported in this run
        ctx.count('violation-seen-again:' + key); return
    REPORTED.add(key)
    s, p, pl = shrink(ctx, schema, prog, plan, key)
    v2 = violation_of(ctx, s, p, pl)
    if v2 is not None and v2[0] == key: detail = v2[1]
    else: s, p, pl = schema, prog, plan
    ctx.violation(WHAT.get(key.split(':')[0], 'deletion violates the property') + ' (%s)' % key,
                  {'schema': s, 'prog': p, 'plan': pl}, observed=detail, expected=EXPECT.get(key.split(':')[0]), key=key)

WHAT = {
    'cascade-cycle-raises': 'deleting an object whose cascade closure contains a cycle raises (RecursionError / AssertionError at the call, or OptimisticCheckError at commit) instead of deleting the closure',
    'failed-delete-changed-session': 'a delete that raised left the session changed',
    'required-one-to-one-cascade-refused': 'an object whose Required one-to-one attribute has cascade_delete=True can never be deleted: the cascade child refuses because the object being deleted still requires it',
    'deleted-despite-required-dependent': 'a delete succeeded although an object outside the cascade closure requires a deleted object',
    'cascade-closure-differs': 'a successful delete deleted another set of objects than the cascade closure',
    'database-differs-from-prescribed-state': 'after commit the rows differ from: closure deleted, references to it NULLed/unlinked, nothing else changed',
    'dangling-after-commit': 'the committed database contains a reference to a missing row',
    'session-dangling': 'after the call a live object of the session still holds a deleted object (reference / collection membership not cleared)',
    'refused-without-required-dependent': 'ConstraintError although no required dependent exists',
    'bulk-dangling': 'a bulk delete left a reference to a missing row',
    'pending-update-lost': 'an assignment made in the session was not written by the commit',
    'assignment-raised': 'assigning a plain attribute of a live object raised',
    'link-change-raised': 'adding / removing a live item of a many-to-many collection of a live object raised',
    'commit-failed-after-successful-deletes': 'every delete succeeded but the commit raised',
    'commit-failed': 'an object cascades (one-to-one) to a row that it also references through a Required attribute of a relationship without cascade: the delete succeeds in the session, but the queue deletes the cascade target first and the database refuses the commit (IntegrityError, rolled back)',
    'failed-commit-changed-database': 'a commit that raised changed the database',
    'delete-raised': 'a delete raised an error the property does not allow',
    'modified-base-class-stub-cannot-be-loaded': 'a delete raises NotImplementedError: it has to load an object the session knows only as a stub of its base class and has already modified (an earlier delete cleared its reference); Pony refuses the class change of an object with read/write bits',
    'bulk-refused-changed-database': 'a refused bulk delete changed the database',
}
EXPECT = {
    'cascade-cycle-raises': 'the closure is deleted',
    'failed-delete-changed-session': 'statuses, loaded values and the save queue are what they were before the call',
}

# ---------------------------------------------------------------- phases

def m2m_ops(rng, w, state0, plan):
    """pending (unflushed) removals / additions on many-to-many collections of the delete targets, of what they hold and of
    anything, inserted BEFORE the first delete: the collection then has `removed` / `added` sets when `_delete_` clears it"""
    n = len(state0)
    targets = [st[1] for st in plan if st[0] == 'obj' and st[1] < n]
    near = sorted(set(q for t in targets for key in w.ent_attrs[state0[t]['ent']] for q in held(state0[t], key)))
    cur = {i: {tuple([r, bool(sd)]): list(l) for r, sd, l in so['colls']} for i, so in enumerate(state0)}
    first = next((k for k, st in enumerate(plan) if st[0] in ('obj', 'query')), len(plan))
    ops = []
    for _ in range(rng.choice([1, 1, 2, 3])):
        pool = targets if (targets and rng.random() < 0.6) else (near if (near and rng.random() < 0.5) else list(range(n)))
        i = rng.choice(pool)
        keys = [k for k in w.ent_attrs[state0[i]['ent']] if w.side(k)['coll'] and w.side(w.rev(k))['coll']]
        if not keys: continue
        key = rng.choice(keys)
        members = cur[i].get(key, [])
        t = w.side(w.rev(key))['ent']
        others = [j for j in range(n) if w.isa(state0[j]['ent'], t) and j not in members]
        if members and (rng.random() < 0.7 or not others):
            j = rng.choice(members); ops.append(['rem', i, list(key), j]); cur[i][key] = [x for x in members if x != j]
            rk = w.rev(key); cur[j][rk] = [x for x in cur[j].get(rk, []) if x != i]
        elif others:
            j = rng.choice(others); ops.append(['add', i, list(key), j]); cur[i][key] = members + [j]
            rk = w.rev(key); cur[j][rk] = cur[j].get(rk, []) + [i]
    plan[first:first] = ops


def gen_plan(rng, w, state0):
    n = len(state0)
    plan = []
    parents = [i for i in range(n) if any(w.side(key)['casc'] and held(state0[i], key) for key in w.ent_attrs[state0[i]['ent']])]
    for _ in range(rng.choice([1, 1, 2, 2, 3, 4])):
        if parents and rng.random() < 0.5: plan.append(['obj', rng.choice(parents)])          # an object with cascade children
        elif rng.random() < 0.8: plan.append(['obj', rng.randrange(n)])
        else:
            e = rng.randrange(w.schema['nent'])
            ids = sorted(set(rng.randrange(n) for _ in range(rng.choice([1, 2, 3]))))
            plan.append(['query', e, ids])
    if rng.random() < 0.6:
        # pending UPDATEs before / between the deletes: of cascade children and required dependents of the delete targets (they are
        # cascade-deleted and, when the delete is refused, must come back WITH their pending update), of the targets, of anything
        targets = [st[1] for st in plan if st[0] == 'obj']
        near = sorted(set(q for t in targets for key in w.ent_attrs[state0[t]['ent']] for q in held(state0[t], key)))
        k = 0
        for _ in range(rng.choice([1, 1, 2, 3])):
            pool = near if (near and rng.random() < 0.6) else (targets if (targets and rng.random() < 0.4) else list(range(n)))
            k += 1
            plan.insert(rng.choice([0, 0, 0, rng.randrange(len(plan) + 1)]), ['mod', rng.choice(pool), k])
    if rng.random() < 0.5: m2m_ops(rng, w, state0, plan)
    if any(st[0] in ('mod', 'add', 'rem') for st in plan) and rng.random() < 0.75:
        # everything fetched up front: later steps run no query, so nothing is flushed in between and the first assignment
        # becomes objects_to_save[0]
        plan.insert(0, ['load', list(range(n))])
    return plan


def gen_refusal_case(rng):
    """a family aimed at the undo of a refused delete: entity 0 has a cascading relationship (declared first, so its dependents are
    cascade-deleted) and then a relationship that refuses (Required dependents without cascade); dependents / the parent get
    pending UPDATEs at varying places of the save queue before the delete"""
    nent = rng.choice([2, 3, 3])
    ek, ed = rng.randrange(1, nent), rng.randrange(1, nent)
    casc_rel = rng.choice([
        {'kind': 'm2o', 'sym': False, 'a': S(0, coll=True, casc=True), 'b': S(ek)},
        {'kind': 'm2o', 'sym': False, 'a': S(0, coll=True), 'b': S(ek, req=True)},              # default cascade
        {'kind': 'o2o', 'sym': False, 'a': S(0, casc=True), 'b': S(ek)},
        # not cascading but CLEARED before the refusal (Set.__set__(obj, ()) and its undo): many-to-many / optional children
        {'kind': 'm2m', 'sym': False, 'a': S(0, coll=True), 'b': S(ek, coll=True)},
        {'kind': 'm2o', 'sym': False, 'a': S(0, coll=True, casc=False), 'b': S(ek)}])
    block_rel = rng.choice([
        {'kind': 'm2o', 'sym': False, 'a': S(0, coll=True, casc=False), 'b': S(ed, req=True)},
        {'kind': 'o2o', 'sym': False, 'a': S(0), 'b': S(ed, req=True)}])
    rels = [casc_rel, block_rel]
    if rng.random() < 0.4: rels.append(rng.choice(gen_schema(rng)['rels']))
    for r in rels[2:]:
        for sn in ('a', 'b'):
            if sn in r: r[sn]['ent'] %= nent
    schema = {'nent': nent, 'rels': rels, 'cpk': [rng.random() < 0.3 for _ in range(nent)]}
    prog = [['create', 0, []], ['flush']]
    nk = 1 if casc_rel['kind'] == 'o2o' else (rng.choice([2, 3]) if casc_rel['kind'] == 'm2m' else rng.choice([1, 2, 3]))
    nd = 1 if block_rel['kind'] == 'o2o' else rng.choice([1, 1, 2])
    def child(e, rel_index, extra):
        vals = [[[rel_index, True], [0] if rels[rel_index]['b']['coll'] else 0]]
        # Required references of the other relationships of that entity must be given too
        for j, r in enumerate(rels):
            for sn in ('a', 'b'):
                if sn in r and (j, sn) != (rel_index, 'b') and r[sn]['ent'] == e and not r[sn]['coll'] and (r[sn]['req'] or rng.random() < 0.3):
                    vals.append([[j, sn == 'b'], 0])
        return ['create', e, sorted(vals, key=lambda v: (v[0][0], v[0][1]))]
    kids = []
    n = 1
    for _ in range(nk): prog += [child(ek, 0, None), ['flush']]; kids.append(n); n += 1
    docs = []
    for _ in range(nd): prog += [child(ed, 1, None), ['flush']]; docs.append(n); n += 1
    plan = [['obj', 0]]
    k = 0
    for _ in range(rng.choice([1, 1, 2, 3])):
        k += 1
        plan.insert(rng.choice([0, 0, len(plan) - 1]), ['mod', rng.choice(kids + kids + docs + [0]), k])
    if casc_rel['kind'] == 'm2m' and rng.random() < 0.8:
        # an unflushed removal (sometimes followed by re-adding another item) in the collection the refused delete will clear and
        # restore: from the parent's side or from the item's side
        x = rng.choice(kids)
        ops = [['rem', 0, [0, False], x] if rng.random() < 0.6 else ['rem', x, [0, True], 0]]
        if rng.random() < 0.3:
            y = rng.choice([q for q in kids if q != x])
            ops.append(['rem', 0, [0, False], y]); ops.append(['add', 0, [0, False], y])
        at = next(k for k, st in enumerate(plan) if st[0] == 'obj')
        plan[at:at] = ops
    if rng.random() < 0.8: plan.insert(0, ['load', list(range(n)), rng.random() < 0.5])
    if rng.random() < 0.3: plan.append(['obj', rng.choice(kids + docs)])
    if rng.random() < 0.5:
        # the other name order: the parent's entity sorts AFTER the others (which side `_calc_modified_m2m` collects the pairs from)
        f = lambda e: nent - 1 - e
        for r in rels:
            for sn in ('a', 'b'):
                if sn in r: r[sn]['ent'] = f(r[sn]['ent'])
        schema['cpk'] = schema['cpk'][::-1]
        prog = [[op[0], f(op[1]), op[2]] if op[0] == 'create' else op for op in prog]
    return schema, prog, plan


def gen_inheritance_case(rng):
    """a family aimed at objects the session first knows as stubs of their BASE class: an owner (entity 0) holds the column of a
    cascading one-to-one reference typed with the base class A (entity 1); the referenced object is of subclass B (entity 2),
    which declares a relationship of its own to Item (entity 3) — cascading, clearing or refusing; the plan deletes the owner
    (sometimes after touching / not touching the other objects), so `_delete_` reaches the B object through the stub"""
    own = rng.choice(['items-required', 'items-required', 'items-optional', 'items-required-no-cascade', 'one-to-one-required', 'many-to-many'])
    rels = [{'kind': 'o2o', 'sym': False, 'a': S(0, casc=True, column=True), 'b': S(1)}]
    if own == 'items-required': rels.append({'kind': 'm2o', 'sym': False, 'a': S(2, coll=True), 'b': S(3, req=True)})
    elif own == 'items-optional': rels.append({'kind': 'm2o', 'sym': False, 'a': S(2, coll=True, casc=rng.choice([None, True])), 'b': S(3)})
    elif own == 'items-required-no-cascade': rels.append({'kind': 'm2o', 'sym': False, 'a': S(2, coll=True, casc=False), 'b': S(3, req=True)})
    elif own == 'one-to-one-required': rels.append({'kind': 'o2o', 'sym': False, 'a': S(2, casc=rng.choice([None, True])), 'b': S(3, req=True)})
    else: rels.append({'kind': 'm2m', 'sym': False, 'a': S(2, coll=True), 'b': S(3, coll=True)})
    if rng.random() < 0.3: rels.append({'kind': 'm2o', 'sym': False, 'a': S(1, coll=True, casc=rng.choice([None, True, False])), 'b': S(3, req=rng.random() < 0.5)})
    schema = {'nent': 4, 'rels': rels, 'cpk': [False, rng.random() < 0.3, False, False], 'base': [None, None, 1, None]}
    prog = []
    n = 0
    owners, subs, items = [], [], []
    for _ in range(rng.choice([1, 1, 2])):
        prog += [['create', 2, []], ['flush']]; b = n; subs.append(b); n += 1
        prog += [['create', 0, [[[0, False], len(subs) - 1]]], ['flush']]; owners.append(n); n += 1
        for _ in range(1 if own == 'one-to-one-required' else rng.choice([1, 2])):
            vals = [[[1, True], ([len(subs) - 1] if own == 'many-to-many' else len(subs) - 1)]]
            if len(rels) > 2 and (rels[2]['b']['req'] or rng.random() < 0.5): vals.append([[2, True], len(subs) - 1])
            prog += [['create', 3, vals], ['flush']]; items.append(n); n += 1
    plan = [['obj', rng.choice(owners)]]
    r = rng.random()
    if r < 0.35: plan.insert(0, ['load', items[:rng.choice([1, len(items)])]])      # dependents loaded: they must be marked in the session
    elif r < 0.5: plan.insert(0, ['mod', rng.choice(items), 5])
    if rng.random() < 0.3: plan.append(['obj', rng.choice(items + owners)])
    return schema, prog, plan


def linked_tie(ctx):
    """every declaration pair on real entities vs `linkedCheck` / `effCascade`"""
    pairs = []
    for kind in ('o2o', 'm2o', 'm2m'):
        for areq, breq in [(False, False), (True, False), (False, True)]:
            if kind == 'm2m' and (areq or breq): continue
            if kind == 'm2o' and breq: continue
            for ca in (None, True, False):
                for cb in (None, True, False):
                    a = {'coll': kind == 'm2m', 'req': areq, 'casc': ca}
                    b = {'coll': kind in ('m2o', 'm2m'), 'req': breq, 'casc': cb}
                    pairs.append((a, b))
    real = []
    for a, b in pairs:
        db = Database()
        def mk(d, target, rname):
            cls = Set if d['coll'] else (Required if d['req'] else Optional)
            kw = {'reverse': rname}
            if d['casc'] is not None: kw['cascade_delete'] = d['casc']
            return cls(target, **kw)
        try:
            A = type('A', (db.Entity,), {'x': mk(a, 'B', 'y')})
            B = type('B', (db.Entity,), {'y': mk(b, 'A', 'x')})
            db.bind('sqlite', ':memory:'); db.generate_mapping(create_tables=True)
            real.append({'ok': True, 'ca': bool(A.x.cascade_delete), 'cb': bool(B.y.cascade_delete)})
            db.disconnect()
        except TypeError as e:
            real.append({'ok': False, 'msg': str(e)[:80]})
    if not ctx.driver.ok: return
    out = ctx.driver('C15', [{'op': 'linked', 'pairs': [{'a': a, 'b': b} for a, b in pairs]}])[0]
    for (a, b), r, m in zip(pairs, real, out.get('res', [])):
        ctx.case({'linked': [a, b]}, nontrivial=True, kind='linked')
        ctx.count('linked:%s' % ('accepted' if r['ok'] else 'TypeError'))
        if r['ok'] != m['ok'] or (r['ok'] and (r['ca'], r['cb']) != (m['ca'], m['cb'])):
            ctx.divergence('Attribute.linked differs from linkedCheck/effCascade', {'a': a, 'b': b}, model=m, impl=r)


def ondelete_tie(ctx, w):
    real, link = w.on_delete_actions()
    kinds = [w.relkind((r[0], bool(r[1]))) for r in real]
    schema = w.schema
    for r, k in zip(real, kinds): ctx.count('on_delete:%s:%s' % (k, r[2]))
    def ev(out):
        if sorted(out.get('res', [])) != sorted(real):
            ctx.divergence('ON DELETE actions of the generated FK columns differ from onDeleteOf', {'schema': schema}, model=out.get('res'), impl=real)
        if link and link != [str(out.get('link'))]:
            ctx.divergence('ON DELETE action of a link-table column differs from linkOnDelete', {'schema': schema}, model=out.get('link'), impl=link)
    JOBS.append(({'op': 'ondelete', 'schema': w.model_schema}, ev))


def bulk_case(ctx, rng, schema, prog, fixed=None):
    """bulk DELETE statements on committed data: refusal and resulting rows vs dbDelete; oracle: no dangling reference, refusal changes nothing"""
    w, state0 = build(schema, prog)
    try:
        if state0 is None: return
        n = len(state0)
        stmts = list(fixed or [])
        for _ in range(0 if fixed else rng.choice([1, 1, 2, 3])):
            e = rng.randrange(schema['nent'])
            ids = sorted(set(rng.randrange(n) for _ in range(rng.choice([1, 1, 2, 3, n, n]))))
            if rng.random() < 0.5:           # aim at rows that are referenced
                refd = sorted(set(v for so in state0 for _, _, v in so['refs'] if v is not None))
                hard = sorted(set(v for so in state0 for r, sd, v in so['refs'] if v is not None and w.side((r, bool(sd)))['req']
                                  and not w.side(w.rev((r, bool(sd))))['casc']))
                if hard and rng.random() < 0.6: refd = hard          # rows referenced through a key without ON DELETE action
                if refd: ids = sorted(set(rng.sample(refd, min(len(refd), rng.choice([1, 2])))))
                if ids: e = w.ents[ids[0]]
            stmts.append([e, ids])
        inp = {'schema': schema, 'prog': prog, 'bulk': stmts}
        recs = []
        for e, ids in stmts:
            before = w.raw()
            err = None; cnt = None
            try:
                with db_session:
                    E = w.classes[e]
                    if rng is None or rng.random() < 0.5: cnt = select(x for x in E if x.tag in ids).delete(bulk=True)
                    else: cnt = E.select(lambda x: x.tag in ids).delete(bulk=True)
            except Exception as ex:
                err = type(ex).__name__
            after = w.raw()
            ctx.case({'bulk': [e, ids], 'schema': w.model_schema}, nontrivial=True, kind='bulk')
            ctx.count('bulk:%s' % (err or 'ok'))
            if after['fk_check'] or after['orphans']:
                ctx.violation('a bulk delete left a reference to a missing row', inp, observed={'foreign_key_check': after['fk_check'], 'orphans': after['orphans']}, key='bulk-dangling')
            b3 = (before['rows'], before['cols'], before['links']); a3 = (after['rows'], after['cols'], after['links'])
            if err and a3 != b3:
                ctx.violation('a refused bulk delete changed the database', inp, observed={'before': b3, 'after': a3}, key='bulk-refused-changed-database:' + err)
            recs.append((err, [i for i in ids if w.isa(w.ents[i], e)], after))
        def ev(out):
            if 'steps' not in out:
                ctx.divergence('driver error', inp, model=out); return
            for (err, ids, after), m in zip(recs, out['steps']):
                if bool(err) != m['refused']:
                    ctx.divergence('bulk delete: refused by one side only', inp, model=m['refused'], impl=err); return
                if err and err not in ('TransactionIntegrityError', 'IntegrityError'): ctx.count('bulk:unexpected-error-class:' + err)
                mdb = m['db']
                mgot = (mdb['rows'], sorted(mdb['cols'], key=lambda c: (c[0], c[1], c[2])), sorted(mdb['links']))
                if mgot != (after['rows'], after['cols'], after['links']):
                    ctx.divergence('rows after a bulk delete differ from dbDelete', inp, model=mgot, impl=(after['rows'], after['cols'], after['links'])); return
                ctx.count('tie:bulk-agrees:%s' % ('refused' if err else 'ok'))
        JOBS.append(({'op': 'bulk', 'schema': w.model_schema, 'classes': w.class_table, 'objs': state0, 'stmts': [r[1] for r in recs]}, ev))
    finally:
        w.db.disconnect()


def bulk_vs_object(ctx, rng, schema, prog):
    """observation: does a bulk delete of one row leave the same database as obj.delete() + commit on the same data"""
    w, state0 = build(schema, prog)
    if state0 is None:
        w.db.disconnect(); return
    i = rng.randrange(len(state0))
    try:
        err = None
        try:
            with db_session:
                w.classes[w.ents[i]].select(lambda x: x.tag == i).delete(bulk=True)
        except Exception as e: err = type(e).__name__
        b = w.raw()
    finally: w.db.disconnect()
    w2, state2 = build(schema, prog)
    try:
        if state2 != state0: return
        steps, cerr = run_deletes(w2, state2, [['obj', i]])
        o = w2.raw()
    finally: w2.db.disconnect()
    oerr = steps[0]['err'] or cerr
    same = (b['rows'], b['cols'], b['links']) == (o['rows'], o['cols'], o['links'])
    if err and oerr: ctx.count('bulk-vs-object:both-refuse')
    elif err or oerr: ctx.count('bulk-vs-object:%s' % ('only-bulk-refuses' if err else 'only-object-delete-refuses:' + str(oerr)))
    elif same: ctx.count('bulk-vs-object:same-database')
    else:
        C = spec_closure(w2, state0, i)
        col_side = any(w2.side(key)['casc'] and w2.side(key)['col'] and held(state0[p], key) for p in C for key in w2.ent_attrs[state0[p]['ent']])
        ctx.count('bulk-vs-object:bulk-deletes-less:%s' % ('cascade_delete-on-the-side-holding-the-column' if col_side else 'OTHER'))
        if not col_side:
            ctx.note('bulk delete and object delete differ without a cascading column-holder: %s' % json.dumps({'schema': schema, 'prog': prog, 'i': i}))


# directed inputs, replayed on every run -------------------------------------------------------------------------------
W_CYCLE_O2O = {   # Props/C15: C15_cascade_cycle_full_false — two one-to-one relationships cascading into each other
    'schema': {'nent': 2, 'rels': [{'kind': 'o2o', 'sym': False, 'a': S(0, casc=True), 'b': S(1)},
                                   {'kind': 'o2o', 'sym': False, 'a': S(0), 'b': S(1, casc=True)}]},
    'prog': [['create', 0, [[[0, False], None], [[1, False], None]]], ['create', 1, [[[0, True], 0], [[1, True], 0]]], ['flush']],
    'plan': [['obj', 0]]}
W_CYCLE_SELF = {  # a tree node that is its own parent (children cascade): RecursionError
    'schema': {'nent': 1, 'rels': [{'kind': 'm2o', 'sym': False, 'a': S(0), 'b': S(0, coll=True, casc=True)}]},
    'prog': [['create', 0, [[[0, False], None]]], ['flush'], ['link', 0, 0, 0]],
    'plan': [['obj', 0]]}
W_REQ_O2O = {     # Required one-to-one with cascade_delete=True: the owner can never be deleted
    'schema': {'nent': 2, 'rels': [{'kind': 'o2o', 'sym': False, 'a': S(0, req=True, casc=True), 'b': S(1)}]},
    'prog': [['create', 1, [[[0, True], None]]], ['create', 0, [[[0, False], 0]]], ['flush']],
    'plan': [['obj', 1]]}
W_STUB = {        # deleting an object the session knows by primary key only leaves it in its parent's collection (session only; rows are right)
    'schema': {'nent': 1, 'rels': [{'kind': 'm2o', 'sym': False, 'a': S(0), 'b': S(0, coll=True, casc=False)},
                                   {'kind': 'o2o', 'sym': False, 'a': S(0), 'b': S(0)}]},
    'prog': [['create', 0, [[[0, False], None], [[1, False], None], [[1, True], None]]], ['flush'],
             ['create', 0, [[[0, False], 0], [[1, False], None], [[1, True], None]]], ['flush'],
             ['create', 0, [[[0, False], None], [[1, False], 1], [[1, True], None]]], ['flush']],
    'plan': [['obj', 2], ['obj', 1]]}
R_PENDING = {     # regression input: a cascade child with a pending UPDATE at objects_to_save[0] is cascade-deleted by a delete that a later
                  # relationship (Required dependents, no cascade) then refuses: the undo must put the child back WITH its pending update
    'schema': {'nent': 3, 'rels': [{'kind': 'm2o', 'sym': False, 'a': S(0, coll=True, casc=True), 'b': S(1)},
                                   {'kind': 'm2o', 'sym': False, 'a': S(0, coll=True, casc=False), 'b': S(2, req=True)}]},
    'prog': [['create', 0, []], ['flush'], ['create', 1, [[[0, True], 0]]], ['flush'], ['create', 2, [[[1, True], 0]]], ['flush']],
    'plan': [['load', [0, 1, 2]], ['mod', 1, 7], ['obj', 0]]}
REGRESSIONS = [('refused-delete-keeps-pending-update', R_PENDING)]
R_BULK_CPK = {    # regression input: bulk delete of parents with a composite primary key; Required dependents (default cascade -> ON DELETE
                  # CASCADE) and Optional dependents (-> SET NULL) reference them through two-column foreign keys
    'schema': {'nent': 3, 'cpk': [True, False, False],
               'rels': [{'kind': 'm2o', 'sym': False, 'a': S(0, coll=True), 'b': S(1, req=True)},
                        {'kind': 'm2o', 'sym': False, 'a': S(0, coll=True), 'b': S(2)}]},
    'prog': [['create', 0, []], ['flush'], ['create', 0, []], ['flush'], ['create', 1, [[[0, True], 0]]], ['flush'], ['create', 1, [[[0, True], 1]]], ['flush'],
             ['create', 2, [[[1, True], 0]]], ['flush'], ['create', 2, [[[1, True], 1]]], ['flush']],
    'bulk': [[0, [0]]]}
W_REQ_INSIDE = {  # K cascades (one-to-one) to the P it also references through a Required attribute of a relationship without cascade
    'schema': {'nent': 2, 'rels': [{'kind': 'm2o', 'sym': False, 'a': S(0, coll=True, casc=False), 'b': S(1, req=True)},
                                   {'kind': 'o2o', 'sym': False, 'a': S(0), 'b': S(1, casc=True)}]},
    'prog': [['create', 0, [[[1, False], None]]], ['flush'], ['create', 1, [[[0, True], 0], [[1, True], 0]]], ['flush']],
    'plan': [['obj', 1]]}
WITNESSES = [('required-reference-inside-cascade-closure', W_REQ_INSIDE), ('stub-delete-stale-collection', W_STUB), ('cascade-cycle-one-to-one', W_CYCLE_O2O), ('cascade-cycle-self-parent', W_CYCLE_SELF), ('required-one-to-one-cascade', W_REQ_O2O)]


def polymorphic_stub_witness(ctx):
    """inheritance is outside the random schemas; one directed family: the cascade target is known to the session by primary key
    only and as its BASE class (the owner holds the column), its real class is a subclass with a collection of its own.
    Oracle (as everywhere): a successful delete marks exactly the closure, a Required dependent without cascade makes it refuse
    with no change, the committed rows are the prescribed ones."""
    for item_req, casc in [(True, None), (False, None), (True, False)]:
        db = Database()
        Owner = type('Owner', (db.Entity,), {'a': Optional('A', cascade_delete=True, column='a_id')})
        A = type('A', (db.Entity,), {'owner': Optional('Owner')})
        B = type('B', (A,), {'items': Set('Item') if casc is None else Set('Item', cascade_delete=casc)})
        log = []
        Item = type('Item', (db.Entity,), {'b': (Required if item_req else Optional)('B'), 'before_delete': lambda self: log.append(self.id)})
        db.bind('sqlite', ':memory:'); db.generate_mapping(create_tables=True)
        inp = {'entities': "Owner.a=Optional('A',cascade_delete=True,column='a_id'); A.owner=Optional(Owner); B(A).items=Set('Item'%s); Item.b=%s(B)"
                           % ('' if casc is None else ',cascade_delete=%s' % casc, 'Required' if item_req else 'Optional'),
               'history': 'session 1: b=B(); Owner(a=b); Item(b=b); session 2: item=Item[1] is NOT touched; Owner[1].delete(); Item[1]; commit'}
        ctx.case({'witness': 'polymorphic-stub', 'item_req': item_req, 'casc': casc}, nontrivial=True, kind='witness')
        with db_session:
            b = B(); Owner(a=b); Item(b=b)
        err = cerr = None; item_status = None
        try:
            with db_session:
                o = Owner[1]
                try: o.delete()
                except Exception as e: err = type(e).__name__
                if err is None:
                    cache = db._get_cache()
                    known = [x for x in cache.objects if isinstance(x, Item)]
                    if not known:
                        with cache.flush_disabled(): known = [x for x in [Item.get(id=1)] if x is not None]
                    item_status = known[0]._status_ if known else None
                try: commit()
                except Exception as e:
                    cerr = type(e).__name__; rollback()
        except Exception as e: cerr = cerr or type(e).__name__
        with db_session:
            con = db.get_connection()
            rows = {t: con.execute('select count(*) from "%s"' % t).fetchone()[0] for t in ('Owner', 'A', 'Item')}
            rollback()
        db.disconnect()
        must_refuse = item_req and casc is False
        obs = {'delete': err or 'ok', 'commit': cerr or 'ok', 'Item status in the session after the delete': item_status, 'before_delete hook calls': log, 'rows': rows}
        if must_refuse: bad = err != 'ConstraintError' or rows != {'Owner': 1, 'A': 1, 'Item': 1}
        elif item_req: bad = err or cerr or item_status not in DEL or log != [1] or rows != {'Owner': 0, 'A': 0, 'Item': 0}
        else: bad = err or cerr or rows != {'Owner': 0, 'A': 0, 'Item': 1}
        ctx.count('witness:polymorphic-stub:%s' % ('VIOLATES' if bad else 'ok'))
        if bad:
            ctx.violation('deleting an object known by primary key only does not load its real (sub)class: the relationships the subclass declares are '
                          'skipped (dependents not deleted in the session, hooks not run, a required dependent without cascade is not refused)',
                          inp, observed=obs, expected='the closure over the real class is deleted in the session / ConstraintError and no change',
                          key='polymorphic-stub-delete-skips-subclass-relationships')


def witnesses(ctx):
    polymorphic_stub_witness(ctx)
    for name, wi in REGRESSIONS:
        ctx.case({'regression': name}, nontrivial=True, kind='regression')
        v = check_history(ctx, wi['schema'], wi['prog'], wi['plan'])
        if v is not None: report(ctx, wi['schema'], wi['prog'], wi['plan'], v)
        else: ctx.count('regression-input-passes:' + name)
    ctx.case({'regression': 'bulk-delete-composite-pk-parent'}, nontrivial=True, kind='regression')
    bulk_case(ctx, None, R_BULK_CPK['schema'], R_BULK_CPK['prog'], fixed=R_BULK_CPK['bulk'])
    for name, wi in WITNESSES:
        ctx.case({'witness': name}, nontrivial=True, kind='witness')
        v = check_history(ctx, wi['schema'], wi['prog'], wi['plan'])
        if v is None:
            ctx.count('witness-not-reproduced:' + name)
            ctx.note('witness %s: the real code no longer shows the defect' % name)
        else:
            ctx.count('witness-reproduced:%s:%s' % (name, v[0]))
            report(ctx, wi['schema'], wi['prog'], wi['plan'], v)


def all_orders(ctx, rng, schema, prog):
    """every order of deleting a small subset, each on fresh identical data: the closure semantics must hold for each order"""
    w, state0 = build(schema, prog)
    w.db.disconnect()
    if state0 is None: return
    n = len(state0)
    sub = rng.sample(range(n), min(n, rng.choice([2, 3])))
    for perm in itertools.permutations(sub):
        plan = [['obj', i] for i in perm]
        ctx.case({'schema': schema, 'prog': prog, 'order': list(perm)}, nontrivial=True, kind='order')
        v = check_history(ctx, schema, prog, plan)
        if v is not None:
            report(ctx, schema, prog, plan, v); return


def run(ctx):
    rng = ctx.rng
    ctx.extra['delete_variant'] = 're-entrancy guard present' if guard_present() else 'no re-entrancy guard (cascade cycles through collections recurse until RecursionError)'
    linked_tie(ctx)
    witnesses(ctx)
    nhist = ctx.scale(400, 6000)
    for h in range(nhist):
        fam = rng.random()
        if fam < 0.2:
            if fam < 0.12:
                schema, prog, plan = gen_refusal_case(rng)
                ctx.case({'refusal-family': schema, 'plan': plan}, nontrivial=True, kind='refusal-family')
            else:
                schema, prog, plan = gen_inheritance_case(rng)
                ctx.case({'inheritance-family': schema, 'plan': plan}, nontrivial=True, kind='inheritance-family')
            try:
                v = check_history(ctx, schema, prog, plan)
            except (TypeError, core.ERDiagramError, core.MappingError) as e:
                ctx.count('schema-rejected:' + type(e).__name__); continue
            if v is not None: report(ctx, schema, prog, plan, v)
            continue
        schema = gen_schema(rng)
        try:
            w = World(schema)
        except Exception as e:
            ctx.count('schema-rejected:' + type(e).__name__); continue
        for rel in schema['rels']: ctx.count('rel:' + rel['kind'])
        prog = gen_prog(rng, w)
        ondelete_tie(ctx, w)
        ok = w.populate(prog)
        state0 = w.read_state() if ok else None
        plan = gen_plan(rng, w, state0) if ok else None
        w.db.disconnect()
        if not ok:
            ctx.count('data-rejected:' + str(getattr(w, 'populate_error', 'empty')))
            if getattr(w, 'populate_error', None) not in (None, 'UnresolvableCyclicDependency', 'RecursionError', 'ConstraintError'):
                ctx.note('creating the data raised %s (outside C15: creation/linking): %s' % (w.populate_error, json.dumps({'schema': schema, 'prog': prog})))
            continue
        mode = rng.random()
        if mode < 0.6:
            ctx.case({'schema': w.model_schema, 'n': len(state0), 'plan': plan}, nontrivial=True, kind='history')
            v = check_history(ctx, schema, prog, plan)
            if v is not None: report(ctx, schema, prog, plan, v)
        elif mode < 0.8:
            bulk_case(ctx, rng, schema, prog)
        elif mode < 0.9:
            bulk_vs_object(ctx, rng, schema, prog)
        else:
            all_orders(ctx, rng, schema, prog)
    flush_jobs(ctx)


def replay(ctx, data):
    inp = data.get('input') or {}
    if 'schema' in inp and 'prog' in inp and 'plan' in inp:
        ctx.case({'replay': True}, kind='replay')
        v = check_history(ctx, inp['schema'], inp['prog'], inp['plan'])
        if v is not None: report(ctx, inp['schema'], inp['prog'], inp['plan'], v)
        flush_jobs(ctx)
    else:
        run(ctx)
