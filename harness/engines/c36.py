"""C36 — a forked process never uses its parent's database connection.

Tie (correspondence): random event scripts over a process tree (connect / stmt / release / drop / disconnect / fork) are
run by the Lean model (Model/ForkPool.lean through the driver) and by the REAL pool classes under REAL `os.fork()`:
`dbapiprovider.Pool(sqlite3, file)` (the base pool used by the PostgreSQL/MySQL providers), `SQLitePool` on a file and
`SQLitePool` on ':memory:'.  Connections are created through a `sqlite3.Connection` subclass (passed as `factory=`) that
records the creating pid; per process the returned connections, `is_new`, the final `pool.con / pool.pid /
forked_connections`, and every statement / close() are compared with the model.  (Each child runs to completion before
its parent continues; the model's frame theorem C36_parent_unchanged is what makes the interleaving irrelevant.)

Property oracle (real Pony, real db_session, file-backed SQLite under /verif/.work): fork at the three fork points
(idle / pooled connection after a finished session / inside an open db_session transaction); in parent and child every
call on a connection object (execute, commit, rollback, close) is recorded with the executing pid and the creating pid.
Checked: the child only touches connections it created; the parent keeps its pooled connection object and can go on using
it; rows committed by either process are seen by the other.  Children leave with os._exit.
"""
import json, os, signal, sqlite3, subprocess, sys, threading
from pony.orm import Database, Required, db_session, select, commit, flush
from pony.orm.dbapiprovider import Pool
from pony.orm.dbproviders.sqlite import SQLitePool
sys.path.insert(0, os.path.dirname(os.path.dirname(os.path.abspath(__file__))))
import ponyutil

MARK = 'select 1'
ROOT_PID = os.getpid()
K_OPEN = 'fork-inside-open-db_session:child-statements-go-to-the-parents-connection'

# ---------------------------------------------------------------------------------------------------------------
# per-process bookkeeping (module state; a forked child re-initialises it with `become`)
# ---------------------------------------------------------------------------------------------------------------

class P:
    me = 0            # logical pid (0 = root, children numbered in the order of the fork events of the script)
    realmap = {}      # real pid -> logical pid, for this process and its ancestors
    created = {}      # pool kind -> connections (session pools) created by this process so far
    log = {}          # pool kind -> [what, connection] for every statement / close() this process issued
    cur = None        # the pool kind whose operation is being executed (several kinds are driven side by side in one process tree)
    fail = None       # armed failure for the next Pool._connect: 'connect' (no connection object) | 'init' (initialisation raises)

def p_reset():
    P.me = 0; P.realmap = {os.getpid(): 0}; P.created = {}; P.log = {}

def p_become(logical):
    P.me = logical; P.realmap = dict(P.realmap); P.realmap[os.getpid()] = logical; P.created = {}; P.log = {}

def p_stamp(obj):
    obj.kind = P.cur; n = P.created.get(P.cur, 0); obj.tag = (os.getpid(), n); P.created[P.cur] = n + 1

def p_log(obj, entry):
    P.log.setdefault(obj.kind, []).append(entry)

def canon(con):
    return None if con is None else [P.realmap.get(con.tag[0], 'pid?'), con.tag[1]]

class TrackCon(sqlite3.Connection):
    def __init__(self, *a, **k):
        if P.fail == 'connect':
            P.fail = None; raise sqlite3.OperationalError('injected: the connection cannot be opened')
        super().__init__(*a, **k)
        p_stamp(self)
    def execute(self, sql, *a):
        if P.fail == 'init' and sql.upper().startswith('PRAGMA'):
            P.fail = None; raise sqlite3.OperationalError('injected: initialisation of the new connection fails')
        if sql == MARK: p_log(self, ['stmt', canon(self)])
        return super().execute(sql, *a)
    def rollback(self):
        p_log(self, ['stmt', canon(self)]); return super().rollback()
    def close(self):
        p_log(self, ['close', canon(self)]); return super().close()

# ---- OraPool: the real class over a fake cx_Oracle.SessionPool (no Oracle client/server here) that stamps the creating pid

class FakeSessionPool(object):
    def __init__(self, **kwargs):
        if P.fail == 'connect':
            P.fail = None; raise RuntimeError('injected: SessionPool cannot be created')
        p_stamp(self)
    def acquire(self):
        if P.fail == 'connect':
            P.fail = None; raise RuntimeError('injected: acquire fails')
        return FakeOraConn(self)
    def release(self, con): p_log(self, ['release', canon(con.pool), canon(self)])
    def drop(self, con): p_log(self, ['release', canon(con.pool), canon(self)])

class FakeOraConn(object):
    def __init__(self, pool): self.pool = pool; self.tag = pool.tag; self.kind = pool.kind
    def execute(self, sql): p_log(self, ['stmt', canon(self.pool)])

def make_ora_pool():
    ponyutil.add_stubs()
    import cx_Oracle
    from pony.orm.dbproviders import oracle
    cx_Oracle.SessionPool = FakeSessionPool
    oracle.OraPool.forked_pools[:] = []
    P.cur = 'oracle'
    return oracle.OraPool(user='u', password='p', dsn='d')

def make_pool(kind, path):
    if kind == 'base': return Pool(sqlite3, path, factory=TrackCon)
    if kind == 'sqliteFile': return SQLitePool(False, path, True, factory=TrackCon)
    return SQLitePool(False, ':memory:', True, factory=TrackCon)

def read_all(fd):
    data = b''
    while True:
        b = os.read(fd, 65536)
        if not b: return data
        data += b

def write_all(fd, data):
    while data:
        n = os.write(fd, data); data = data[n:]

def interp(kind, events, path):
    """run the script on the real pool class(es); `kind` is one pool kind (-> {logical pid: report} for the whole process tree) or a
    list of kinds driven side by side in ONE process tree (-> {kind: {logical pid: report}}): a fork is the expensive step here"""
    kinds = [kind] if isinstance(kind, str) else list(kind)
    Pool.forked_connections[:] = []
    p_reset()
    pools = {k: (make_ora_pool() if k == 'oracle' else make_pool(k, path)) for k in kinds}
    held = {k: None for k in kinds}; obs = {k: [] for k in kinds}; reports = {k: {} for k in kinds}; child_fd = None; nextpid = 1
    try:
        for ev in events:
            if ev[0] == 'fork':
                newpid = nextpid; nextpid += 1
                if ev[1] != P.me: continue
                r, w = os.pipe()
                sys.stdout.flush(); sys.stderr.flush()
                pid = os.fork()
                if pid == 0:
                    signal.alarm(600)
                    os.close(r); child_fd = w
                    p_become(newpid); obs = {k: [] for k in kinds}; reports = {k: {} for k in kinds}
                else:
                    os.close(w); data = read_all(r); os.close(r); os.waitpid(pid, 0)
                    for k, v in json.loads(data.decode()).items(): reports[k].update(v)
                continue
            _, actor, act = ev
            if actor != P.me: continue
            for k in kinds:
                pool = pools[k]; ora = k == 'oracle'; P.cur = k
                aname = 'connectFail' if (ora and act == 'connectInitFail') else act      # OraPool has no separate initialisation step
                try:
                    if act in ('connect', 'connectFail', 'connectInitFail'):
                        assert held[k] is None          # SessionCache.connect: `assert cache.connection is None`
                        # failure oracle for pool._connect(): raises only if _connect is actually reached by this call
                        P.fail = None if act == 'connect' else 'connect' if (act == 'connectFail' or k in ('base', 'oracle')) else 'init'
                        try: con, is_new = pool.connect()
                        finally: P.fail = None
                        held[k] = con
                        obs[k].append([aname, canon(con.pool) if ora else canon(con), bool(is_new)])
                    elif act == 'stmt':
                        try:
                            if held[k] is not None: held[k].execute(MARK)
                        except sqlite3.ProgrammingError: pass      # statement sent to a connection that was closed under the session (model: logged as issued)
                        obs[k].append(['stmt', 'ok'])
                    elif act == 'release':
                        h, held[k] = held[k], None
                        if h is not None: pool.release(h)
                        obs[k].append(['release', 'ok'])
                    elif act == 'drop':
                        h, held[k] = held[k], None
                        if h is not None: pool.drop(h)
                        obs[k].append(['drop', 'ok'])
                    else:
                        pool.disconnect(); obs[k].append(['disconnect', 'ok'])
                except Exception as e:
                    obs[k].append([aname, type(e).__name__])
        for k in kinds:
            pool = pools[k]
            if k == 'oracle':
                reports[k][str(P.me)] = {'obs': obs[k], 'cx': canon(pool.cx_pool), 'poolpid': P.realmap.get(getattr(pool, 'pid', 'unset'), 'pid?'),
                                         'forked': [[canon(c), P.realmap.get(p, 'pid?')] for c, p in pool.forked_pools],
                                         'held': canon(held[k].pool) if held[k] is not None else None, 'log': P.log.get(k, [])}
            else:
                pid_attr = hasattr(pool, 'pid')
                reports[k][str(P.me)] = {
                    'obs': obs[k], 'con': canon(pool.con), 'pidAttr': pid_attr,
                    'poolpid': (P.realmap.get(pool.pid, 'pid?') if pool.pid is not None else None) if pid_attr else None,
                    # Pool.forked_connections is ONE class-level list shared by every pool of the process: this kind's entries
                    'forked': [[canon(c), P.realmap.get(p, 'pid?') if p is not None else None] for c, p in pool.forked_connections if c.kind == k],
                    'held': canon(held[k]), 'log': P.log.get(k, [])}
    except BaseException as e:
        if child_fd is not None:
            try: write_all(child_fd, json.dumps({k: {str(P.me): {'crash': repr(e)}} for k in kinds}).encode())
            finally: os._exit(1)
        raise
    if child_fd is not None:
        try: write_all(child_fd, json.dumps(reports).encode())
        finally: os._exit(0)
    return reports[kind] if isinstance(kind, str) else reports

# ---- threads: `Pool` is thread-local.  Real threads run the script in lockstep (one event at a time, in script order); a fork
# ---- happens inside the thread the event names, so the child consists of that thread (and its record) only.

def tkey(pid, tid): return str(pid) if tid == 0 else '%d.%d' % (pid, tid)

def ev_parts(ev):
    """(kind, pid, tid, act) of an event in either spelling (thread omitted = main thread 0)"""
    if ev[0] == 'act': return ('act', ev[1], 0, ev[2]) if len(ev) == 3 else ('act', ev[1], ev[2], ev[3])
    if ev[0] == 'fork': return ('fork', ev[1], ev[2] if len(ev) > 2 else 0, None)
    return ('spawn', ev[1], ev[2], None)

def interp_threads(kind, events, path):
    """run a script with threads on ONE real pool object of `kind` (thread-local state); {thread key: report, 'forked:<pid>': [...]}"""
    Pool.forked_connections[:] = []
    p_reset(); P.cur = kind
    pool = make_pool(kind, path)
    n = len(events)
    st = {'turn': 0, 'cond': threading.Condition(), 'threads': {}, 'reports': {}, 'child_fd': None, 'root': 0, 'alive': {0}}
    def mine(i):
        k, p, t, _ = ev_parts(events[i])
        if p != P.me: return None
        if k == 'spawn': return st['root'] if t not in st['alive'] else None
        return t if t in st['alive'] else None
    def advance(i):
        while i < n and mine(i) is None: i += 1
        return i
    def newpid_at(i): return 1 + sum(1 for e in events[:i] if e[0] == 'fork')
    def run_thread(tid):
        held = None; obs = []; log = []
        while True:
            with st['cond']:
                while st['turn'] < n and mine(st['turn']) != tid: st['cond'].wait(timeout=120)
                if st['turn'] >= n: break
                i = st['turn']
            k, p, t, act = ev_parts(events[i])
            P.cur = kind
            if k == 'spawn':
                st['alive'].add(t)
                th = threading.Thread(target=thread_main, args=(t,)); st['threads'][t] = th; th.start()
            elif k == 'fork':
                r, w = os.pipe(); sys.stdout.flush(); sys.stderr.flush()
                pid = os.fork()
                if pid == 0:
                    signal.alarm(600); os.close(r)
                    p_become(newpid_at(i))
                    st.update(cond=threading.Condition(), threads={}, reports={}, child_fd=w, root=tid, alive={tid})
                    obs = []; log = []
                else:
                    os.close(w); data = read_all(r); os.close(r); os.waitpid(pid, 0)
                    st['reports'].update(json.loads(data.decode()))
            else:
                n0 = len(P.log.get(kind, []))
                try:
                    if act in ('connect', 'connectFail', 'connectInitFail'):
                        assert held is None
                        P.fail = None if act == 'connect' else 'connect' if (act == 'connectFail' or kind == 'base') else 'init'
                        try: con, is_new = pool.connect()
                        finally: P.fail = None
                        held = con; obs.append([act, canon(con), bool(is_new)])
                    elif act == 'stmt':
                        try:
                            if held is not None: held.execute(MARK)
                        except sqlite3.ProgrammingError: pass
                        obs.append(['stmt', 'ok'])
                    elif act == 'release':
                        h, held = held, None
                        if h is not None: pool.release(h)
                        obs.append(['release', 'ok'])
                    elif act == 'drop':
                        h, held = held, None
                        if h is not None: pool.drop(h)
                        obs.append(['drop', 'ok'])
                    else: pool.disconnect(); obs.append(['disconnect', 'ok'])
                except Exception as e: obs.append([act, type(e).__name__])
                log += P.log.get(kind, [])[n0:]
            with st['cond']:
                st['turn'] = advance(i + 1); st['cond'].notify_all()
        pid_attr = hasattr(pool, 'pid')
        st['reports'][tkey(P.me, tid)] = {'obs': obs, 'con': canon(pool.con), 'pidAttr': pid_attr,
            'poolpid': (P.realmap.get(pool.pid, 'pid?') if pool.pid is not None else None) if pid_attr else None, 'held': canon(held), 'log': log}
    def thread_main(tid):
        try: run_thread(tid)
        except BaseException as e:
            st['reports'][tkey(P.me, tid)] = {'crash': repr(e)}
            with st['cond']: st['turn'] = n; st['cond'].notify_all()
        if st['child_fd'] is not None and tid == st['root']:
            # this is the forking thread of a child process (its only original thread): report and leave — returning would end the process silently
            try:
                finish(); write_all(st['child_fd'], json.dumps(st['reports']).encode())
            finally: os._exit(0)
    def finish():
        for th in list(st['threads'].values()): th.join(timeout=120)
        st['reports']['forked:%d' % P.me] = sorted(json.dumps([canon(c), P.realmap.get(p, 'pid?') if p is not None else None]) for c, p in pool.forked_connections)
    st['turn'] = advance(0)
    try:
        thread_main(0)
        # a forked child arrives here in its forking thread (its root), whatever tid that is
        finish()
    except BaseException as e:
        if st['child_fd'] is not None:
            try: write_all(st['child_fd'], json.dumps({'crash:%d' % P.me: repr(e)}).encode())
            finally: os._exit(1)
        raise
    if st['child_fd'] is not None:
        try: write_all(st['child_fd'], json.dumps(st['reports']).encode())
        finally: os._exit(0)
    return st['reports']

def model_thread_reports(events, out):
    reps, cn = model_reports(out)
    forked = {}
    for q in out['procs']:
        forked.setdefault(q['pid'], [])
        forked[q['pid']] += [json.dumps([cn(c), p]) for c, p in q['forked']]
    res = {}
    for k, r in reps.items():
        r = dict(r); r.pop('forked'); res[k] = r
    for ev, o in zip(events, out['outs']):
        k, p, t, act = ev_parts(ev)
        if k != 'act' or not o: continue
        r = res.get(tkey(p, t)); o = o[0]
        if r is None: continue
        if act.startswith('connect'):
            r['obs'].append([act, 'AssertionError'] if o['assertError'] else [act, 'AttributeError'] if o['attrError'] else
                            [act, 'OperationalError'] if o['failed'] else [act, cn(o['returned']), o['isNew']])
        else: r['obs'].append([act, 'AssertionError' if o['assertError'] else 'ok'])
        for c in o['stmts']: r['log'].append(['stmt', cn(c)])
        for c in o['closed']: r['log'].append(['close', cn(c)])
    for pid, l in forked.items(): res['forked:%d' % pid] = sorted(l)
    return res

THREAD_SCRIPTS = [
    # two threads in the parent, fork from the worker thread, a new thread in the child
    [['act', 0, 0, 'connect'], ['act', 0, 0, 'release'], ['spawn', 0, 1], ['act', 0, 1, 'connect'], ['act', 0, 1, 'stmt'], ['act', 0, 1, 'release'], ['fork', 0, 1],
     ['act', 1, 1, 'connect'], ['act', 1, 1, 'stmt'], ['act', 1, 1, 'release'], ['spawn', 1, 2], ['act', 1, 2, 'connect'], ['act', 1, 2, 'release'],
     ['act', 0, 0, 'connect'], ['act', 0, 0, 'release'], ['act', 0, 1, 'connect'], ['act', 0, 1, 'release']],
    # fork from the main thread while a worker holds a connection: the worker does not exist in the child; a thread with the same number starts empty
    [['spawn', 0, 1], ['act', 0, 1, 'connect'], ['act', 0, 0, 'connect'], ['act', 0, 0, 'release'], ['fork', 0, 0], ['spawn', 1, 1], ['act', 1, 1, 'connect'], ['act', 1, 1, 'stmt'],
     ['act', 1, 0, 'connectFail'], ['act', 1, 0, 'connect'], ['act', 1, 0, 'drop'], ['act', 0, 1, 'stmt'], ['act', 0, 1, 'release'], ['act', 0, 0, 'disconnect']],
    # worker forks while it holds its connection (fork point "open transaction" in a worker thread)
    [['spawn', 0, 3], ['act', 0, 3, 'connect'], ['fork', 0, 3], ['act', 1, 3, 'stmt'], ['act', 1, 3, 'release'], ['act', 1, 3, 'connect'], ['act', 0, 3, 'release'], ['act', 0, 0, 'connect']],
]

def thread_tie(ctx, work):
    if not ctx.driver.ok: return
    jobs = [(k, s_) for s_ in THREAD_SCRIPTS for k in (['sqliteFile', 'base'] if not ctx.thorough else ['sqliteFile', 'base', 'sqliteMemory'])]
    outs = ctx.driver('C36', [{'op': 'run', 'kind': k, 'events': s_} for k, s_ in jobs])
    hp = subprocess.run([sys.executable, os.path.abspath(__file__), '--helper-threads', work], input=json.dumps(jobs), stdout=subprocess.PIPE, stderr=subprocess.PIPE, text=True, timeout=3000)
    try: reals = json.loads(hp.stdout)
    except ValueError: raise RuntimeError('C36 helper (threads) failed: ' + hp.stderr[-500:])
    for (kind, script), out, real in zip(jobs, outs, reals):
        ctx.case(['thread-tie', kind, script], kind='tie:thread-script:' + kind)
        if 'driver_error' in out:
            ctx.divergence('driver rejected the thread script', {'kind': kind, 'events': script}, model=out, impl=None); continue
        reps = model_thread_reports(script, out)
        if real != reps:
            bad = sorted(k for k in set(real) | set(reps) if real.get(k) != reps.get(k))
            ctx.divergence('pool model with threads and the real thread-local pool under os.fork() disagree', {'kind': kind, 'events': script, 'record': bad[0]},
                           model=reps.get(bad[0]), impl=real.get(bad[0]))
        for key, r in real.items():
            if key.startswith('forked') or not isinstance(r, dict): continue
            for o in r.get('obs', []):
                if o[0].startswith('connect') and isinstance(o[1], list) and str(o[1][0]) != key.split('.')[0]:
                    ctx.violation('Pool.connect returned to a thread a connection created by another process', {'kind': kind, 'events': script, 'thread': key},
                                  observed=o, expected='a connection created by process ' + key.split('.')[0], key='pool-connect-foreign:threads:%s:%s' % (kind, THREAD_SCRIPTS.index(script)))

def model_reports(out):
    """the model's final world in the shape of `interp`'s result"""
    conns = {}
    def see(c):
        if c is not None: conns.setdefault(c[1], set()).add(c[0])
    for p, c in out['returned'] + out['closed']: see(c)
    rank = {}
    for creator, serials in conns.items():
        for i, s in enumerate(sorted(serials)): rank[(s, creator)] = [creator, i]
    cn = lambda c: None if c is None else rank.get((c[0], c[1]), ['?', c[0]])
    reps = {}
    for q in out['procs']:
        reps[tkey(q['pid'], q.get('tid', 0))] = {'obs': [], 'con': cn(q['con']), 'pidAttr': q['pidAttr'], 'poolpid': q['poolpid'],
                               'forked': [[cn(c), p] for c, p in q['forked']], 'held': cn(q['held']), 'log': []}
    return reps, cn

def model_fill(reps, cn, events, out):
    for ev, o in zip(events, out['outs']):
        if ev[0] == 'fork': continue
        _, actor, act = ev
        r = reps.get(str(actor))
        if r is None or not o: continue
        o = o[0]
        if act.startswith('connect'):
            r['obs'].append([act, 'AssertionError'] if o['assertError'] else [act, 'AttributeError'] if o['attrError'] else
                            [act, 'OperationalError'] if o['failed'] else [act, cn(o['returned']), o['isNew']])
        else:
            r['obs'].append([act, 'AssertionError' if o['assertError'] else 'ok'])
        for c in o['stmts']: r['log'].append(['stmt', cn(c)])
        for c in o['closed']: r['log'].append(['close', cn(c)])

def random_script(rng, maxlen):
    n_procs = 1; held = {0: False}; evs = []
    for _ in range(rng.randint(2, maxlen)):
        p = rng.randrange(n_procs)
        r = rng.random()
        if r < 0.18 and n_procs < 4:
            evs.append(['fork', p]); held[n_procs] = held[p]; n_procs += 1
        else:
            # mostly disciplined sessions (connect ... release), sometimes anything
            if rng.random() < 0.75:
                act = rng.choice(['stmt', 'stmt', 'release', 'release', 'drop']) if held[p] else rng.choice(['connect', 'connect', 'connect', 'connectFail', 'connectInitFail', 'disconnect'])
            else: act = rng.choice(['connect', 'connectFail', 'connectInitFail', 'stmt', 'release', 'drop', 'disconnect'])
            evs.append(['act', p, act])
            if act == 'connect': held[p] = True      # (a failing connect leaves nothing checked out; one that finds a pooled connection is rare enough)
            elif act in ('release', 'drop'): held[p] = False
    return evs

FIXED = [
    [['act', 0, 'connect'], ['act', 0, 'release'], ['fork', 0], ['act', 1, 'connect'], ['act', 1, 'stmt'], ['act', 1, 'release'], ['act', 0, 'connect'], ['act', 0, 'stmt'], ['act', 0, 'release']],
    [['fork', 0], ['act', 1, 'connect'], ['act', 1, 'release'], ['act', 0, 'connect'], ['act', 0, 'release']],
    [['act', 0, 'connect'], ['fork', 0], ['act', 1, 'stmt'], ['act', 1, 'release'], ['act', 1, 'connect'], ['act', 0, 'stmt'], ['act', 0, 'release']],
    [['act', 0, 'connect'], ['act', 0, 'release'], ['fork', 0], ['act', 1, 'disconnect'], ['act', 1, 'connect'], ['act', 0, 'connect']],
    [['act', 0, 'connect'], ['act', 0, 'release'], ['fork', 0], ['act', 1, 'connect'], ['fork', 1], ['act', 2, 'connect'], ['act', 2, 'drop'], ['act', 1, 'release'], ['act', 2, 'connect'], ['act', 0, 'disconnect'], ['act', 0, 'connect']],
    [['act', 0, 'connect'], ['act', 0, 'drop'], ['act', 0, 'connect'], ['act', 0, 'connect'], ['act', 0, 'release'], ['act', 0, 'release'], ['act', 0, 'disconnect'], ['act', 0, 'disconnect']],
    # the child's FIRST connection attempt fails inside pool._connect(), then it retries
    [['act', 0, 'connect'], ['act', 0, 'release'], ['fork', 0], ['act', 1, 'connectFail'], ['act', 1, 'connect'], ['act', 1, 'stmt'], ['act', 1, 'release'], ['act', 0, 'connect'], ['act', 0, 'stmt'], ['act', 0, 'release']],
    [['act', 0, 'connect'], ['act', 0, 'release'], ['fork', 0], ['act', 1, 'connectInitFail'], ['act', 1, 'connectFail'], ['act', 1, 'connect'], ['act', 1, 'stmt'], ['act', 1, 'drop'], ['act', 0, 'connect']],
    [['act', 0, 'connectFail'], ['act', 0, 'connectInitFail'], ['act', 0, 'connect'], ['act', 0, 'release'], ['act', 0, 'connectFail'], ['act', 0, 'stmt'], ['act', 0, 'release'], ['fork', 0], ['act', 1, 'connectInitFail'], ['act', 1, 'disconnect'], ['act', 1, 'connect']],
]

def connect_raises(real, reps):
    """a plain connect that the model says succeeds but that raised on the real pool: (process, observation)"""
    for p in sorted(real):
        for o, m in zip(real[p].get('obs', []), reps.get(p, {}).get('obs', [])):
            if o[0] == 'connect' and isinstance(o[1], str) and isinstance(m[1], list): return p, o
    return None

def foreign_connect(real):
    for p, r in sorted(real.items()):
        for o in r.get('obs', []):
            if o[0].startswith('connect') and isinstance(o[1], list) and str(o[1][0]) != p: return p, o
    return None

MINIMAL = [['act', 0, 'connect'], ['act', 0, 'release'], ['fork', 0], ['act', 1, 'connect']]

MINIMAL_RETRY = [['act', 0, 'connect'], ['act', 0, 'release'], ['fork', 0], ['act', 1, 'connectFail'], ['act', 1, 'connect']]
MINIMAL_RETRY2 = [['act', 0, 'connect'], ['act', 0, 'release'], ['fork', 0], ['act', 1, 'connectInitFail'], ['act', 1, 'connect']]

def shrink(kind, script, path):
    """smallest script (canonical minimal one first, then greedy deletion of events) on which the real pool still hands a foreign connection out"""
    for m in (MINIMAL, MINIMAL_RETRY, MINIMAL_RETRY2):
        if foreign_connect(interp(kind, m, path)): return m
    cur = list(script); budget = 25
    i = 0
    while i < len(cur) and budget > 0:
        cand = cur[:i] + cur[i + 1:]
        # deleting a fork renumbers nothing we keep only if no later event refers to a process that would not exist
        n = 1 + sum(1 for e in cand if e[0] == 'fork')
        ok = all(e[1] < n for e in cand)
        if ok:
            budget -= 1
            if foreign_connect(interp(kind, cand, path)): cur = cand; continue
        i += 1
    return cur

KINDS = ['base', 'sqliteFile', 'sqliteMemory', 'oracle']

def ora_events(script):
    return [e if e[0] == 'fork' or e[2] != 'connectInitFail' else ['act', e[1], 'connectFail'] for e in script]

def pool_tie(ctx, work):
    shrunk = set()
    if not ctx.driver.ok:
        ctx.note('driver unavailable: pool tie skipped'); return
    rng = ctx.rng
    scripts = list(FIXED) + list(ORA_FIXED) + ORA_MINIMAL + [random_script(rng, 14) for _ in range(ctx.scale(8, 160))]
    reqs = []
    for s_ in scripts:
        reqs += [{'op': 'run', 'kind': k, 'events': s_} for k in KINDS[:3]] + [{'op': 'ora', 'events': ora_events(s_)}]
    all_outs = ctx.driver('C36', reqs)
    # the real runs happen in a small helper process (this file run as a script): fork() of the big framework process is several times
    # slower; and the four pool kinds are driven side by side in ONE process tree per script (a fork costs 0.15 s and more here)
    hp = subprocess.run([sys.executable, os.path.abspath(__file__), '--helper', work], input=json.dumps([[KINDS, s_] for s_ in scripts]), stdout=subprocess.PIPE, stderr=subprocess.PIPE, text=True, timeout=3000)
    try: reals = json.loads(hp.stdout)
    except ValueError: raise RuntimeError('C36 helper failed: ' + hp.stderr[-500:])
    ctx.count('tie:real-runs-in-helper', len(reals))
    ctx.count('tie:real-forks', sum(1 for s_ in scripts for e in s_ if e[0] == 'fork'))
    for i, (script, real4) in enumerate(zip(scripts, reals)):
        path = os.path.join(work, 'tie%d.sqlite' % (i % 7))
        ora_check(ctx, script, all_outs[4 * i + 3], real4['oracle'], shrunk)
        for kind, out in zip(KINDS[:3], all_outs[4 * i:4 * i + 3]):
            real = real4[kind]
            if 'driver_error' in out:
                ctx.divergence('driver rejected the script', {'kind': kind, 'events': script}, model=out, impl=None); continue
            reps, cn = model_reports(out); model_fill(reps, cn, script, out)
            forks = sum(1 for e in script if e[0] == 'fork')
            ctx.case(['pool-tie', kind, script], nontrivial=forks > 0, kind='tie:pool-script:' + kind)
            ctx.count('tie:forks=%d' % forks)
            ctx.count('tie:disciplined=%s' % (not out['forkWhileHeld'] and not out['staleDisconnect']))
            if out['forkWhileHeld']: ctx.count('tie:branch:fork-while-held')
            if out['staleDisconnect']: ctx.count('tie:branch:stale-disconnect')
            if out['assertErrors']: ctx.count('tie:branch:assert-error')
            if any(q['forked'] for q in out['procs']): ctx.count('tie:branch:parked-inherited-connection')
            if any(e[1][1] != e[0] for e in out['closed']): ctx.count('tie:branch:foreign-close')
            if any(e[1][1] != e[0] for e in out['stmts']): ctx.count('tie:branch:foreign-stmt')
            fl = [o[0] for ev, o in zip(script, out['outs']) if ev[0] == 'act' and o and o[0].get('failed')]
            if fl: ctx.count('tie:branch:connect-failed')
            if any(o['closed'] for o in fl): ctx.count('tie:branch:connect-failed-after-creation(closed)')
            if any(ev[0] == 'act' and ev[2] != 'connect' and ev[2].startswith('connect') and o and o[0].get('returned') for ev, o in zip(script, out['outs'])): ctx.count('tie:branch:failure-armed-but-pooled-connection-reused')
            stale_fail = False
            for j, ev in enumerate(script):
                if ev[0] == 'act' and ev[2] in ('connectFail', 'connectInitFail') and out['outs'][j] and out['outs'][j][0].get('failed') and any(e[0] == 'act' and e[1] == ev[1] and e[2] == 'connect' for e in script[j + 1:]) and ev[1] != 0: stale_fail = True
            if stale_fail: ctx.count('tie:branch:child-connect-fails-then-retries')
            cr = connect_raises(real, reps)
            if cr and ('raises', kind) not in shrunk:
                shrunk.add(('raises', kind))
                ctx.violation('Pool.connect raised in a process that holds no connection and whose _connect() does not fail: sessions of that process cannot use the database',
                              {'kind': kind, 'events': script, 'process': cr[0]}, observed=cr[1], expected='a connection created by process ' + cr[0],
                              key='pool-connect-raises:%s:%s' % (kind, cr[1][1]))
            if real != reps:
                bad = sorted(k for k in set(real) | set(reps) if real.get(k) != reps.get(k))
                ctx.divergence('pool model and the real pool under os.fork() disagree', {'kind': kind, 'events': script, 'process': bad[0]},
                               model=reps.get(bad[0]), impl=real.get(bad[0]))
            # the theorem's statement evaluated on the REAL run: every connection returned to process p was created by p
            bad = foreign_connect(real)
            if bad and kind not in shrunk:
                shrunk.add(kind)
                small = shrink(kind, script, path)
                p, o = foreign_connect(interp(kind, small, path))
                ctx.violation('Pool.connect returned to a process a connection created by another process (its parent)', {'kind': kind, 'events': small, 'process': p},
                              observed=o, expected='a connection created by process ' + p, key='pool-connect-foreign:%s:%s' % (kind, json.dumps(small)))
    Pool.forked_connections[:] = []

# ---- OraPool tie

def ora_model_reports(events, out):
    pools = {}
    def see(p): pools.setdefault(p[1], set()).add(p[0])
    for q in out['procs']:
        see(q['cx'])
        for p, _ in q['forked']: see(p)
        if q['held']: see(q['held']['pool'])
    for o in out['outs']:
        for x in o:
            if x['returned']: see(x['returned']['pool'])
    rank = {(s_, c): [c, i] for c, ss in pools.items() for i, s_ in enumerate(sorted(ss))}
    cn = lambda p: rank[(p[0], p[1])]
    reps = {str(q['pid']): {'obs': [], 'cx': cn(q['cx']), 'poolpid': q['poolpid'], 'forked': [[cn(p), pid] for p, pid in q['forked']],
                            'held': cn(q['held']['pool']) if q['held'] else None, 'log': []} for q in out['procs']}
    for ev, o in zip(events, out['outs']):
        if ev[0] == 'fork' or not o: continue
        _, actor, act = ev; o = o[0]; r = reps[str(actor)]
        if act.startswith('connect'):
            r['obs'].append([act, 'AssertionError'] if o['assertError'] else [act, 'RuntimeError'] if o['failed'] else [act, cn(o['returned']['pool']), True])
        else: r['obs'].append([act, 'ok'])
        for c in o['stmts']: r['log'].append(['stmt', cn(c['pool'])])
        for c, via in o['released']: r['log'].append(['release', cn(c['pool']), cn(via)])
    return reps

def random_ora_script(rng, maxlen):
    n_procs = 1; held = {0: False}; evs = []
    for _ in range(rng.randint(2, maxlen)):
        p = rng.randrange(n_procs)
        if rng.random() < 0.2 and n_procs < 4:
            evs.append(['fork', p]); held[n_procs] = held[p]; n_procs += 1; continue
        if rng.random() < 0.8: act = rng.choice(['stmt', 'release', 'release', 'drop']) if held[p] else rng.choice(['connect', 'connect', 'connect', 'connectFail', 'disconnect'])
        else: act = rng.choice(['connect', 'connectFail', 'stmt', 'release', 'drop', 'disconnect'])
        evs.append(['act', p, act])
        if act == 'connect': held[p] = True
        elif act in ('release', 'drop'): held[p] = False
    return evs

ORA_FIXED = [
    [['act', 0, 'connect'], ['act', 0, 'release'], ['fork', 0], ['act', 1, 'connect'], ['act', 1, 'stmt'], ['act', 1, 'release'], ['act', 0, 'connect'], ['act', 0, 'stmt'], ['act', 0, 'release']],
    [['fork', 0], ['act', 1, 'connectFail'], ['act', 1, 'connect'], ['act', 1, 'release'], ['act', 0, 'connectFail'], ['act', 0, 'connect']],
    [['act', 0, 'connect'], ['fork', 0], ['act', 1, 'stmt'], ['act', 1, 'release'], ['act', 1, 'connect'], ['fork', 1], ['act', 2, 'connect'], ['act', 2, 'drop'], ['act', 0, 'release']],
]
ORA_MINIMAL = [[['fork', 0], ['act', 1, 'connect']], [['fork', 0], ['act', 1, 'connectFail'], ['act', 1, 'connect']]]

def ora_check(ctx, script, out, real, shrunk):
    script = ora_events(script)
    ctx.case(['ora-tie', script], nontrivial=any(e[0] == 'fork' for e in script), kind='tie:pool-script:oracle')
    if 'driver_error' in out:
        ctx.divergence('driver rejected the OraPool script', script, model=out, impl=None); return
    reps = ora_model_reports(script, out)
    if any(q['forked'] for q in out['procs']): ctx.count('tie:ora:parked-inherited-session-pool')
    if any(x['failed'] for o in out['outs'] for x in o): ctx.count('tie:ora:connect-failed')
    cr = connect_raises(real, reps)
    if cr and ('raises', 'oracle') not in shrunk:
        shrunk.add(('raises', 'oracle'))
        ctx.violation('OraPool.connect raised in a process that holds no connection and whose session pool / acquire do not fail: sessions of that process cannot use the database',
                      {'kind': 'oracle (real OraPool over a pid-stamping fake cx_Oracle.SessionPool)', 'events': script, 'process': cr[0]}, observed=cr[1],
                      expected='a connection from a session pool created by process ' + cr[0], key='pool-connect-raises:oracle:%s' % cr[1][1])
    if real != reps:
        bad = sorted(k for k in set(real) | set(reps) if real.get(k) != reps.get(k))
        ctx.divergence('OraPool model and the real OraPool (over a fake cx_Oracle.SessionPool) under os.fork() disagree', {'events': script, 'process': bad[0]},
                       model=reps.get(bad[0]), impl=real.get(bad[0]))
    for p, r in sorted(real.items()):
        m = reps.get(p, {})
        if isinstance(r, dict) and m.get('forked') and len(r.get('forked', [])) < len(m['forked']) and ('parked', 'oracle') not in shrunk:
            shrunk.add(('parked', 'oracle'))
            ctx.violation('OraPool.connect in a forked child did not keep the inherited cx_Oracle session pool alive in OraPool.forked_pools (dropping the last reference lets the SessionPool destructor close the sessions the parent is using)',
                          {'kind': 'oracle (real OraPool over a pid-stamping fake cx_Oracle.SessionPool)', 'events': script, 'process': p},
                          observed=r.get('forked'), expected=m['forked'], key='ora:inherited-session-pool-not-kept-alive')
    fc = foreign_connect(real)
    if fc and 'oracle' not in shrunk:
        shrunk.add('oracle')
        small = next((m for m in ORA_MINIMAL if foreign_connect(interp('oracle', m, None))), script)
        p, o = foreign_connect(interp('oracle', small, None))
        ctx.violation('OraPool.connect handed a process a connection acquired from a session pool created by another process (its parent)',
                      {'kind': 'oracle (real OraPool over a pid-stamping fake cx_Oracle.SessionPool)', 'events': small, 'process': p},
                      observed=o, expected='a connection from a session pool created by process ' + p, key='pool-connect-foreign:oracle:%s' % json.dumps(small))

# ---------------------------------------------------------------------------------------------------------------
# property oracle on real db_session
# ---------------------------------------------------------------------------------------------------------------

LOG = []      # [op, executing real pid, creator real pid, id(connection)]

class OCur(sqlite3.Cursor):
    def execute(self, sql, *a):
        LOG.append([sql.split()[0].upper(), os.getpid(), self.connection.creator, id(self.connection)])
        return super().execute(sql, *a)
    def executemany(self, sql, *a):
        LOG.append([sql.split()[0].upper(), os.getpid(), self.connection.creator, id(self.connection)])
        return super().executemany(sql, *a)

class OCon(sqlite3.Connection):
    fail_next = [None]      # 'connect' | 'init': injected failure of the next connection attempt in this process
    def __init__(self, *a, **k):
        if OCon.fail_next[0] == 'connect':
            OCon.fail_next[0] = None; raise sqlite3.OperationalError('injected: the connection cannot be opened')
        super().__init__(*a, **k); self.creator = os.getpid()
        LOG.append(['CREATE', os.getpid(), self.creator, id(self)])
    def cursor(self, factory=OCur): return super().cursor(factory)
    def execute(self, sql, *a):
        if OCon.fail_next[0] == 'init' and sql.upper().startswith('PRAGMA'):
            OCon.fail_next[0] = None; raise sqlite3.OperationalError('injected: initialisation of the new connection fails')
        LOG.append([sql.split()[0].upper(), os.getpid(), self.creator, id(self)]); return super().execute(sql, *a)
    def commit(self):
        LOG.append(['COMMIT()', os.getpid(), self.creator, id(self)]); return super().commit()
    def rollback(self):
        LOG.append(['ROLLBACK()', os.getpid(), self.creator, id(self)]); return super().rollback()
    def close(self):
        LOG.append(['CLOSE()', os.getpid(), self.creator, id(self)]); return super().close()

def fork_point_run(ctx, work, point, child_mode, n):
    """one real run: parent reaches `point`, forks; the child works in db_sessions of its own; both report"""
    path = os.path.join(work, 'fp-%s-%s-%d.sqlite' % (point, child_mode, n))
    del LOG[:]
    OCon.fail_next[0] = None
    if child_mode == 'file-missing-first': sqlite3.connect(path).close()      # bound with create_db=False: a missing file is an error
    db = Database('sqlite', path, create_db=(child_mode != 'file-missing-first'), factory=OCon)
    class T(db.Entity):
        v = Required(int)
    @db.on_connect(provider='sqlite')
    def hook(db_, connection):           # a user's connection set-up hook: must run for EVERY new connection, the forked child's included
        LOG.append(['ON_CONNECT', os.getpid(), connection.creator, id(connection)])
    db.generate_mapping(create_tables=True)
    with db_session: T(v=1)
    parent = os.getpid()
    res = {}
    def child(r1, w1, r2, w2):
        signal.alarm(600)
        out = {}
        try:
            os.close(r1); os.close(w2)
            n0 = len(LOG)
            if child_mode == 'disconnect-first': db.disconnect()
            if child_mode in ('first-connect-fails', 'first-init-fails', 'file-missing-first'):
                # the child's FIRST connection attempt raises inside pool._connect(); afterwards it works normally (retry)
                if child_mode == 'file-missing-first': os.rename(path, path + '.moved')
                else: OCon.fail_next[0] = 'connect' if child_mode == 'first-connect-fails' else 'init'
                try:
                    with db_session: select(t.v for t in T)[:]
                    out['first_attempt'] = 'did not fail'
                except Exception as e: out['first_attempt'] = type(e).__name__
                finally:
                    OCon.fail_next[0] = None
                    if child_mode == 'file-missing-first': os.rename(path + '.moved', path)
            with db_session:
                out['seen1'] = sorted(select(t.v for t in T)[:])
                if point != 'open': T(v=100)    # (inside the inherited open session the child only reads: nothing is written through the parent's connection)
            write_all(w1, b'c')                 # tell the parent the child has committed 100
            os.read(r2, 1)                      # wait until the parent has committed 3
            with db_session:
                out['seen2'] = sorted(select(t.v for t in T)[:])
            out['pool_con_creator'] = db.provider.pool.con.creator if db.provider.pool.con is not None else None
            out['forked'] = [[c.creator, p] for c, p in db.provider.pool.forked_connections]
        except BaseException as e:
            out['error'] = type(e).__name__ + ': ' + str(e)[:200]
        out['log'] = LOG[n0:]; out['pid'] = os.getpid()
        try: write_all(w1, json.dumps(out).encode())
        finally: os._exit(0)
    def do_fork():
        r1, w1 = os.pipe(); r2, w2 = os.pipe()
        sys.stdout.flush(); sys.stderr.flush()
        pid = os.fork()
        if pid == 0: child(r1, w1, r2, w2)
        os.close(w1); os.close(r2)
        return pid, r1, w2
    def finish(pid, r1, w2):
        data = read_all(r1); os.close(r1); os.waitpid(pid, 0)
        return json.loads(data[1:].decode()) if data[:1] == b'c' else json.loads(data.decode() or '{"error": "no report"}')
    Pool.forked_connections[:] = []
    pool = db.provider.pool
    if point == 'idle':
        db.disconnect()
        assert pool.con is None
    elif point == 'pooled':
        assert pool.con is not None
    before = id(pool.con) if pool.con is not None else None
    n_parent0 = len(LOG)
    if point == 'open':
        with db_session:
            T(v=2); flush()
            inside_con = id(db._get_cache().connection)
            pid, r1, w2 = do_fork()
            if os.read(r1, 1) != b'c': res['child_sync'] = 'child failed before its first commit'
            res['parent_sees_in_txn'] = sorted(select(t.v for t in T)[:])
            T(v=3)
        write_all(w2, b'p'); os.close(w2)
        c = finish(pid, r1, w2)
    else:
        pid, r1, w2 = do_fork()
        sync = os.read(r1, 1)
        if sync != b'c': res['child_sync'] = 'child failed before its first commit'
        try:
            with db_session:
                res['parent_sees_after_child_commit'] = sorted(select(t.v for t in T)[:]); T(v=3)
        except Exception as e:
            res['parent_error'] = type(e).__name__ + ': ' + str(e)[:200]
        write_all(w2, b'p'); os.close(w2)
        c = finish(pid, r1, w2)
    try:
        with db_session:
            res['final'] = sorted(select(t.v for t in T)[:])
    except Exception as e:
        res['parent_error'] = type(e).__name__ + ': ' + str(e)[:200]
    res['parent_con_same'] = (before is None) or (pool.con is not None and id(pool.con) == before) or point == 'open'
    res['parent_log'] = LOG[n_parent0:]
    db.disconnect()
    Pool.forked_connections[:] = []
    # ---- judge
    inp = {'fork_point': point, 'child': child_mode, 'database': 'file-backed SQLite', 'parent_before_fork':
           {'idle': 'db.disconnect() (no connection)', 'pooled': 'one finished db_session (connection in the pool)', 'open': 'inside db_session after T(v=2); flush()'}[point],
           'child_program': {'disconnect-first': 'db.disconnect(); ', 'first-connect-fails': 'FIRST SESSION FAILS (sqlite3.connect raises once inside pool._connect()); then: ',
                             'first-init-fails': 'FIRST SESSION FAILS (initialisation of the new connection raises once); then: ',
                             'file-missing-first': 'FIRST SESSION FAILS (database file renamed away: "Database file is not found"; renamed back); then: '}.get(child_mode, '') + 'with db_session: select(t.v for t in T)[:]; T(v=100)  ...  with db_session: select(...)'}
    ctx.case(['fork-point', point, child_mode, n], kind='oracle:fork-point:%s:%s' % (point, child_mode))
    clog = c.get('log', [])
    foreign = [e for e in clog if e[2] != c.get('pid')]
    foreign_stmt = [e for e in foreign if e[0] != 'CLOSE()']
    foreign_close = [e for e in foreign if e[0] == 'CLOSE()']
    pforeign = [e for e in res['parent_log'] if e[1] == parent and e[2] != parent]
    created = [e[3] for e in clog if e[0] == 'CREATE']
    hooked = [e[3] for e in clog if e[0] == 'ON_CONNECT']
    used = {e[3] for e in clog if e[0] in ('SELECT', 'INSERT', 'BEGIN') and e[2] == c.get('pid')}
    if [x for x in created if x in used and x not in hooked]:
        ctx.violation("the connection the forked child opened for itself was not initialised like a new connection: the database's on_connect hooks did not run for it (Pool.connect reported is_new_connection=False)",
                      inp, observed={'created': len(created), 'on_connect calls': len(hooked)}, expected='one on_connect call per connection the child opens and uses',
                      key='fork:%s:%s:child-connection-without-on_connect' % (point, child_mode))
    ctx.count('child-ops:%s:%d' % (point, len(clog)))
    if foreign_stmt:
        key = K_OPEN if point == 'open' else 'fork:%s:%s:child-statement-on-parent-connection' % (point, child_mode)
        ctx.violation('after a fork %s the child issues statements on the connection its parent opened (the pid test is in Pool.connect only; a session that already holds a connection never calls it)' % inp['parent_before_fork']
                      if point == 'open' else 'a session in the forked child issues statements on a connection the parent opened',
                      inp, observed=[[e[0], 'executed by child', 'connection created by parent'] for e in foreign_stmt][:6], expected='every statement of the child on a connection the child created', key=key)
    if child_mode in ('first-connect-fails', 'first-init-fails', 'file-missing-first'):
        ctx.count('child-first-attempt:%s:%s' % (child_mode, c.get('first_attempt')))
        if c.get('first_attempt') == 'did not fail': ctx.note('fork point %s / %s: the injected failure did not make the first session fail' % (point, child_mode))
    if foreign_close and child_mode != 'disconnect-first':
        ctx.violation('a forked child that only opens sessions of its own calls close() on a connection object created by the parent (for a socket-based provider this terminates the parent\'s server session)',
                      inp, observed=foreign_close[:3], expected='the inherited connection is parked in Pool.forked_connections, never closed', key='fork:%s:child-closes-parent-connection' % point)
    if foreign_close and child_mode == 'disconnect-first':
        ctx.count('observed:child-disconnect-closes-inherited-connection-object')
    if pforeign:
        ctx.violation('the parent used a connection it did not create', inp, observed=pforeign[:3], expected='own connections only', key='fork:%s:parent-foreign' % point)
    if 'error' in c and not foreign_stmt:
        ctx.violation('a session in the forked child failed', inp, observed=c['error'], expected='the child works on its own connection', key='fork:%s:%s:child-error:%s' % (point, child_mode, c['error'].split(':')[0]))
    if 'parent_error' in res or 'child_sync' in res:
        ctx.violation('the parent could not keep using its connection after the fork', inp, observed=res.get('parent_error') or res.get('child_sync'), expected='parent sessions keep working', key='fork:%s:%s:parent-error' % (point, child_mode))
    if point != 'open' and not res['parent_con_same']:
        ctx.violation('the parent lost its pooled connection object because of the fork', inp, observed='pool.con replaced', expected='same connection object', key='fork:%s:parent-con-replaced' % point)
    if point != 'open' and 'error' not in c:
        exp = {'seen1': [1], 'parent_sees_after_child_commit': [1, 100], 'seen2': [1, 3, 100], 'final': [1, 3, 100]}
        got = {'seen1': c.get('seen1'), 'parent_sees_after_child_commit': res.get('parent_sees_after_child_commit'), 'seen2': c.get('seen2'), 'final': res.get('final')}
        if got != exp:
            ctx.violation('rows committed by one process are not seen by the other', inp, observed=got, expected=exp, key='fork:%s:%s:visibility' % (point, child_mode))
        if point == 'pooled' and child_mode != 'disconnect-first' and c.get('forked') != [[parent, parent]]:
            ctx.violation('the inherited connection was not parked in forked_connections', inp, observed=c.get('forked'), expected=[['parent pid', 'parent pid']], key='fork:pooled:not-parked')
    if point == 'open':
        ctx.extra.setdefault('open_txn_observation', {'child_seen_in_inherited_session': c.get('seen1'), 'parent_final': res.get('final'), 'child_error': c.get('error')})
        if res.get('final') is not None and not {1, 2, 3} <= set(res['final']):
            ctx.violation('the parent\'s transaction was damaged by the fork', inp, observed=res.get('final'), expected='rows 1, 2, 3 committed by the parent', key='fork:open:parent-transaction-damaged')

def model_witness(ctx):
    """the two witnesses of C36_only_own_connections_full_false, through the driver (model side of the replay)"""
    if not ctx.driver.ok: return
    w1 = [['act', 0, 'connect'], ['fork', 0], ['act', 1, 'stmt']]
    w2 = [['act', 0, 'connect'], ['act', 0, 'release'], ['fork', 0], ['act', 1, 'disconnect']]
    o1, o2 = ctx.driver('C36', [{'op': 'run', 'kind': 'sqliteFile', 'events': w1}, {'op': 'run', 'kind': 'base', 'events': w2}])
    ctx.case(['model-witness', 1], kind='tie:model-witness'); ctx.case(['model-witness', 2], kind='tie:model-witness')
    if [1, [0, 0]] not in o1.get('stmts', []) or not o1.get('forkWhileHeld'):
        ctx.divergence('model witness 1 (statement of the child on the inherited checked-out connection) not reproduced by the driver', w1, model=o1, impl=None)
    if [1, [0, 0]] not in o2.get('closed', []) or not o2.get('staleDisconnect'):
        ctx.divergence('model witness 2 (stale disconnect closes the inherited connection) not reproduced by the driver', w2, model=o2, impl=None)

def run(ctx):
    global ROOT_PID
    ROOT_PID = os.getpid()
    work = ponyutil.workdir('c36')
    try:
        model_witness(ctx)
        pool_tie(ctx, work)
        thread_tie(ctx, work)
        n = 0
        for rep in range(ctx.scale(1, 4)):
            for point in ('idle', 'pooled', 'open'):
                for mode in ('sessions-only', 'disconnect-first', 'first-connect-fails', 'first-init-fails', 'file-missing-first'):
                    if point == 'open' and mode != 'sessions-only': continue     # db.disconnect() is refused inside db_session; the inherited session never reconnects
                    if point == 'idle' and mode in ('first-init-fails', 'file-missing-first') and not ctx.thorough: continue
                    try:
                        try:
                            fork_point_run(ctx, work, point, mode, n)
                        except OSError:
                            # pipe / process plumbing of the harness itself (e.g. a child killed by its watchdog on an overloaded
                            # machine): not an observation about Pony — one retry, then an infrastructure error (exit 2)
                            if os.getpid() != ROOT_PID: os._exit(1)
                            ctx.count('infrastructure-retry'); n += 100
                            fork_point_run(ctx, work, point, mode, n)
                    except OSError:
                        if os.getpid() != ROOT_PID: os._exit(1)
                        raise
                    except Exception as e:
                        if os.getpid() != ROOT_PID: os._exit(1)
                        ctx.violation('the parent could not use the database around the fork', {'fork_point': point, 'child': mode, 'database': 'file-backed SQLite'},
                                      observed=type(e).__name__ + ': ' + str(e)[:200], expected='sessions of the parent work', key='fork:%s:%s:parent-error' % (point, mode))
                    n += 1
    finally:
        if os.getpid() == ROOT_PID: ponyutil.rmtree(work)
        else: os._exit(1)

def replay(ctx, data):
    run(ctx)

if __name__ == '__main__' and len(sys.argv) >= 3 and sys.argv[1] == '--helper':
    # helper mode: run every script of the JSON list on stdin on the real pool classes; print the list of reports
    _work = sys.argv[2]
    _scripts = json.load(sys.stdin)
    _res = [interp(k, s, os.path.join(_work, 'tie%d.sqlite' % (i % 7))) for i, (k, s) in enumerate(_scripts)]
    # (kind 'oracle' ignores the path)
    sys.stdout.write(json.dumps(_res)); sys.stdout.flush()

if __name__ == '__main__' and len(sys.argv) >= 3 and sys.argv[1] == '--helper-threads':
    _work = sys.argv[2]
    _jobs = json.load(sys.stdin)
    import warnings; warnings.simplefilter('ignore', DeprecationWarning)      # os.fork() in a multi-threaded process: exactly what is being examined
    _res = [interp_threads(k, s, os.path.join(_work, 'thr%d.sqlite' % (i % 5))) for i, (k, s) in enumerate(_jobs)]
    sys.stdout.write(json.dumps(_res)); sys.stdout.flush()
