"""C07 — stored attribute values read back unchanged for every type (SQLite).

Tie, part 1 (translator validation): `Gen.roundMicroseconds` (regenerated from
`ConverterWithMicroseconds.round_microseconds_to_precision`) and its typed mirror are executed by the Lean driver on the
same (microseconds, precision) pairs as the real method.

Tie, part 2 (hand model, Model/Store.lean): for bool, int (every size), str, bytes, UUID, date, time(0..6), datetime(0..6)
and Decimal the model predicts (a) the value the writing session holds after the flush, (b) the storage class and
content SQLite holds (read through a second, raw sqlite3 connection) and (c) the value a fresh session reads; all three
are compared with real Pony.  float, timedelta, Json and the arrays have no model: they are observed by the oracle only.
timedelta (a float number of days in SQLite) gets a dense stream over the whole range in which that representation is exact
(|value| < 65536 days, both signs, non-zero microseconds, dense towards the top), both on the converter functions directly
(150 000 / 1 000 000 values, py2sql compared bit for bit with the formula as coded) and through the database.

Property oracle (every type, model or not): write in one db_session, flush, remember the value the program sees; read in a
fresh db_session; the two must be equal and of the same type.  The same value used as a query parameter
(`select(e for e in E if e.v == param)`) must find the row, and a query that returns the attribute
(`select(e.v for e in E ...)`) must return the value the fresh session reads.
"""
import datetime as dtm, json, math, os, sqlite3, uuid
from datetime import date, time, datetime, timedelta
from decimal import Decimal, InvalidOperation
from pony.orm import Database, Required, Optional, PrimaryKey, LongStr, Json, IntArray, StrArray, FloatArray, db_session, select, flush, commit, rollback
from pony.orm import core
from pony.orm.dbapiprovider import ConverterWithMicroseconds
import ponyutil

I63 = 2 ** 63

# ----------------------------------------------------------------------------------------------------------------
# part 1: round_microseconds_to_precision
# ----------------------------------------------------------------------------------------------------------------

def micro_tie(ctx):
    rng = ctx.rng
    f = ConverterWithMicroseconds.round_microseconds_to_precision
    uss = sorted({0, 1, 5, 9, 10, 11, 99, 100, 101, 999, 1000, 1001, 9999, 10000, 99999, 100000, 100001, 499999, 500000, 999990, 999999}
                 | {rng.randrange(10 ** 6) for _ in range(ctx.scale(60, 2000))})
    reqs, metas = [], []
    for us in uss:
        for p in (0, 1, 2, 3, 4, 5, 6, None, 7, -1, True):
            try: real = {'ok': f(None, us, p)}
            except Exception as e: real = {'error': type(e).__name__}
            reqs.append({'op': 'round', 'us': us, 'prec': p}); metas.append(('gen', us, p, real))
            if isinstance(p, int) and not isinstance(p, bool) and 0 <= p <= 6:
                reqs.append({'op': 'roundT', 'us': us, 'prec': p}); metas.append(('mirror', us, p, real))
                # what the property needs of the REAL function (oracle): the result is a valid microsecond field, a multiple of the
                # declared unit (so a column of that precision holds it exactly), within one unit of the input, and stable when re-validated
                r = f(None, us, p); r = us if r is None else r
                r2 = f(None, r, p); r2 = r if r2 is None else r2
                ctx.case(['round-law', us, p], kind='oracle:round-law')
                if not (0 <= r < 10 ** 6 and r % 10 ** (6 - p) == 0 and abs(us - r) < 10 ** (6 - p) and r2 == r):
                    ctx.violation('round_microseconds_to_precision does not produce a stable value of the declared precision', {'microseconds': us, 'precision': p},
                                  observed=[r, r2], expected='a multiple of 10^(6-p) in 0..999999 within one unit of the input, unchanged when rounded again', key='round-law:%d:%d' % (us, p))
    if not ctx.driver.ok:
        ctx.note('driver unavailable: translator tie skipped'); return
    outs = ctx.driver('C07', reqs)
    for (tag, us, p, real), out in zip(metas, outs):
        ctx.case([tag, us, p], kind='translator-tie:' + tag)
        m = {'error': out['error']} if 'error' in out else {'ok': out.get('ok')}
        r = {'error': real['error']} if 'error' in real else {'ok': real['ok']}
        if 'error' in m and 'error' in r: m = r = {'error': True}   # precision outside 0..6 / None: only "raises" is compared
        if m != r:
            ctx.divergence('Lean roundMicroseconds (%s) and the real method disagree' % tag, [us, p], model=out, impl=real)

# ----------------------------------------------------------------------------------------------------------------
# attribute configurations
# ----------------------------------------------------------------------------------------------------------------

class Cfg:
    def __init__(self, name, py_type, args=(), kw=None, model=None, precision=None, scale=None, param=True):
        self.name = name; self.py_type = py_type; self.args = args; self.kw = kw or {}
        self.model = model; self.precision = precision; self.scale = scale; self.param = param

def configs():
    cs = [Cfg('bool', bool, model='bool')]
    for size in (8, 16, 24, 32, 64):
        cs.append(Cfg('int%d' % size, int, kw={'size': size}, model='int'))
        if size != 64: cs.append(Cfg('uint%d' % size, int, kw={'size': size, 'unsigned': True}, model='int'))
    cs.append(Cfg('int', int, model='int'))
    cs.append(Cfg('intunb', int, kw={'unsigned': None}, model='int'))     # no size, unsigned=None: unbounded for validate; SQLite holds 64 bits
    cs.append(Cfg('float', float, param=False))
    for p, s in ((12, 2), (30, 2), (10, 5), (5, 1), (38, 10)):
        cs.append(Cfg('dec_%d_%d' % (p, s), Decimal, args=(p, s), model='decimal', scale=s))
    cs.append(Cfg('str', str, model='str'))
    cs.append(Cfg('str40', str, args=(40,), model='str'))
    cs.append(Cfg('str_nostrip', str, kw={'autostrip': False}, model='str'))
    cs.append(Cfg('longstr', LongStr, model='str', param=False))
    cs.append(Cfg('bytes', bytes, model='bytes'))
    cs.append(Cfg('uuid', uuid.UUID, model='uuid'))
    cs.append(Cfg('date', date, model='date'))
    for p in range(7):
        cs.append(Cfg('time%d' % p, time, args=(p,), model='time', precision=p))
        cs.append(Cfg('datetime%d' % p, datetime, args=(p,), model='datetime', precision=p))
        cs.append(Cfg('timedelta%d' % p, timedelta, args=(p,), precision=p, param=False))
    cs.append(Cfg('json', Json, param=False))
    cs.append(Cfg('intarray', IntArray, param=False))
    cs.append(Cfg('strarray', StrArray, param=False))
    cs.append(Cfg('floatarray', FloatArray, param=False))
    return cs

def build(path, cs):
    db = Database()
    ents = {}
    for c in cs:
        kw = dict(c.kw, nullable=True) if c.py_type in (str, LongStr) else c.kw      # Optional(str) is NOT NULL by default: '' could not be told from "no value"
        ns = {'v': Optional(c.py_type, *c.args, **kw)}
        ents[c.name] = core.EntityMeta('E_' + c.name, (db.Entity,), ns)
    db.bind('sqlite', path, create_db=True)
    db.generate_mapping(create_tables=True)
    return db, ents

# ----------------------------------------------------------------------------------------------------------------
# values
# ----------------------------------------------------------------------------------------------------------------

US = [0, 1, 9, 10, 99, 100, 999, 1000, 9999, 10000, 99999, 100000, 123456, 500000, 999000, 999990, 999999]
STRS = ['', 'a', ' a ', '\ta\n', 'abc', "it's", '"q"', '\\', '%', '_', '\xe9', '\xdf', '\u0130', '\u4e2d\u6587', '\U0001f600', 'a\x00b', '\x00', '\x7f', 'a\u0301', '\u202e', '\ufeff',
        '123', '-1', '1e5', '1.0', '0x10', ' 007', 'NULL', 'null', 'None', 'a' * 39, 'a' * 40, 'x\r\ny', '\u2003', '\x85', ' \u3000z ']

def rand_str(rng):
    alph = ['a', 'B', '0', ' ', '\t', "'", '"', '\\', '%', 'é', '中', '\U0001f600', '\x00', '\n', ' ', 'ß']
    return ''.join(rng.choice(alph) for _ in range(rng.choice([0, 1, 2, 3, 5, 9, 17, 30])))

def values_for(c, ctx):
    rng = ctx.rng; n = ctx.scale(1, 8)
    m = c.name
    if m == 'bool': return [True, False, 0, 1, 2, 'x', '']
    if c.py_type is int:
        size = c.kw.get('size', 32); uns = c.kw.get('unsigned', False)
        if c.name == 'intunb': return [0, -1, I63 - 1, -I63, I63, -I63 - 1, 2 ** 64, -2 ** 100, 10 ** 30] + [rng.randint(-2 ** 66, 2 ** 66) for _ in range(6 * n)]
        lo, hi = (0, 2 ** size - 1) if uns else (-2 ** (size - 1), 2 ** (size - 1) - 1)
        vs = {lo, lo + 1, hi - 1, hi, 0, 1, 2, 127, 128, 255, 256}
        if not uns: vs |= {-1, -2, -128, -129}
        vs = {v for v in vs if lo <= v <= hi}
        vs |= {rng.randint(lo, hi) for _ in range(6 * n)}
        return sorted(vs) + [True, str(hi), ' %d ' % lo]
    if c.py_type is float:
        return [0.0, -0.0, 1.0, -1.5, 0.1, 1e308, -1e308, 5e-324, 2.2250738585072014e-308, 1.7976931348623157e308, math.inf, -math.inf, math.nan,
                2 ** 53 + 1, 1 / 3, 123456789.123456789, 1e-7, 1e22, 1e23, 0.30000000000000004, 3, '2.5'] + [rng.uniform(-1e6, 1e6) for _ in range(6 * n)] + \
               [rng.random() * 10 ** rng.randint(-300, 300) for _ in range(6 * n)]
    if c.py_type is Decimal:
        p, s = c.args
        q = Decimal(10) ** -s
        top = Decimal(10) ** (min(p, 15) - s) - q
        vs = [Decimal(0), Decimal('-0'), q, -q, Decimal(1), Decimal(-1), top, -top, Decimal('0.5'), Decimal('1E+2'), 7, -3, '2.5', 0.25, Decimal('1.10'), Decimal('100')]
        for _ in range(8 * n):
            digits = rng.randint(1, min(p, 15))
            vs.append(Decimal(rng.randint(-10 ** digits + 1, 10 ** digits - 1)).scaleb(-s))
        # more fractional digits than the scale (quantised on write only) and more digits than a double holds
        vs += [Decimal('1.005'), Decimal('2.5').scaleb(-s), Decimal('-0.5').scaleb(-s), Decimal('1.5').scaleb(-s), Decimal(1) / Decimal(3), 0.1 + 0.2]
        if p > 17: vs += [Decimal('12345678901234567.89'), Decimal(10 ** 17 + 1), Decimal(-(10 ** 18) + 1).scaleb(-s) if p - s >= 18 - s else Decimal(5)]
        return [v for v in vs]
    if c.py_type in (str, LongStr):
        vs = STRS + [rand_str(rng) for _ in range(10 * n)]
        if c.name == 'longstr': vs += ['x' * 70000, '中' * 5000]
        if c.name == 'str40': vs = [v for v in vs if len(v.strip()) <= 40]
        return vs
    if c.py_type is bytes:
        return [b'', b'\x00', bytes(range(256)), b'abc', b"'", b'\xff' * 3, bytes(range(255, -1, -1)) * 4, 'text'] + [bytes(rng.randrange(256) for _ in range(rng.choice([1, 2, 7, 64, 1000]))) for _ in range(6 * n)]
    if c.py_type is uuid.UUID:
        return [uuid.UUID(int=0), uuid.UUID(int=2 ** 128 - 1), uuid.UUID(int=1), uuid.UUID(int=2 ** 127), uuid.UUID('12345678-1234-5678-1234-567812345678'),
                '12345678123456781234567812345678', b'\x00' * 15 + b'\x01', 5] + [uuid.UUID(int=rng.getrandbits(128)) for _ in range(8 * n)]
    if c.py_type is date:
        vs = [date(1, 1, 1), date(9, 9, 9), date(99, 12, 31), date(100, 1, 1), date(999, 12, 31), date(1000, 1, 1), date(1970, 1, 1), date(2000, 2, 29), date(2024, 2, 29),
              date(9999, 12, 31), datetime(2020, 5, 6, 7, 8, 9), '2021-03-04']
        return vs + [date.fromordinal(rng.randint(1, date.max.toordinal())) for _ in range(12 * n)]
    if c.py_type is time:
        vs = [time(0, 0, 0, u) for u in US] + [time(23, 59, 59, u) for u in US] + [time(12, 0), time(1, 2, 3), '10:20:30', '10:20']
        return vs + [time(rng.randrange(24), rng.randrange(60), rng.randrange(60), rng.choice([0, rng.randrange(10 ** 6), rng.choice(US)])) for _ in range(10 * n)]
    if c.py_type is datetime:
        vs = [datetime(1, 1, 1, 0, 0, 0, u) for u in (0, 1, 999999)] + [datetime(9999, 12, 31, 23, 59, 59, u) for u in US] + \
             [datetime(999, 12, 31, 23, 59, 59, 5), datetime(1000, 1, 1), datetime(1970, 1, 1), datetime(2000, 2, 29, 12, 0, 0, 500000), '2021-03-04 05:06:07', date(2020, 1, 2)]
        for _ in range(12 * n):
            d = date.fromordinal(rng.randint(1, date.max.toordinal()))
            vs.append(datetime(d.year, d.month, d.day, rng.randrange(24), rng.randrange(60), rng.randrange(60), rng.choice([0, rng.randrange(10 ** 6), rng.choice(US)])))
        return [v for v in vs if not isinstance(v, date) or isinstance(v, datetime)] + []
    if c.py_type is timedelta:
        vs = [timedelta(0), timedelta(microseconds=1), timedelta(microseconds=-1), timedelta(seconds=1), timedelta(days=1), timedelta(days=-1, microseconds=1),
              timedelta(hours=23, minutes=59, seconds=59, microseconds=999999), timedelta(days=36500, microseconds=999999), timedelta(seconds=0.3), '1:02:03']
        return vs + [timedelta(days=rng.randint(-3000, 3000), seconds=rng.randrange(86400), microseconds=rng.choice([0, rng.randrange(10 ** 6), rng.choice(US)])) for _ in range(10 * n)]
    if c.py_type is Json:
        return [{}, [], {'a': 1}, {'b': [1, 2.5, None, 'x', True, {'c': {}}]}, [[], [[]]], 'str', '', 'null', '1e5', 0, 1, -7, 1.5, True, False, 2 ** 53 + 1, 2 ** 63 - 1, -2 ** 63,
                {'k': 2 ** 70}, {'é': '中', '\U0001f600': '\x00'}, {'z': 1, 'a': 2}, {'"': "'"}, [1e308, 5e-324], {'': ''}, {'a': 'x' * 3000}, [0.1 + 0.2], 10 ** 15 + 1]
    if c.py_type is IntArray:
        return [[], [0], [1, 2, 3], [-1], [2 ** 63 - 1, -2 ** 63], [2 ** 64], list(range(200)), [True], (4, 5)] + [[rng.randint(-I63, I63 - 1) for _ in range(rng.choice([1, 3, 9]))] for _ in range(4 * n)]
    if c.py_type is StrArray:
        return [[], [''], ['a', 'b'], ['"', "'", '\\', ','], ['\x01\x1f\x7f', '\u2028\u2029', '\\u0041', '\b\f\n\r\t', '/'], ['中', '\U0001f600', '\x00'], ['[', ']'], ['a' * 1000], 'single'] + [[rand_str(rng) for _ in range(rng.choice([1, 2, 5]))] for _ in range(4 * n)]
    if c.py_type is FloatArray:
        return [[], [0.0], [1.5, -2.25], [1e308, 5e-324], [0.1, 0.2, 0.30000000000000004], [1, 2], [math.inf]] + [[rng.uniform(-1e9, 1e9) for _ in range(rng.choice([1, 3]))] for _ in range(3 * n)]
    raise AssertionError(c.name)

# ----------------------------------------------------------------------------------------------------------------
# canonical forms
# ----------------------------------------------------------------------------------------------------------------

def plain(v):
    """the value without Pony's tracking wrappers, NaN made comparable, type kept"""
    if isinstance(v, (core.TrackedDict if hasattr(core, 'TrackedDict') else dict, dict)): return {'dict': {k: plain(x) for k, x in v.items()}}
    if isinstance(v, (list, tuple)): return {'list': [plain(x) for x in v]}
    if isinstance(v, bool): return {'bool': v}
    if isinstance(v, int): return {'int': v}
    if isinstance(v, float): return {'float': 'nan' if v != v else repr(v + 0.0)}       # -0.0 == 0.0 for the property
    if isinstance(v, Decimal): return {'Decimal': 'nan' if v.is_nan() else str(v.normalize() if v == v.to_integral_value() and False else v)}
    if isinstance(v, str): return {'str': v}
    if isinstance(v, bytes): return {'bytes': list(v)}
    if isinstance(v, uuid.UUID): return {'uuid': v.int}
    if isinstance(v, datetime): return {'datetime': [v.year, v.month, v.day, v.hour, v.minute, v.second, v.microsecond]}
    if isinstance(v, date): return {'date': [v.year, v.month, v.day]}
    if isinstance(v, time): return {'time': [v.hour, v.minute, v.second, v.microsecond]}
    if isinstance(v, timedelta): return {'timedelta': [v.days, v.seconds, v.microseconds]}
    if v is None: return None
    return {'other': type(v).__name__}

def equal_for_property(seen, got):
    """`fresh-session value equals the value the program saw`: Python equality plus same type (Decimals numerically)"""
    if isinstance(seen, Decimal) and isinstance(got, Decimal): return seen == got
    return plain(seen) == plain(got)

def raw_json(x):
    if x is None: return None
    if isinstance(x, int): return {'i': x}
    if isinstance(x, str): return {'t': [ord(ch) for ch in x]}
    if isinstance(x, bytes): return {'b': list(x)}
    if isinstance(x, float): return {'f': repr(x)}
    return {'other': type(x).__name__}

def dec_json(x):
    sign, digits, exp = x.as_tuple()
    return {'neg': bool(sign), 'coeff': int(''.join(map(str, digits)) or '0'), 'exp': exp}

def model_value(c, v):
    """encoding of a validated value for the driver (None when the model has no such value)"""
    k = c.model
    if k == 'bool' and isinstance(v, bool): return v
    if k == 'int' and isinstance(v, int): return int(v)
    if k == 'str' and isinstance(v, str): return [ord(ch) for ch in v]
    if k == 'bytes' and isinstance(v, bytes): return list(v)
    if k == 'uuid' and isinstance(v, uuid.UUID): return v.int
    if k == 'date' and isinstance(v, date) and not isinstance(v, datetime): return [v.year, v.month, v.day]
    if k == 'time' and isinstance(v, time) and v.tzinfo is None: return [v.hour, v.minute, v.second, v.microsecond]
    if k == 'datetime' and isinstance(v, datetime) and v.tzinfo is None: return [v.year, v.month, v.day, v.hour, v.minute, v.second, v.microsecond]
    if k == 'decimal' and isinstance(v, Decimal) and v.is_finite(): return dec_json(v)
    return None

def as_typed(c, v):
    """the candidate as a value of the attribute's type BEFORE precision rounding (what the model's validate starts from)"""
    t = c.py_type
    try:
        if t is time and isinstance(v, time): return v
        if t is datetime and isinstance(v, datetime): return v
    except Exception: pass
    return None

def model_expect_value(c, mv):
    """Python-side decoding of the driver's `validated` / `loaded.val` for comparison through plain()"""
    k = c.model
    if k == 'bool': return {'bool': mv}
    if k == 'int': return {'int': mv}
    if k == 'str': return {'str': ''.join(map(chr, mv))}
    if k == 'bytes': return {'bytes': mv}
    if k == 'uuid': return {'uuid': mv}
    if k in ('date', 'time', 'datetime'): return {k: mv}
    raise AssertionError(k)

# ----------------------------------------------------------------------------------------------------------------
# one stored value: real observation
# ----------------------------------------------------------------------------------------------------------------

def store_and_reload(db, E, rawcon, table, v):
    """-> dict(seen=, got=, raw=(typeof, value), pk=) or dict(error=class name, stage=)"""
    try:
        with db_session:
            o = E(v=v)
            flush()
            seen = o.v
            if isinstance(seen, (dict, list)) and not type(seen) in (dict, list):
                seen = json.loads(json.dumps(seen, default=lambda x: x.get_untracked() if hasattr(x, 'get_untracked') else list(x)))
            pk = o.id
    except Exception as e:
        with db_session: rollback()
        return {'error': type(e).__name__, 'stage': 'write'}
    try:
        with db_session:
            got = E[pk].v
            if isinstance(got, (dict, list)) and not type(got) in (dict, list):
                got = json.loads(json.dumps(got, default=lambda x: x.get_untracked() if hasattr(x, 'get_untracked') else list(x)))
            via_query = select(e.v for e in E if e.id == pk).first() if True else None
            if isinstance(via_query, (dict, list)) and not type(via_query) in (dict, list):
                via_query = json.loads(json.dumps(via_query, default=lambda x: x.get_untracked() if hasattr(x, 'get_untracked') else list(x)))
    except Exception as e:
        return {'error': type(e).__name__, 'stage': 'read', 'seen': seen, 'pk': pk}
    raw = rawcon.execute('select typeof("v"), "v" from "%s" where "id" = ?' % table, (pk,)).fetchone()
    return {'seen': seen, 'got': got, 'raw': raw, 'pk': pk, 'via_query': via_query}

def find_by_param(E, p):
    with db_session:
        try: return sorted(select(e.id for e in E if e.v == p)[:])
        except Exception as e: return 'raised ' + type(e).__name__

# ----------------------------------------------------------------------------------------------------------------

KNOWN = {
    'decimal-unrounded-in-session': "a Decimal attribute keeps the unrounded value in the writing session (validate does not quantise) while SQLite stores the value quantised to the declared scale: Optional(Decimal, 12, 2) set to Decimal('1.005') reads 1.005 after the flush and 1.00 in the next session",
    'sqlite-decimal-numeric-affinity-loses-digits': "DECIMAL(p, s) columns have NUMERIC affinity in SQLite, so the decimal text is converted to INTEGER/REAL: Optional(Decimal, 30, 2) set to Decimal('12345678901234567.89') reads back 12345678901234568.00",
    'sqlite-json-toplevel-bigint-becomes-float': "a Json attribute whose value is a bare integer beyond 64 bits is stored in the NUMERIC-affinity JSON column as REAL: 2**70+1 reads back as the float 1.1805916207174113e+21",
    'sqlite-float-nan-becomes-null': "SQLite stores a float NaN as NULL: Optional(float) set to float('nan') reads back None",
    'sqlite-timedelta-float-days-loses-microseconds': "SQLite stores a timedelta as a float number of days (53-bit mantissa), so from about 100000 days (274 years) on microseconds are lost: Optional(timedelta) set to timedelta(days=150000, microseconds=1) reads back timedelta(days=150000)",
}

def classify(c, v, seen, got):
    """canonical key of a reload != seen finding (minimal witnesses share one key per mechanism)"""
    if c.py_type is Decimal and isinstance(seen, Decimal) and seen.is_finite():
        q = Decimal(10) ** -c.scale
        try: exact = seen.quantize(q) == seen
        except InvalidOperation: exact = True
        if not exact: return 'decimal-unrounded-in-session'
        if len(seen.as_tuple().digits) > 15: return 'sqlite-decimal-numeric-affinity-loses-digits'
    if c.py_type is Json and isinstance(seen, int) and not isinstance(seen, bool) and not -I63 <= seen < I63 and isinstance(got, float):
        return 'sqlite-json-toplevel-bigint-becomes-float'
    if c.py_type is float and isinstance(seen, float) and seen != seen and got is None:
        return 'sqlite-float-nan-becomes-null'
    if c.py_type is timedelta and isinstance(seen, timedelta) and isinstance(got, timedelta) and abs(seen) >= timedelta(days=65536) and abs(seen - got) < timedelta(seconds=1):
        return 'sqlite-timedelta-float-days-loses-microseconds'
    return None

def run_values(ctx, db, ents, rawcon, cs):
    reqs, metas = [], []
    for c in cs:
        E = ents[c.name]; table = E._table_
        table = table if isinstance(table, str) else table[-1]
        for v in values_for(c, ctx):
            r = store_and_reload(db, E, rawcon, table, v)
            inp = {'attribute': 'Optional(%s%s%s)' % (c.py_type.__name__ if isinstance(c.py_type, type) else repr(c.py_type), ''.join(', %r' % a for a in c.args), ''.join(', %s=%r' % kv for kv in sorted(c.kw.items()))),
                   'value': repr(v)[:200]}
            ctx.case([c.name, repr(v)[:80]], kind='oracle:roundtrip:' + c.name.rstrip('0123456789_'))
            if 'error' in r:
                ctx.count('write-or-read-error:%s:%s:%s' % (c.name.rstrip('0123456789_'), r['stage'], r['error']))
                if c.model == 'int' and r['stage'] == 'write' and isinstance(v, int) and not isinstance(v, bool):
                    reqs.append({'op': 'store', 'type': 'int', 'value': v}); metas.append((c, inp, r))
                if r['stage'] == 'read':
                    ctx.violation('a value that was accepted and flushed cannot be read in a fresh session (%s)' % r['error'], inp, observed=r['error'], expected=repr(r['seen'])[:200],
                                  key='unreadable:%s:%s' % (c.name, repr(v)[:60]))
                continue
            seen, got = r['seen'], r['got']
            if c.py_type is int and isinstance(seen, bool):
                # IntConverter.validate keeps a bool (a subclass of int) as it is; True == 1 is what the property compares
                ctx.count('int-attribute-holds-bool'); seen = r['seen'] = int(seen)
            ctx.count('storage-class:%s:%s' % (c.name.rstrip('0123456789_'), r['raw'][0]))
            # ---- the property
            if not equal_for_property(seen, got):
                key = classify(c, v, seen, got) or 'reload-differs:%s:%s' % (c.name, repr(v)[:60])
                ctx.violation(KNOWN.get(key, 'the value a fresh session reads differs from the value the program saw after the flush'),
                              dict(inp, raw_column=repr(r['raw'])[:200]), observed=repr(got)[:200], expected=repr(seen)[:200], key=key)
            if not equal_for_property(got, r['via_query']):
                ctx.violation('a query returning the attribute converts the column differently from loading the object', inp,
                              observed=repr(r['via_query'])[:200], expected=repr(got)[:200], key='query-result-conversion:%s:%s' % (c.name, repr(v)[:60]))
            if c.param and seen is not None and equal_for_property(seen, got):
                found = find_by_param(E, seen)
                ctx.case([c.name, repr(v)[:80], 'param'], kind='oracle:param:' + c.name.rstrip('0123456789_'))
                if not (isinstance(found, list) and r['pk'] in found):
                    ctx.violation('the stored value used as a query parameter does not find its own row', inp, observed=found, expected='a result containing id %d' % r['pk'],
                                  key='param-conversion:%s:%s' % (c.name, repr(v)[:60]))
                elif len(found) > 1:
                    # every other row found must hold an equal value
                    with db_session:
                        others = [E[i].v for i in found]
                    if not all(equal_for_property(seen, o) or (isinstance(seen, Decimal) and isinstance(o, Decimal) and seen == o) for o in others):
                        ctx.violation('a query parameter matches rows holding a different value', inp, observed=[repr(o)[:60] for o in others], expected=repr(seen)[:100],
                                      key='param-overmatch:%s:%s' % (c.name, repr(v)[:60]))
            # ---- column affinity (Model/Store.lean affinityOf / looksNumeric): the TEXT Pony binds stays TEXT or is converted by SQLite
            try:
                conv = E.v.converters[0]
                bound = conv.py2sql(conv.val2dbval(seen)) if seen is not None else None
            except Exception:
                bound = None
            if isinstance(bound, str) and all(ord(ch) < 0xd800 or ord(ch) > 0xdfff for ch in bound):
                reqs.append({'op': 'affinity', 'decl': conv.get_sql_type(), 's': [ord(ch) for ch in bound]})
                metas.append(('affinity', dict(inp, bound=bound[:80], column=conv.get_sql_type()), r))
            # ---- int / str arrays: the model's dumps text against the raw column, its loads against the fresh session's value
            if c.name in ('intarray', 'strarray') and isinstance(seen, list):
                if c.name == 'intarray' and all(isinstance(x, int) and not isinstance(x, bool) for x in seen):
                    reqs.append({'op': 'intarray', 'items': list(seen)}); metas.append(('array', inp, r))
                elif c.name == 'strarray' and all(isinstance(x, str) and all(not 0xd800 <= ord(ch) <= 0xdfff for ch in x) for x in seen):
                    reqs.append({'op': 'strarray', 'items': [[ord(ch) for ch in x] for x in seen]}); metas.append(('array', inp, r))
                else: ctx.count('array-model-skip')
            # ---- the model
            if c.model is None: continue
            mv = model_value(c, seen)
            if c.model in ('time', 'datetime'):
                tv = as_typed(c, v)            # the model validates (rounds) itself when the candidate already has the attribute's type
                mv_in = model_value(c, tv) if tv is not None else mv
            else:
                mv_in = mv
            if mv_in is None:
                ctx.count('model-skip:%s' % c.name.rstrip('0123456789_')); continue
            req = {'op': 'store', 'type': c.model, 'value': mv_in}
            if c.precision is not None: req['precision'] = c.precision
            if c.scale is not None: req['scale'] = c.scale
            reqs.append(req); metas.append((c, inp, r))
    return reqs, metas

def compare_model(ctx, reqs, metas):
    if not ctx.driver.ok:
        ctx.note('driver unavailable: model correspondence skipped'); return
    outs = ctx.driver('C07', reqs)
    for req, (c, inp, r), out in zip(reqs, metas, outs):
        if c == 'array':
            ctx.case(['array', inp['value']], kind='model-tie:array')
            if 'driver_error' in out: ctx.divergence('driver error', inp, model=out); continue
            got = r['got']
            mtext = ''.join(map(chr, out['text']))
            mload = out['loaded']
            if mload is not None and mload and isinstance(mload[0], list): mload = [''.join(map(chr, x)) for x in mload]
            if mtext != r['raw'][1] or mload != (list(got) if got is not None else None):
                ctx.divergence('array codec model (dumps text / loads) differs from real Pony', inp, model={'text': mtext[:200], 'loaded': repr(mload)[:200]}, impl={'raw': repr(r['raw'])[:200], 'got': repr(got)[:200]})
            continue
        if c == 'affinity':
            ctx.case(['affinity', inp['column'], inp['bound']], kind='model-tie:affinity')
            if 'driver_error' in out: ctx.divergence('driver error', inp, model=out); continue
            real_text = r['raw'][0] == 'text'
            ctx.count('affinity:%s:%s' % (out['aff'], 'stays-text' if real_text else 'converted-to-' + r['raw'][0]))
            if out['stays_text'] != real_text:
                ctx.divergence('storage class of a bound TEXT differs from the affinity model', inp, model=out, impl=r['raw'][0])
            continue
        ctx.case([c.name, inp['value'], 'model'], kind='model-tie:' + c.model)
        if 'driver_error' in out:
            ctx.divergence('driver error', inp, model=out); continue
        if 'error' in r:
            # an int the attribute accepts but a 64-bit INTEGER cannot hold: the driver refuses it at the flush (model: intToSql = none)
            if not (out['sql'] == {'error': 'OverflowError'} and r['error'] == 'OverflowError'):
                ctx.divergence('write failed in real Pony but the model stores the value (or the other way round)', inp, model=out['sql'], impl=r['error'])
            continue
        seen, got, raw = r['seen'], r['got'], r['raw']
        if c.model == 'decimal':
            q = Decimal(10) ** -c.scale
            def dec_of(j): return Decimal((1 if j['neg'] else 0, tuple(map(int, str(j['coeff']))), j['exp']))
            try: pyq = seen.quantize(q)
            except InvalidOperation: ctx.count('decimal-quantize-overflow'); continue
            ok = dec_of(out['validated']) == seen and dec_of(out['stored']).as_tuple() == pyq.as_tuple()
            if len(pyq.as_tuple().digits) <= 15:
                # within a double's 15 exact digits the NUMERIC-affinity detour is lossless: the fresh session reads the model's value
                ml = dec_of(out['loaded'])
                if not ml: ml = abs(ml)          # the INTEGER/REAL the NUMERIC-affinity column holds has no negative zero
                ok = ok and isinstance(got, Decimal) and ml.as_tuple() == got.as_tuple() and Decimal(str(raw[1])).quantize(q) == pyq
                ctx.count('decimal-model:loaded-compared')
            if not ok:
                ctx.divergence('Decimal model (validated / quantised / reloaded) differs from real Pony', inp, model=out, impl={'seen': str(seen), 'got': str(got), 'raw': repr(raw)})
            continue
        exp_seen = model_expect_value(c, out['validated'])
        if exp_seen != plain(seen):
            ctx.divergence('value after flush differs from the model', inp, model=out['validated'], impl=plain(seen))
        if out['sql'] != raw_json(raw[1]):
            ctx.divergence('what SQLite holds differs from the model', inp, model=out['sql'], impl=[raw[0], raw_json(raw[1])])
        ld = out['loaded']
        if ld is None or 'val' not in ld:
            impl = plain(got)
            mraw = None if ld is None else ld.get('raw')
            if raw_json(got if not isinstance(got, (date, time, uuid.UUID)) else None) != mraw:
                ctx.divergence('model reads a raw database value where Pony reads something else', inp, model=ld, impl=impl)
        elif model_expect_value(c, ld['val']) != plain(got):
            ctx.divergence('value read in a fresh session differs from the model', inp, model=ld, impl=plain(got))

def foreign_texts(ctx, db, ents, rawcon_path):
    """texts Pony did not write (older Pony versions, other writers): the model's sql2py against the real one"""
    if not ctx.driver.ok: return
    texts = {
        'date': ['999-12-31', '1-01-01', '2020-01-02', '0001-01-01', '2020-01-02 03:04:05', '20200102', '', 'x', '2020-13-01'],
        'time': ['01:02:03', '01:02:03.5', '01:02:03.123456', '1:02:03', '01:02', '01:02:03.1234567', '', '24:00:00', '01:02:03.'],
        'datetime': ['2020-01-02 03:04:05.000000', '2020-01-02 03:04:05', '2020-01-02 03:04:05.5', '0001-01-01 00:00:00.000001', '999-12-31 00:00:00.000000', '2020-01-02T03:04:05.000000', ''],
    }
    cname = {'date': 'date', 'time': 'time6', 'datetime': 'datetime6'}
    reqs, metas = [], []
    con = sqlite3.connect(rawcon_path)
    for k, ts in texts.items():
        E = ents[cname[k]]; table = E._table_
        for t in ts:
            cur = con.execute('insert into "%s" ("v") values (?)' % table, (t,)); con.commit()
            pk = cur.lastrowid
            with db_session:
                try: got = E[pk].v
                except Exception as e: got = 'raised ' + type(e).__name__
            reqs.append({'op': 'load', 'type': k, 'sql': {'t': [ord(ch) for ch in t]}}); metas.append((k, t, got))
    con.close()
    outs = ctx.driver('C07', reqs)
    for (k, t, got), out in zip(metas, outs):
        ctx.case(['foreign', k, t], kind='model-tie:foreign-text')
        if 'val' in out: m = {k: out['val']}
        else: m = {'str': ''.join(map(chr, out['raw']['t']))} if out.get('raw') and 't' in out['raw'] else out
        if m != plain(got):
            # strptime accepts more spellings than the fixed-width model (single-digit fields, month-length check): only a text the MODEL
            # parses while Pony does not (or to another value) matters for the theorems' direction
            if 'val' in out: ctx.divergence('sql2py of a database text differs from the model', [k, t], model=out, impl=plain(got))
            else: ctx.count('foreign-text-real-parses-more')

def witnesses(ctx, db, ents, rawcon):
    """fixed minimal witnesses of the known findings (and regression witnesses of the fixed defects), replayed on every run"""
    W = [('dec_12_2', Decimal('1.005')), ('dec_30_2', Decimal('12345678901234567.89')), ('json', 2 ** 70 + 1), ('float', math.nan),
         ('timedelta6', timedelta(days=150000, microseconds=1)), ('date', date(999, 12, 31)), ('date', date(1, 1, 1)), ('time6', time(0, 0, 0, 1)), ('time0', time(1, 2, 3, 999999))]
    cs = {c.name: c for c in configs()}
    for name, v in W:
        c = cs[name]; E = ents[name]; table = E._table_
        r = store_and_reload(db, E, rawcon, table, v)
        ctx.case(['witness', name, repr(v)], kind='witness')
        inp = {'attribute': name, 'value': repr(v)}
        if 'error' in r:
            ctx.violation('witness value cannot be written/read: ' + r['error'], inp, key='witness-error:%s:%r' % (name, v)); continue
        if not equal_for_property(r['seen'], r['got']):
            key = classify(c, v, r['seen'], r['got']) or {'date': 'sqlite-date-year-lt-1000-reads-back-as-str', 'time6': 'sqlite-time-reads-back-as-str', 'time0': 'sqlite-time-reads-back-as-str'}.get(name, 'reload-differs:%s:%r' % (name, v))
            ctx.violation(KNOWN.get(key, 'the value a fresh session reads differs from the value the program saw after the flush'), dict(inp, raw_column=repr(r['raw'])),
                          observed=repr(r['got']), expected=repr(r['seen']), key=key)
        if name == 'date':
            # constants and parameters use the same text as the stored value
            with db_session:
                try: a = list(select(e.id for e in E if e.v == date(999, 12, 31))) if v.year == 999 else list(select(e.id for e in E if e.v == date(1, 1, 1)))
                except Exception as e: a = 'raised ' + type(e).__name__
            if not (isinstance(a, list) and r['pk'] in a):
                ctx.violation('a date constant in a query does not match the stored value of the same date', inp, observed=a, expected='row %d' % r['pk'], key='date-constant-conversion:%r' % v)

# ----------------------------------------------------------------------------------------------------------------
# timedelta: dense stream over the whole range where float days are exact to the microsecond (|value| < 65536 days)
# ----------------------------------------------------------------------------------------------------------------

TD_EXACT_DAYS = 65536      # ulp of a double in [32768, 65536) is 2**-37 day = 0.63 us: ONE rounding of the final sum stays below half a microsecond

def td_formula_as_coded(v):
    """engine-side mirror of SQLiteTimedeltaConverter.py2sql as it is written: days + (seconds + microseconds / 1e6) / 86400.0
    (three roundings, the last one at magnitude |days|).  Compared bit for bit with the real method on the whole stream."""
    return v.days + (v.seconds + v.microseconds / 1000000.0) / 86400.0

def td_values(rng, n):
    """n timedeltas with |value| < 65536 days, both signs, mostly non-zero microseconds, dense near the top of the range"""
    out = []
    for d in (65535, -65536, 65534, -65535, 49152, -49153, 32768, -32769, 32767, -32768, 16384, -16385, 1, -1, 0):
        for sec in (0, 1, 43199, 43200, 86399):
            for us in (1, 2, 499999, 500000, 500001, 999998, 999999):
                out.append(timedelta(days=d, seconds=sec, microseconds=us))
    while len(out) < n:
        r = rng.random()
        if r < 0.35: d = rng.choice((1, -1)) * rng.randint(60000, 65535)
        elif r < 0.70: d = rng.choice((1, -1)) * rng.randint(32768, 65535)
        elif r < 0.85: d = rng.choice((1, -1)) * rng.randint(8192, 32767)
        else: d = rng.randint(-65536, 65535)
        if d < 0: d = max(d - (1 if rng.random() < 0.5 else 0), -65536)
        us = rng.randrange(1, 10 ** 6) if rng.random() < 0.9 else rng.choice(US)
        out.append(timedelta(days=d, seconds=rng.randrange(86400), microseconds=us))
    return [v for v in out if abs(v) < timedelta(days=TD_EXACT_DAYS)]

def td_batch(ctx, E, values, what):
    """real property on a batch: write + flush in one session, read in a fresh one and through a query; -> list of (v, seen, got, via_query)"""
    with db_session:
        objs = [E(v=v) for v in values]
        flush()
        seen = [o.v for o in objs]; pks = [o.id for o in objs]
    with db_session:
        got = [E[pk].v for pk in pks]
    with db_session:
        rows = dict(select((e.id, e.v) for e in E if e.id >= pks[0] and e.id <= pks[-1])[:]) if pks else {}
    return [(v, s_, g, rows.get(pk)) for v, s_, g, pk in zip(values, seen, got, pks)]

def timedelta_dense(ctx, db, ents):
    rng = ctx.rng
    E6 = ents['timedelta6']
    conv = E6.v.converters[0]
    # (a) the conversion functions themselves on a large stream: py2sql -> float -> sql2py (SQLite holds a double unchanged)
    direct = td_values(rng, ctx.scale(150000, 1000000))
    suspects = []; formula_div = 0
    for v in direct:
        f = conv.py2sql(v)
        if not (f == td_formula_as_coded(v)):
            formula_div += 1
            if formula_div <= 3:
                ctx.divergence('SQLiteTimedeltaConverter.py2sql no longer computes days + (seconds + microseconds/1e6)/86400.0 bit for bit '
                               '(the formula whose exactness below 65536 days the check relies on)', repr(v), model=td_formula_as_coded(v).hex(), impl=float(f).hex() if isinstance(f, float) else repr(f))
        if conv.sql2py(f) != v: suspects.append(v)
    ctx.count('timedelta-dense:direct-values', len(direct))
    ctx.count('timedelta-dense:direct-bitwise-formula-mismatches', formula_div)
    ctx.count('timedelta-dense:direct-roundtrip-failures', len(suspects))
    ctx.count('timedelta-dense:direct-values-with-days>=32768', sum(1 for v in direct if abs(v) >= timedelta(days=32768)))
    for i in range(0, len(direct), 50):          # register a 2 % sample individually, the rest through the counters above
        ctx.case(['timedelta-direct', repr(direct[i])], kind='oracle:timedelta-dense:direct')
    # (b) the property on real Pony: every suspect (smallest first) plus a fresh dense batch, through the database
    suspects.sort(key=lambda v: (abs(v), v))
    batch = suspects[:200] + td_values(rng, ctx.scale(4000, 40000))
    reported = 0
    for v, seen, got, viaq in td_batch(ctx, E6, batch, 'timedelta6'):
        ctx.case(['timedelta-db', repr(v)], kind='oracle:timedelta-dense:db')
        inp = {'attribute': 'Optional(timedelta, 6)', 'value': repr(v)}
        if seen != got and reported < 5:
            reported += 1
            ctx.violation('a timedelta below 65536 days (where a float number of days is exact to the microsecond) is read back changed by a fresh session',
                          inp, observed=repr(got), expected=repr(seen), key='timedelta-reload-differs:%r' % (v,))
        elif viaq != got and reported < 5:
            reported += 1
            ctx.violation('a query returning the timedelta converts the column differently from loading the object', inp, observed=repr(viaq), expected=repr(got),
                          key='timedelta-query-result:%r' % (v,))
    # (c) the lower precisions: validate rounds the microseconds first, the stored float must give back the rounded value
    for p in range(6):
        E = ents['timedelta%d' % p]
        for v, seen, got, viaq in td_batch(ctx, E, td_values(rng, ctx.scale(300, 3000)), 'timedelta%d' % p):
            ctx.case(['timedelta-db', p, repr(v)], kind='oracle:timedelta-dense:db-precision')
            exp_us = v.microseconds if p == 6 else (v.microseconds // 10 ** (6 - p)) * 10 ** (6 - p) if p else 0
            if seen != got or viaq != got or seen != timedelta(v.days, v.seconds, exp_us):
                ctx.violation('a timedelta of precision %d below 65536 days is not read back as the value seen after the flush' % p,
                              {'attribute': 'Optional(timedelta, %d)' % p, 'value': repr(v)}, observed=[repr(got), repr(viaq)], expected=repr(seen),
                              key='timedelta-reload-differs:p%d:%r' % (p, v))
                break

# ----------------------------------------------------------------------------------------------------------------
# timedelta as text: pony.converting.timedelta2str / str2timedelta (INTERVAL literals of the other dialects, str input of validate)
# ----------------------------------------------------------------------------------------------------------------

def timedelta_text(ctx):
    from pony.converting import timedelta2str, str2timedelta
    rng = ctx.rng
    vals = [timedelta(0), timedelta(microseconds=1), timedelta(microseconds=-1), timedelta(seconds=-1), timedelta(days=-1), timedelta(days=1),
            timedelta(days=-1, seconds=86399, microseconds=999999), timedelta(hours=25, minutes=2, seconds=3), timedelta(days=999999999, seconds=86399, microseconds=999999),
            timedelta(days=-999999999), timedelta(days=-999999999, microseconds=1), timedelta(seconds=59), timedelta(seconds=60), timedelta(seconds=3599), timedelta(seconds=3600),
            timedelta(microseconds=100000), timedelta(microseconds=-100000), timedelta(days=-5, seconds=1), timedelta(days=-5, seconds=1, microseconds=500000)]
    for _ in range(ctx.scale(3000, 60000)):
        d = rng.choice([0, 0, 1, -1, rng.randint(-40, 40), rng.randint(-10 ** 5, 10 ** 5), rng.randint(-999999999, 999999998)])
        vals.append(timedelta(days=d, seconds=rng.choice([0, 59, 60, 3599, 3600, 86399, rng.randrange(86400)]), microseconds=rng.choice([0, 0, rng.randrange(10 ** 6), rng.choice(US)])))
    reqs = []
    for v in vals:
        ctx.case(['timedelta-text', repr(v)], kind='oracle:timedelta-text')
        try:
            txt = timedelta2str(v); back = str2timedelta(txt)
        except Exception as e:
            txt, back = None, 'raised ' + type(e).__name__
        if back != v:
            ctx.violation('str2timedelta(timedelta2str(td)) is not td: a timedelta constant or text value is converted to a different duration',
                          {'value': repr(v), 'text': txt}, observed=repr(back), expected=repr(v), key='timedelta-text-roundtrip:%r' % (v,))
        reqs.append({'op': 'td2str', 'days': v.days, 'seconds': v.seconds, 'us': v.microseconds})
    foreign = ['1:02:03', '0:0:0', '-0:0:1', '10:00:00.5', '1:2:3.123456', '1:2:3.1234567', '100:00:00', '-1:-2:3', '1:2', 'x', '', '1:2:3.', '+1:2:3', ' 1:2:3', '1:2:3.x']
    if not ctx.driver.ok: return
    outs = ctx.driver('C07', reqs)
    for v, out in zip(vals, outs):
        ctx.case(['timedelta-text-model', repr(v)], kind='model-tie:timedelta-text')
        micros = (v.days * 86400 + v.seconds) * 10 ** 6 + v.microseconds
        real_txt = timedelta2str(v)
        if ''.join(map(chr, out['text'])) != real_txt or out['back'] != micros or out['micros'] != micros:
            ctx.divergence('timedelta2str / str2timedelta model differs from pony.converting', repr(v), model={'text': ''.join(map(chr, out['text'])), 'back': out['back']}, impl={'text': real_txt, 'micros': micros})
    outs = ctx.driver('C07', [{'op': 'str2td', 's': [ord(ch) for ch in t]} for t in foreign])
    for t, out in zip(foreign, outs):
        ctx.case(['timedelta-text-foreign', t], kind='model-tie:timedelta-text-foreign')
        try:
            r = str2timedelta(t); real = (r.days * 86400 + r.seconds) * 10 ** 6 + r.microseconds
        except Exception: real = None
        if out['ok'] is not None and out['ok'] != real:
            ctx.divergence('the model parses a timedelta text to another duration than str2timedelta', t, model=out, impl=real)
        elif out['ok'] is None and real is not None: ctx.count('timedelta-text-real-parses-more')

# ----------------------------------------------------------------------------------------------------------------
# inline constants: a value written as a literal in the query must select the rows the same value selects as a parameter
# ----------------------------------------------------------------------------------------------------------------

import operator
OPS = [('==', operator.eq), ('!=', operator.ne), ('<', operator.lt), ('<=', operator.le), ('>', operator.gt), ('>=', operator.ge)]

def const_source(v):
    """Python source of the value as it would be written inside a query, or None when the type has no literal form"""
    if isinstance(v, bool): return repr(v)
    if isinstance(v, int): return repr(v)
    if isinstance(v, float): return repr(v) if v == v and abs(v) != math.inf else None
    if isinstance(v, str): return repr(v)
    if isinstance(v, bytes): return repr(v)
    if isinstance(v, Decimal): return "Decimal('%s')" % v if v.is_finite() else None
    if isinstance(v, datetime): return 'datetime(%d, %d, %d, %d, %d, %d, %d)' % (v.year, v.month, v.day, v.hour, v.minute, v.second, v.microsecond)
    if isinstance(v, date): return 'date(%d, %d, %d)' % (v.year, v.month, v.day)
    if isinstance(v, time): return 'time(%d, %d, %d, %d)' % (v.hour, v.minute, v.second, v.microsecond)
    if isinstance(v, timedelta): return 'timedelta(%d, %d, %d)' % (v.days, v.seconds, v.microseconds)
    if isinstance(v, uuid.UUID): return "UUID('%s')" % v
    return None

def boundary_score(v):
    """smaller = more of a boundary value (microsecond 0, whole seconds, midnight, trailing zeros, zero, empty)"""
    if isinstance(v, datetime): return (v.microsecond != 0, v.second != 0, (v.hour, v.minute) != (0, 0))
    if isinstance(v, time): return (v.microsecond != 0, v.second != 0, (v.hour, v.minute) != (0, 0))
    if isinstance(v, timedelta): return (v.microseconds != 0, v.seconds != 0, v.days != 0)
    if isinstance(v, Decimal): return (v != v.to_integral_value(), v != 0)
    if isinstance(v, (int, float)): return (v != 0,)
    if isinstance(v, (str, bytes)): return (len(v) != 0,)
    return (False,)

def run_ids(fn):
    try: return sorted(fn())
    except Exception as e: return 'raised ' + type(e).__name__

def constants(ctx, db, ents, cs):
    rng = ctx.rng
    G = dict(datetime=datetime, date=date, time=time, timedelta=timedelta, Decimal=Decimal, UUID=uuid.UUID)
    from pony.orm.dbproviders.sqlite import SQLiteValue
    reqs, metas = [], []
    for c in cs:
        if c.py_type in (Json, IntArray, StrArray, FloatArray, LongStr): continue
        E = ents[c.name]
        with db_session:
            try: rows = [(i, v) for i, v in select((e.id, e.v) for e in E)[:] if v is not None and isinstance(v, c.py_type if c.py_type is not float else (float, int))]
            except Exception as e:
                ctx.divergence('reading all rows of %s raised %s' % (c.name, type(e).__name__), c.name); continue
        distinct = {}
        for i, v in rows:
            src = const_source(v)
            if src is not None and (type(v).__name__, src) not in distinct: distinct[(type(v).__name__, src)] = v
        vals = sorted(distinct.values(), key=lambda v: (boundary_score(v), repr(v)))
        n = ctx.scale(8, 40)
        picked = vals[:n] + (rng.sample(vals[n:], min(len(vals) - n, ctx.scale(6, 40))) if len(vals) > n else [])
        ordered = c.py_type in (int, float, Decimal, date, time, datetime, timedelta, bool)
        for v in picked:
            src = const_source(v)
            nul = isinstance(v, str) and chr(0) in v
            G['E'] = E
            for opname, opf in OPS:
                if not ordered and opname not in ('==', '!='): continue
                if isinstance(v, float) or c.py_type is float:
                    if opname in ('==', '!='): continue          # float equality is translated with a tolerance: not a conversion question
                p = v
                as_param = run_ids(lambda: select(e.id for e in E if opf(e.v, p)) if False else
                                   {'==': lambda: select(e.id for e in E if e.v == p), '!=': lambda: select(e.id for e in E if e.v != p),
                                    '<': lambda: select(e.id for e in E if e.v < p), '<=': lambda: select(e.id for e in E if e.v <= p),
                                    '>': lambda: select(e.id for e in E if e.v > p), '>=': lambda: select(e.id for e in E if e.v >= p)}[opname]()[:])
                text = 'e.id for e in E if e.v %s %s' % (opname, src)
                sql = None
                def const_query():
                    q = select(text, G)
                    return q
                try:
                    with db_session:
                        q = select(text, G)
                        sql = ' '.join(q.get_sql().split())
                        as_const = sorted(q[:])
                except Exception as e:
                    as_const = 'raised ' + type(e).__name__
                with db_session:
                    as_param = run_ids({'==': lambda: select(e.id for e in E if e.v == p)[:], '!=': lambda: select(e.id for e in E if e.v != p)[:],
                                        '<': lambda: select(e.id for e in E if e.v < p)[:], '<=': lambda: select(e.id for e in E if e.v <= p)[:],
                                        '>': lambda: select(e.id for e in E if e.v > p)[:], '>=': lambda: select(e.id for e in E if e.v >= p)[:]}[opname])
                inline = sql is not None and '?' not in sql.split('WHERE', 1)[-1]
                ctx.case(['const', c.name, src, opname], kind='oracle:constant:' + c.name.rstrip('0123456789_'))
                ctx.count('constants:%s:%s' % (c.name.rstrip('0123456789_'), 'inline' if inline else 'became-a-parameter' if sql else 'no-sql'))
                if nul and as_const == 'raised ProgrammingError':
                    # sqlite3 refuses any statement text containing a NUL character, so such a str has no inline form on SQLite today
                    # (proposal: fixes/C07-sqlite-str-constant-with-nul.diff); once it has one it is compared like every other value
                    ctx.count('constants:str-with-NUL-has-no-inline-form'); continue
                if as_const != as_param:
                    ctx.violation('a value written as a constant in the query selects other rows than the same value passed as a parameter',
                                  {'attribute': c.name, 'query': text, 'sql': sql, 'value': repr(v)}, observed={'constant': as_const if isinstance(as_const, str) else as_const[:20]},
                                  expected={'parameter': as_param if isinstance(as_param, str) else as_param[:20]}, key='constant-vs-parameter:%s:%s:%s' % (c.name, opname, src))
            # source tie of the rendering itself: SQLiteValue.__str__ against the model's constant text
            if c.model in ('date', 'time', 'datetime') and ctx.driver.ok:
                try: real = str(SQLiteValue('qmark', v))
                except Exception as e: real = 'raised ' + type(e).__name__
                reqs.append({'op': 'const', 'type': c.model, 'value': model_value(c, v)}); metas.append((c.name, v, real))
    if reqs:
        for (name, v, real), out in zip(metas, ctx.driver('C07', reqs)):
            ctx.case(['const-text', name, repr(v)], kind='model-tie:constant-text')
            m = "'" + ''.join(map(chr, out.get('text', []))) + "'" if 'text' in out else out
            if m != real:
                ctx.divergence('SQLiteValue.__str__ differs from the model constant text', [name, repr(v)], model=m, impl=real)

def run(ctx):
    micro_tie(ctx)
    timedelta_text(ctx)
    wd = ponyutil.workdir('c07')
    try:
        path = os.path.join(wd, 'c07.sqlite')
        cs = configs()
        db, ents = build(path, cs)
        rawcon = sqlite3.connect(path)
        witnesses(ctx, db, ents, rawcon)
        reqs, metas = run_values(ctx, db, ents, rawcon, cs)
        compare_model(ctx, reqs, metas)
        timedelta_dense(ctx, db, ents)
        constants(ctx, db, ents, cs)
        rawcon.close()
        foreign_texts(ctx, db, ents, path)
        db.disconnect()
    finally:
        ponyutil.rmtree(wd)
    ctx.note('float, timedelta (stored as float days), Json and int/str/float arrays have no Lean model: oracle only')

def replay(ctx, data):
    run(ctx)
