"""C30 — raw SQL parameter substitution is faithful.

Token lists (`text` without `$`, `$$`, `$expr[;]`) are rendered to SQL strings and given to
  * the real `pony.orm.core.adapt_sql(sql, style)` for all five paramstyles (arguments = `eval(code)` in a fixed scope),
  * `Database.select/get/exists/execute`, `Entity.select_by_sql/get_by_sql` and `raw_sql()` on SQLite, called from a
    function whose LOCAL variables the `$`-expressions refer to (caller-scope evaluation), under a recording DB-API cursor,
  * `parse_raw_sql`,
and to the Lean model (`Model/RawSql.lean`) through the driver.

Tie: adapted text + argument source of the model == real adapted text + evaluated arguments; whole call histories on one
cache (`run`) == the real sequence of answers; the model's `sql % args` expansion == Python's `%` operator.
Property oracle (independent of the model, on the real code, every run):
  * real result == the declarative reading of the token list (`expected()`),
  * for format / pyformat `adapted % markers` gives back the statement as written (`$$ -> $`, k-th expression -> k-th marker),
  * any history of adapt_sql calls (incl. `%` / `%%` sibling statements) returns what a cleared cache returns,
  * the values SQLite returns for `select '<literal>', $expr, ...` are the literals as written and the Python values of
    the expressions; the recording cursor received exactly the expected text and arguments.
"""
import glob, json, os, sqlite3
from pony.orm import Database, Required, Optional, db_session, select, raw_sql
from pony.orm import core
from pony.orm.core import adapt_sql
from pony.orm.ormtypes import parse_raw_sql
from pony.orm import ormtypes

ROOT = os.path.dirname(os.path.dirname(os.path.dirname(os.path.abspath(__file__))))
STYLES = ['qmark', 'format', 'numeric', 'named', 'pyformat']

# ------------------------------------------------------------------------------------------ the scope of the expressions

class _W(object):
    v = 'deep'

class _Y(object):
    z = 5
    w = _W()
    def m(self, n): return n * 2

G = 11                                   # a module global (not a local of the caller)
def f(z): return [10, 'b%', z]           # a module global function

def scope_locals():
    return {'x': 7, 'y': _Y(), 'z': 3, 's': "it's 50%", 'd': {'k': 9}, 'lst': [1, 2, 3], 'pat': 'a%', 'n0': 0}

# every expression evaluates to an int or a str (bindable by SQLite)
EXPRS = ['x', 'z', 's', 'pat', 'G', 'y.z', 'y.w.v', 'y .z', 'y. w . v', '(x+1)', '(x + G)', 'f(z)[1]', 'f(z)[2]', 'f (z) [0]', "d['k']",
         'lst[0]', 'lst[-1]', 'y.m(2)', 'y.m(x)', '(x % 3)', "('100%')", "(s + '%')", "('%s' % x)", "('a)b')", '("q\\"(")', "(')')",
         "('$')", "d ['k']", '(y.m(lst[1]) + 1)', "('%%')", "f(z)[1].upper()", "('''t)''')", 'n0',
         "('it\\'s)')", '("a\\")b")', "(r'\\\\')", "('''a\\''')b''')", 'f(z)[x - 7 + (1)]']

SAFE_STARTS = [', ', ' , ', ' and ', ' = ', ')', ' from', '\n, ', '+', ' -', " '", '', '||']
TEXTS = ['select ', ', ', ' ', "'%'", "'%%'", "'a%b'", " like 'x%' ", '%s', '%(p1)s', '?', ':1', ':p1', "'it''s'", '"q"', '\n', ' -- c\n', 'a.b(c)[d];',
         '100%', '%', '%%%', "'?'", ' where a = ', '(', ')', ' é中 ', '\t', "''", ' and ']

def tok_text(t): return {'t': t}
def tok_expr(e, semi=False): return {'e': e, 'semi': bool(semi)}
DOLLAR = {'d': True}

def render(toks):
    out = []
    for t in toks:
        if 't' in t: out.append(t['t'])
        elif 'e' in t: out.append('$' + t['e'] + (';' if t['semi'] else ''))
        else: out.append('$$')
    return ''.join(out)

def well_formed(toks):
    """the scanner finds exactly these tokens: no `$` in text, and nothing after an unterminated expression that continues it"""
    for i, t in enumerate(toks):
        if 't' in t and '$' in t['t']: return False
        if 'e' in t and not t['semi'] and i + 1 < len(toks) and 't' in toks[i + 1]:
            nxt = toks[i + 1]['t']
            if nxt and (nxt[0].isalnum() or nxt[0] == '_' or ord(nxt[0]) > 127): return False
            st = nxt.lstrip()
            if st and st[0] in ';.([': return False
            if not st and i + 2 < len(toks) and 't' in toks[i + 2]: return False   # whitespace-only text followed by more text
    return True

def gen_toks(rng, db_safe=False):
    n = rng.choice([1, 1, 2, 2, 3, 3, 4, 5, 6, 8]) if rng.random() > 0.02 else 0
    toks = []
    for _ in range(n):
        k = rng.random()
        if k < 0.4:
            toks.append(tok_expr(rng.choice(EXPRS), rng.random() < 0.35))
        elif k < 0.5:
            toks.append(DOLLAR)
        else:
            t = ''.join(rng.choice(TEXTS) for _ in range(rng.choice([1, 1, 2, 3])))
            if toks and 'e' in toks[-1] and not toks[-1]['semi']:
                t = rng.choice(SAFE_STARTS) + t
            toks.append(tok_text(t))
    # normalise: merge adjacent text tokens (one `text` = one maximal run), drop empty ones
    out = []
    for t in toks:
        if 't' in t:
            if not t['t']: continue
            if out and 't' in out[-1]: out[-1] = tok_text(out[-1]['t'] + t['t']); continue
        out.append(dict(t))
    return out if well_formed(out) else gen_toks(rng, db_safe)

# ------------------------------------------------------------------------------------------ the declarative reading (oracle)

def placeholder(style, k):
    return {'qmark': '?', 'format': '%s', 'numeric': ':%d' % k, 'named': ':p%d' % k, 'pyformat': '%%(p%d)s' % k}[style]

def expected(style, toks, scope):
    """what adapt_sql should return, read off the token list: (adapted text, evaluated arguments)"""
    exprs = [t['e'] for t in toks if 'e' in t]
    if not exprs:
        return ''.join(t['t'] if 't' in t else '$' for t in toks), None
    out = []; k = 0
    for t in toks:
        if 't' in t: out.append(t['t'].replace('%', '%%') if style in ('format', 'pyformat') else t['t'])
        elif 'e' in t: k += 1; out.append(placeholder(style, k))
        else: out.append('$')
    vals = [eval(e, globals(), scope) for e in exprs]
    if style in ('named', 'pyformat'): return ''.join(out), {'p%d' % (i + 1): v for i, v in enumerate(vals)}
    return ''.join(out), tuple(vals)

def as_written(toks, markers):
    """the statement the database finally sees: text as written, `$$ -> $`, k-th expression -> k-th marker"""
    out = []; k = 0
    for t in toks:
        if 't' in t: out.append(t['t'])
        elif 'e' in t: out.append(markers[k]); k += 1
        else: out.append('$')
    return ''.join(out)

def real_adapt(sql, style, scope):
    try:
        adapted, code = adapt_sql(sql, style)
        return [adapted, canon_args(eval(code, globals(), scope))]
    except Exception as e:
        return {'error': type(e).__name__}

def canon_args(a):
    if a is None: return None
    if isinstance(a, dict): return {'dict': [[k, repr(v)] for k, v in a.items()]}
    return {'tuple': [repr(v) for v in a]}

def model_result(out, scope):
    """evaluate the model's argument SOURCE in the same scope"""
    if 'driver_error' in out: return out
    a = out['ok']; src = a['source']
    try:
        if 'none' in src: args = None
        elif 'tuple' in src: args = {'tuple': [repr(eval(e, globals(), scope)) for e in src['tuple']]}
        else: args = {'dict': [[k, repr(eval(e, globals(), scope))] for k, e in src['dict']]}
    except Exception as e:
        return {'error': type(e).__name__}
    return [a['sql'], args]

# ------------------------------------------------------------------------------------------ part 1: adapt_sql, all styles

def shrink_adapt(style, toks, scope, bad):
    toks = [dict(t) for t in toks]
    changed = True
    while changed:
        changed = False
        for i in range(len(toks)):
            cand = toks[:i] + toks[i + 1:]
            if well_formed(cand) and bad(style, cand): toks = cand; changed = True; break
        if changed: continue
        for i, t in enumerate(toks):
            if 't' in t and len(t['t']) > 1:
                for cut in (t['t'][1:], t['t'][:-1]):
                    cand = toks[:i] + [tok_text(cut)] + toks[i + 1:]
                    if well_formed(cand) and bad(style, cand): toks = cand; changed = True; break
                if changed: break
    return toks

def check_adapt(ctx, toks, styles, scope, outs, kind):
    sql = render(toks)
    for style, out in zip(styles, outs):
        core.adapted_sql_cache.clear()
        real = real_adapt(sql, style, scope)
        ctx.case([kind, style, sql], kind=kind + ':' + style)
        ctx.count('tokens:%d' % min(len(toks), 6))
        if out is not None:
            if out.get('rendered', sql) != sql:
                ctx.divergence('rendering of the token list differs', {'toks': toks}, model=out.get('rendered'), impl=sql)
            m = model_result(out, scope)
            if m != real:
                ctx.divergence('adapt_sql: model and real code disagree', {'sql': sql, 'style': style, 'toks': toks}, model=m, impl=real)
        def bad(style, tk):
            core.adapted_sql_cache.clear()
            es, ea = expected(style, tk, scope)
            return real_adapt(render(tk), style, scope) != [es, canon_args(ea)]
        if bad(style, toks):
            small = shrink_adapt(style, toks, scope, bad)
            core.adapted_sql_cache.clear()
            es, ea = expected(style, small, scope)
            ctx.violation('adapt_sql(%r, %r) does not bind the k-th placeholder to the k-th expression / does not pass the text through' % (render(small), style),
                          {'sql': render(small), 'style': style, 'toks': small}, observed=real_adapt(render(small), style, scope),
                          expected=[es, canon_args(ea)], key='adapt:%s:%s' % (style, render(small)))
            continue
        # DB-API round trip for the two %-styles: Python's `%` operator undoes the doubling
        exprs = [t['e'] for t in toks if 'e' in t]
        if exprs and style in ('format', 'pyformat') and isinstance(real, list):
            markers = ['⟨%d⟩' % i for i in range(len(exprs))]
            adapted = real[0]
            try:
                final = adapted % (tuple(markers) if style == 'format' else {'p%d' % (i + 1): mk for i, mk in enumerate(markers)})
            except Exception as e:
                final = 'raised ' + type(e).__name__
            ctx.case(['roundtrip', style, sql], nontrivial=False, kind='roundtrip:' + style)
            if final != as_written(toks, markers):
                ctx.violation('adapted_sql %% arguments is not the statement as written', {'sql': sql, 'style': style, 'adapted': adapted},
                              observed=final, expected=as_written(toks, markers), key='roundtrip:%s:%s' % (style, sql))

def part_adapt(ctx, cases):
    scope = scope_locals()
    reqs = []
    for toks, styles, kind in cases:
        for style in styles: reqs.append({'op': 'adapt', 'style': style, 'toks': toks})
        for style in styles:
            if style in ('format', 'pyformat') and any('e' in t for t in toks):
                n = len([t for t in toks if 'e' in t])
                reqs.append({'op': 'expand', 'style': style, 'toks': toks, 'values': ['⟨%d⟩' % i for i in range(n)]})
    outs = ctx.driver('C30', reqs) if ctx.driver.ok else None
    i = 0
    for toks, styles, kind in cases:
        o = outs[i:i + len(styles)] if outs is not None else [None] * len(styles)
        i += len(styles)
        check_adapt(ctx, toks, styles, scope, o, kind)
        for style in styles:
            if style in ('format', 'pyformat') and any('e' in t for t in toks):
                if outs is not None:
                    n = len([t for t in toks if 'e' in t])
                    markers = ['⟨%d⟩' % k for k in range(n)]
                    core.adapted_sql_cache.clear()
                    try:
                        adapted, _ = adapt_sql(render(toks), style)
                        py = adapted % (tuple(markers) if style == 'format' else {'p%d' % (k + 1): mk for k, mk in enumerate(markers)})
                        py = {'ok': py}
                    except Exception as e:
                        py = {'error': type(e).__name__}
                    m = outs[i]
                    m = {'ok': m['ok']} if 'ok' in m else {'error': 'format'}
                    if ('ok' in m) != ('ok' in py) or ('ok' in m and m['ok'] != py['ok']):
                        ctx.divergence("model of `sql % args` and Python's % operator disagree", {'sql': render(toks), 'style': style}, model=m, impl=py)
                    i += 1

# ------------------------------------------------------------------------------------------ part 2: cache histories

def part_cache(ctx, rng, pool):
    scope = scope_locals()
    n_hist = ctx.scale(40, 600)
    reqs, hists = [], []
    for _ in range(n_hist):
        base = [rng.choice(pool) for _ in range(rng.choice([1, 2, 3]))]
        cand = []
        for toks in base:
            cand.append(toks)
            # the sibling statement whose text is the %-doubled text of this one (the pre-de506b3 collision), and the halved one
            cand.append([tok_text(t['t'].replace('%', '%%')) if 't' in t else t for t in toks])
            cand.append([tok_text(t['t'].replace('%%', '%')) if 't' in t else t for t in toks])
        hist = [(rng.choice(cand), rng.choice(STYLES if rng.random() < 0.5 else ['format', 'pyformat'])) for _ in range(rng.choice([2, 3, 5, 8]))]
        hists.append(hist)
        reqs.append({'op': 'run', 'calls': [{'style': s, 'toks': t} for t, s in hist]})
    outs = ctx.driver('C30', reqs) if ctx.driver.ok else [None] * len(reqs)
    for hist, out in zip(hists, outs):
        core.adapted_sql_cache.clear()
        warm = [real_adapt(render(t), s, scope) for t, s in hist]
        cold = []
        for t, s in hist:
            core.adapted_sql_cache.clear()
            cold.append(real_adapt(render(t), s, scope))
        ctx.case(['history', [(render(t), s) for t, s in hist]], kind='history:%d' % len(hist))
        if out is not None:
            m = [model_result({'ok': a}, scope) for a in out['ok']] if 'ok' in out else out
            if m != warm:
                ctx.divergence('history of adapt_sql calls: model and real code disagree', {'history': [(render(t), s) for t, s in hist]}, model=m, impl=warm)
        if warm != cold:
            i = [a != b for a, b in zip(warm, cold)].index(True)
            # minimal history: the colliding earlier call + this call
            key = None
            for j in range(i):
                core.adapted_sql_cache.clear()
                real_adapt(render(hist[j][0]), hist[j][1], scope)
                if real_adapt(render(hist[i][0]), hist[i][1], scope) != cold[i]:
                    key = 'history:%s' % json.dumps([[render(hist[j][0]), hist[j][1]], [render(hist[i][0]), hist[i][1]]]); break
            ctx.violation('adapt_sql returns another result after earlier calls than on a cleared cache',
                          {'history': [(render(t), s) for t, s in hist[:i + 1]]}, observed=warm[i], expected=cold[i],
                          key=key or 'history:%s' % json.dumps([(render(t), s) for t, s in hist[:i + 1]]))
    core.adapted_sql_cache.clear()

# ------------------------------------------------------------------------------------------ part 3: the real API on SQLite

LOG = []

class RecCursor(sqlite3.Cursor):
    def execute(self, sql, *args):
        LOG.append((sql, args[0] if args else None))
        return super().execute(sql, *args)

class RecConnection(sqlite3.Connection):
    def cursor(self, factory=None):
        return super().cursor(RecCursor)

_DB = []

def get_db():
    if _DB: return _DB[0]
    db = Database()
    class Itm(db.Entity):
        a = Required(int)
        name = Optional(str)
    db.bind('sqlite', ':memory:', factory=RecConnection)
    db.generate_mapping(create_tables=True)
    with db_session:
        Itm(id=1, a=7, name='abc'); Itm(id=2, a=8, name='a%c'); Itm(id=3, a=5, name='$x'); Itm(id=4, a=3, name='b')
    _DB.append((db, Itm))
    return _DB[0]

# each api_* function is the CALLER: the `$`-expressions refer to its local variables (no globals/locals are passed)

def api_select(db, sql):
    x = 7; y = _Y(); z = 3; s = "it's 50%"; d = {'k': 9}; lst = [1, 2, 3]; pat = 'a%'; n0 = 0
    return db.select(sql)

def api_get(db, sql):
    x = 7; y = _Y(); z = 3; s = "it's 50%"; d = {'k': 9}; lst = [1, 2, 3]; pat = 'a%'; n0 = 0
    return db.get(sql)

def api_exists(db, sql):
    x = 7; y = _Y(); z = 3; s = "it's 50%"; d = {'k': 9}; lst = [1, 2, 3]; pat = 'a%'; n0 = 0
    return db.exists(sql)

def api_execute(db, sql):
    x = 7; y = _Y(); z = 3; s = "it's 50%"; d = {'k': 9}; lst = [1, 2, 3]; pat = 'a%'; n0 = 0
    return db.execute(sql).fetchall()

def api_select_by_sql(T, sql):
    x = 7; y = _Y(); z = 3; s = "it's 50%"; d = {'k': 9}; lst = [1, 2, 3]; pat = 'a%'; n0 = 0
    return sorted(t.id for t in T.select_by_sql(sql))

def api_get_by_sql(T, sql):
    x = 7; y = _Y(); z = 3; s = "it's 50%"; d = {'k': 9}; lst = [1, 2, 3]; pat = 'a%'; n0 = 0
    r = T.get_by_sql(sql)
    return None if r is None else r.id

def api_raw_sql_filter(Ent, frag):
    x = 7; y = _Y(); z = 3; s = "it's 50%"; d = {'k': 9}; lst = [1, 2, 3]; pat = 'a%'; n0 = 0
    return sorted(select(p.id for p in Ent if raw_sql(frag))[:])

def api_raw_sql_value(Ent, frag):
    x = 7; y = _Y(); z = 3; s = "it's 50%"; d = {'k': 9}; lst = [1, 2, 3]; pat = 'a%'; n0 = 0
    return select(raw_sql(frag) for p in Ent if p.id == 1)[:]

def sql_literal(text):
    return "'" + text.replace("'", "''") + "'"

def gen_select_items(rng):
    """a SELECT list of SQL string literals (with %, $$, quotes) and $-expressions; returns (tokens, expected row)"""
    scope = scope_locals()
    n = rng.choice([1, 2, 3, 4])
    toks = [tok_text('select ')]; row = []
    for i in range(n):
        if i: toks.append(tok_text(', '))
        if rng.random() < 0.5:
            e = rng.choice(EXPRS)
            toks.append(tok_expr(e, rng.random() < 0.3))
            row.append(eval(e, globals(), scope))
        else:
            parts = [rng.choice(['a', '%', '%%', 'x%y', '$', '$', "'", ' ', '?', ':1', '%s', '%(p1)s', 'é']) for _ in range(rng.choice([1, 2, 3]))]
            lit = ''.join(parts)
            # written in SQL: quotes doubled, `$` written as `$$`
            pieces = sql_literal(lit).split('$')
            for j, p in enumerate(pieces):
                if j: toks.append(DOLLAR)
                if p: toks.append(tok_text(p))
            row.append(lit)
    out = []
    for t in toks:
        if 't' in t and out and 't' in out[-1]: out[-1] = tok_text(out[-1]['t'] + t['t'])
        else: out.append(dict(t))
    return out, row

def part_api(ctx, rng):
    db, T = get_db()
    scope = scope_locals()
    n = ctx.scale(120, 1500)
    reqs, items = [], []
    for i in range(n):
        toks, row = gen_select_items(rng)
        if not well_formed(toks): continue
        items.append((toks, row)); reqs.append({'op': 'adapt', 'style': 'qmark', 'toks': toks})
    outs = ctx.driver('C30', reqs) if ctx.driver.ok else [None] * len(reqs)
    for k, ((toks, row), out) in enumerate(zip(items, outs)):
        sql = render(toks)
        method = ['select', 'get', 'execute', 'select'][k % 4]
        warm = k % 3 != 0
        if not warm: core.adapted_sql_cache.clear()
        del LOG[:]
        with db_session:
            try:
                if method == 'select': got = api_select(db, sql); got = [list(got[0])] if len(row) > 1 else [[got[0]]]
                elif method == 'get': got = api_get(db, sql); got = [list(got)] if len(row) > 1 else [[got]]
                else: got = [list(r) for r in api_execute(db, sql)]
            except Exception as e:
                got = 'raised %s: %s' % (type(e).__name__, e)
        seen = [l for l in LOG if l[0].lstrip().lower().startswith('select') and 'sqlite_master' not in l[0]]
        ctx.case(['api', method, sql], kind='api:%s:%s' % (method, 'warm' if warm else 'cold'))
        if got != [row]:
            ctx.violation('db.%s(%r) does not return the literals as written and the values of the expressions' % (method, sql),
                          {'sql': sql, 'method': method, 'toks': toks}, observed=got, expected=[row], key='api:%s:%s' % (method, sql))
        es, ea = expected('qmark', toks, scope)
        rec = [seen[-1][0], canon_args(seen[-1][1])] if seen else None
        if rec != [es, canon_args(ea)]:
            ctx.violation('the DB-API cursor did not receive the expected statement / arguments', {'sql': sql, 'method': method},
                          observed=rec, expected=[es, canon_args(ea)], key='cursor:%s:%s' % (method, sql))
        if out is not None:
            m = model_result(out, scope)
            if m != rec:
                ctx.divergence('statement / arguments received by the cursor differ from the model', {'sql': sql, 'method': method}, model=m, impl=rec)
    # fixed scenarios: exists / select_by_sql / get_by_sql / raw_sql, caller-scope expressions, LIKE patterns with %, `$$`
    fixed = [
        ('exists', "select 1 where $x = 7 and '%' = '%'", True),
        ('exists', "select 1 where $(x+1) = 7", False),
        ('exists', "select 1 from Itm where name = '$$x'", True),
        ('select_by_sql', "select * from Itm where a = $x", [1]),
        ('select_by_sql', "select * from Itm where name like $pat", [1, 2]),
        ('select_by_sql', "select * from Itm where name like 'a%' and a >= $y.z;", [1, 2]),
        ('select_by_sql', "select * from Itm where name like $(pat[:1] + '%c')", [1, 2]),
        ('select_by_sql', "select * from Itm where name like 'a\\%%' escape '\\' and a = $(G-3)", [2]),
        ('select_by_sql', "select * from Itm where name = '$$x' or a = $f(z)[2]", [3, 4]),
        ('get_by_sql', "select * from Itm where a = $lst[-1] and name like 'b%'", 4),
        ('get_by_sql', "select * from Itm where a = $d['k']", None),
        ('raw_filter', "p.a = $x", [1]),
        ('raw_filter', "p.name like 'a%'", [1, 2]),
        ('raw_filter', "p.name like $pat and p.a > $(x % 4);", [1, 2]),
        ('raw_filter', "p.name = '$$x'", [3]),
        ('raw_filter', "p.a in ($x, $y.z)", [1, 3]),
        ('raw_value', "p.name || '%' || $s || '$$'", ["abc%it's 50%$"]),
        ('raw_value', "$f(z)[1];", ['b%']),
    ]
    for rnd in range(2):
        for method, sql, exp in fixed:
            if rnd == 0:
                core.adapted_sql_cache.clear(); ormtypes.raw_sql_cache.clear()
            with db_session:
                try:
                    if method == 'exists': got = api_exists(db, sql)
                    elif method == 'select_by_sql': got = api_select_by_sql(T, sql)
                    elif method == 'get_by_sql': got = api_get_by_sql(T, sql)
                    elif method == 'raw_filter': got = api_raw_sql_filter(T, sql)
                    else: got = api_raw_sql_value(T, sql)
                except Exception as e:
                    got = 'raised %s: %s' % (type(e).__name__, e)
            ctx.case(['fixed', method, sql, rnd], kind='api:%s:%s' % (method, 'cold' if rnd == 0 else 'warm'))
            if got != exp:
                ctx.violation('%s(%r) with caller-scope expressions returned a wrong result' % (method, sql), {'method': method, 'sql': sql, 'cache': 'cold' if rnd == 0 else 'warm'},
                              observed=got, expected=exp, key='fixed:%s:%s' % (method, sql))

# ------------------------------------------------------------------------------------------ part 4: parse_raw_sql

def part_raw(ctx, pool):
    cases = [t for t in pool if t]
    reqs = [{'op': 'raw', 'toks': t} for t in cases]
    outs = ctx.driver('C30', reqs) if ctx.driver.ok else [None] * len(reqs)
    for toks, out in zip(cases, outs):
        sql = render(toks)
        for rnd in range(2):
            if rnd == 0: ormtypes.raw_sql_cache.clear()
            try:
                items, codes = parse_raw_sql(sql)
                real = {'items': [i if isinstance(i, str) else {'expr': i[0]} for i in items], 'n': len(codes)}
            except Exception as e:
                real = {'error': type(e).__name__}
            ctx.case(['raw', sql, rnd], nontrivial=(rnd == 0), kind='parse_raw_sql')
            # oracle: text as written, `$$ -> $`, expressions in order (empty strings are the scanner's separators)
            exp_items = []
            for t in toks:
                exp_items.append(t['t'] if 't' in t else '$' if 'd' in t else {'expr': t['e']})
            norm = lambda its: [i for i in merge_strs(its) if i != '']
            if 'error' in real or norm(real['items']) != norm(exp_items) or real['n'] != len([t for t in toks if 'e' in t]):
                ctx.violation('parse_raw_sql(%r) does not keep the text / the order of the expressions' % sql, {'sql': sql}, observed=real, expected=norm(exp_items), key='raw:' + sql)
            if out is not None and 'error' not in real:
                if norm(out['items']) != norm(real['items']) or len(out['exprs']) != real['n']:
                    ctx.divergence('parse_raw_sql: model and real code disagree', {'sql': sql}, model=out, impl=real)

def merge_strs(items):
    out = []
    for i in items:
        if isinstance(i, str) and out and isinstance(out[-1], str): out[-1] += i
        else: out.append(i)
    return out

# ------------------------------------------------------------------------------------------ part 5: the scanner on raw ASCII strings

SOUP = list("$$$$;;..(())[[]]''\"\"\\  \n\tab_x1%,=")

FIXED_RAW = ['$', '$$', '$$$', 'a$', '$x', '$x;', '$x ;', '$x . y', '$x .', '$(', '$()', '$(()', "$(')')", "$('''a)''')", "$('\\')')", '$x[(])', '$x([)])',
             '$("\\\n")', "$('a\nb')", "$(''')", '$x (1) [2] .z ;rest', "$f('('", '$x\x0b.y', '$_', '$1', '$ x', '$x$y', '$x$$', "$x''", "$x'(", '$x.y.z(a)[b].c;;',
             '$x\x1c;', '$(""")""")', "$('\\", '$x.\n y', '$x(\'\'\'\')', '$a.b c', '$(a)(b)[c].d ;']

def gen_raw_strings(rng, pool, n):
    out = []
    ascii_pool = [render(t) for t in pool if t and all(ord(c) < 128 for c in render(t))]
    for _ in range(n):
        k = rng.random()
        if k < 0.35 and ascii_pool:
            out.append(rng.choice(ascii_pool))
        elif k < 0.7 and ascii_pool:
            s = list(rng.choice(ascii_pool))
            for _ in range(rng.choice([1, 1, 2, 3])):
                i = rng.randrange(len(s) + 1)
                if s and rng.random() < 0.4: del s[min(i, len(s) - 1)]
                else: s.insert(i, rng.choice("$;.()[]'\"\\ \n"))
            out.append(''.join(s))
        else:
            out.append(''.join(rng.choice(SOUP) for _ in range(rng.choice([1, 2, 3, 5, 8, 12, 16]))))
    return [x for x in out + FIXED_RAW if x]

# the three regular expressions the scanner model (Model/RawScan.lean) was derived from, comments and layout removed:
# if the source patterns change, the hand model is no longer known to describe them (fail closed)
REGEX_PINS = {
    'expr1_re': r"([A-Za-z_]\w*)|([(])",
    'expr2_re': r"\s*(?:(;)|(\.\s*[A-Za-z_]\w*)|([([]))",
    'expr3_re': "[()[\\]]|'''(?:[^\\\\]|\\\\.)*?'''|\\\"\"\"(?:[^\\\\]|\\\\.)*?\\\"\"\"|'(?:[^'\\\\]|\\\\.)*?'|\"(?:[^\"\\\\]|\\\\.)*?\"",
}

def check_regex_pins(ctx):
    import re
    from pony.utils import utils as pu
    for name, pinned in REGEX_PINS.items():
        r = getattr(pu, name, None)
        actual = None if r is None else ''.join(re.sub(r'#.*', '', r.pattern).split())
        ctx.case(['regex-pin', name], nontrivial=False, kind='regex-pin')
        if actual != pinned or (r.flags & ~re.UNICODE) != re.VERBOSE:
            ctx.divergence('pony.utils.utils.%s is not the pattern the scanner model was derived from' % name, {'regex': name}, model=pinned, impl=actual)

def part_scanner(ctx, rng, pool):
    from pony.utils import parse_expr
    import warnings
    warnings.simplefilter('ignore', SyntaxWarning)      # compile() of character-soup expression texts
    check_regex_pins(ctx)
    strings = gen_raw_strings(rng, pool, ctx.scale(600, 8000))
    reqs = []
    for st in strings:
        reqs.append({'op': 'scan', 's': st, 'style': 'qmark'})
        i = st.find('$')
        reqs.append({'op': 'parseexpr', 's': st[i + 1:] if i >= 0 else st})
    outs = ctx.driver('C30', reqs) if ctx.driver.ok else None
    if outs is None: return
    for k, st in enumerate(strings):
        m_scan, m_pe = outs[2 * k], outs[2 * k + 1]
        i = st.find('$'); sub = st[i + 1:] if i >= 0 else st
        try: real_pe = {'ok': parse_expr(sub, 0)[0]}
        except ValueError: real_pe = {'error': 'ValueError'}
        except Exception as e: real_pe = {'error': type(e).__name__}
        ctx.case(['parse_expr', sub], kind='scanner:parse_expr:' + ('ok' if 'ok' in real_pe else real_pe['error']))
        if m_pe != real_pe:
            ctx.divergence('parse_expr: model and real code disagree', {'s': sub}, model=m_pe, impl=real_pe)
        # adapt_sql on the raw string
        core.adapted_sql_cache.clear()
        try: real_a = {'ok': adapt_sql(st, 'qmark')[0]}
        except (SyntaxError, TypeError, MemoryError, RecursionError) as e: real_a = {'compile': type(e).__name__}    # the expression text is not Python: outside the scanner
        except Exception as e: real_a = {'error': type(e).__name__}
        ctx.case(['scan', st], kind='scanner:adapt_sql:' + ('ok' if 'ok' in real_a else real_a.get('error') or 'compile-check'))
        if 'compile' not in real_a:
            m = {'ok': m_scan['adapted']['sql']} if 'toks' in m_scan else {'error': m_scan['scan']['error']}
            if m != real_a:
                ctx.divergence('adapt_sql on a raw statement: model scanner and real code disagree', {'sql': st}, model=m, impl=real_a)
        # parse_raw_sql on the raw string (the second implementation of the same loop)
        ormtypes.raw_sql_cache.clear()
        try:
            items, codes = parse_raw_sql(st)
            real_r = {'items': [x if isinstance(x, str) else {'expr': x[0]} for x in items], 'n': len(codes)}
        except (SyntaxError, MemoryError, RecursionError) as e: real_r = {'compile': type(e).__name__}
        except Exception as e: real_r = {'error': type(e).__name__}
        if 'compile' not in real_r:
            mr = m_scan['raw']
            m = {'items': mr['items'], 'n': len(mr['exprs'])} if 'items' in mr else {'error': mr['error']}
            if m != real_r:
                ctx.divergence('parse_raw_sql on a raw statement: model and real code disagree', {'sql': st}, model=m, impl=real_r)
            # one grammar, two implementations: both must cut the same text into the same pieces (property oracle on the real code)
            if 'ok' in real_a and 'items' in real_r:
                via_raw = ''.join(x if isinstance(x, str) else '?' for x in real_r['items'])
                if via_raw != real_a['ok']:
                    ctx.violation('adapt_sql and parse_raw_sql cut the same text into different pieces', {'sql': st},
                                  observed={'adapt_sql': real_a['ok'], 'parse_raw_sql': real_r['items']}, expected='the same text / expression boundaries', key='two-scanners:' + st)
    core.adapted_sql_cache.clear(); ormtypes.raw_sql_cache.clear()

# ------------------------------------------------------------------------------------------ part 6: one fragment, parameter values of different Python types

import datetime as _dt, decimal as _dec, uuid as _uuid

TYPED_VALUES = [('int', 7), ('str', 'abc'), ('Decimal', _dec.Decimal('1.50')), ('UUID', _uuid.UUID('12345678-1234-5678-1234-567812345678')),
                ('datetime', _dt.datetime(2020, 1, 2, 3, 4, 5)), ('date', _dt.date(2020, 1, 2)), ('bool', True), ('float', 2.5), ('None', None)]
TYPED_COLUMNS = ['n', 'name', 'price', 'uid', 'ts', 'd', 'flag', 'fl']

def typed_db():
    from pony.orm import PrimaryKey
    db = Database()
    class Item(db.Entity):
        id = PrimaryKey(int)
        n = Required(int)
        name = Required(str)
        price = Required(_dec.Decimal, precision=10, scale=2)
        uid = Required(_uuid.UUID)
        ts = Required(_dt.datetime)
        d = Required(_dt.date)
        flag = Required(bool)
        fl = Required(float)
    db.bind('sqlite', ':memory:')
    db.generate_mapping(create_tables=True)
    with db_session:
        Item(id=1, n=7, name='abc', price=_dec.Decimal('1.50'), uid=TYPED_VALUES[3][1], ts=TYPED_VALUES[4][1], d=TYPED_VALUES[5][1], flag=True, fl=2.5)
        Item(id=2, n=1, name='7', price=_dec.Decimal('7'), uid=_uuid.UUID(int=7), ts=_dt.datetime(2021, 1, 1), d=_dt.date(2021, 1, 1), flag=False, fl=7.0)
    return db, Item

# the CALLERS: one code location per way of running the fragment, the value is their local variable `x`
def typed_query(Ent, frag, x):
    return sorted(select(i.id for i in Ent if raw_sql(frag))[:])

def typed_query_value(Ent, frag, x):
    return sorted(select((i.id, raw_sql(frag)) for i in Ent)[:], key=repr)

def typed_select(db, sql, x):
    return sorted(db.select(sql))

def typed_execute(db, sql, x):
    return sorted(r[0] for r in db.execute(sql).fetchall())

def typed_get_by_sql(Ent, sql, x):
    r = Ent.get_by_sql(sql)
    return None if r is None else r.id

def typed_run(kind, db, Item, col, x):
    """one execution in a session of its own; whatever the real code raises is the observed outcome"""
    try:
        with db_session:
            if kind == 'query': return typed_query(Item, 'i.%s = $x' % col, x)
            if kind == 'query-value': return [list(map(repr, r)) for r in typed_query_value(Item, '$x', x)]
            if kind == 'select': return typed_select(db, 'select id from item where %s = $x' % col, x)
            if kind == 'execute': return typed_execute(db, 'select id from item where %s = $x' % col, x)
            return typed_get_by_sql(Item, 'select * from item where %s = $x' % col, x)
    except Exception as e:
        return 'raised ' + type(e).__name__

def part_typed(ctx, rng):
    """the same fragment executed again and again against ONE database with values of different Python types, in every
       order of 'first type seen': every run must give what it gives alone, on a database that has seen nothing else"""
    kinds = ['query', 'query-value', 'select', 'execute', 'get_by_sql']
    cols = TYPED_COLUMNS if ctx.thorough else rng.sample(TYPED_COLUMNS, 3)
    alone = {}
    def alone_answer(kind, col, tname, x):
        k = (kind, col, tname)
        if k not in alone:
            db, Item = typed_db()
            alone[k] = typed_run(kind, db, Item, col, x)
            db.disconnect()
        return alone[k]
    for kind in kinds:
        for col in (cols if kind != 'query-value' else ['-']):
            for first_name, first in TYPED_VALUES:
                db, Item = typed_db()
                order = [(first_name, first)] + rng.sample([v for v in TYPED_VALUES if v[0] != first_name], len(TYPED_VALUES) - 1)
                if rng.random() < 0.5: order.append((first_name, first))          # and the first type once more at the end
                seen = []
                for tname, x in order:
                    got = typed_run(kind, db, Item, col, x)
                    exp = alone_answer(kind, col, tname, x)
                    ctx.case(['typed', kind, col, first_name, tname], kind='typed:%s' % kind)
                    ctx.count('typed:outcome:%s' % ('raised' if isinstance(got, str) else 'rows' if got else 'empty'))
                    if got != exp:
                        # minimal history: the first earlier run after which this run goes wrong
                        key = None
                        for pname, px in seen:
                            db2, Item2 = typed_db()
                            typed_run(kind, db2, Item2, col, px)
                            bad = typed_run(kind, db2, Item2, col, x) != exp
                            db2.disconnect()
                            if bad:
                                key = 'typed:%s:%s:%s-then-%s' % (kind, col, pname, tname)
                                ctx.violation('the same raw SQL text run first with a %s and then with a %s parameter binds the second value differently from a run on its own '
                                              '(way: %s, column %s)' % (pname, tname, kind, col),
                                              {'way': kind, 'text': ('i.%s = $x' % col) if kind == 'query' else '$x' if kind == 'query-value' else 'select ... from item where %s = $x' % col,
                                               'first x': repr(px), 'then x': repr(x)}, observed=got, expected=exp, key=key)
                                break
                        if key is None:
                            ctx.violation('a run of the same raw SQL text gives another result after earlier runs with other parameter types than on its own',
                                          {'way': kind, 'column': col, 'history': [n for n, _ in seen] + [tname]}, observed=got, expected=exp,
                                          key='typed:%s:%s:%s' % (kind, col, '-'.join([n for n, _ in seen] + [tname])))
                    seen.append((tname, x))
                db.disconnect()
    # the cache key itself: RawSQLType equality must tell apart everything the translation depends on
    from pony.orm.ormtypes import RawSQLType
    items = ('i.n = ', ('x', None))
    base = RawSQLType('i.n = $x', items, (int,), None)
    for what, other, same in [('types', RawSQLType('i.n = $x', items, (str,), None), False), ('sql', RawSQLType('i.n = $y', items, (int,), None), False),
                              ('nothing', RawSQLType('i.n = $x', items, (int,), None), True)]:
        ctx.case(['RawSQLType-eq', what], kind='typed:key')
        eq = (base == other) and hash(base) == hash(other)
        if eq != same:
            ctx.violation('RawSQLType.__eq__/__hash__ %s two fragments that differ in %s' % ('identify' if eq else 'tell apart', what),
                          {'a': ['i.n = $x', 'int'], 'b': [other.sql, [t.__name__ for t in other.types]]}, observed=eq, expected=same, key='typed:key:' + what)

# ------------------------------------------------------------------------------------------ part 7: repeated and interleaved $-expressions in raw_sql() fragments

INT_EXPRS = ['x', 'z', 'y.z', 'lst[1]', '(x+1)', 'n0', 'G']          # 7, 3, 5, 2, 8, 0, 11
ANY_EXPRS = INT_EXPRS + ['s', 'pat', "('q')", 'f(z)[1]']

def rgs_patterns(max_len=4, symbols=3):
    """every order of repetition: restricted-growth strings (x, xx, xy, xxy, xyx, xyy, xyz, xyyx, …) of length 2..max_len"""
    out = []
    def go(prefix, used):
        if len(prefix) >= 2: out.append(list(prefix))
        if len(prefix) == max_len: return
        for k in range(min(used + 1, symbols)):
            go(prefix + [k], max(used, k + 1))
    go([0], 1)
    return out

# the CALLERS of the fragment (the `$`-expressions refer to their locals / this module's globals)
def rs_value(Ent, frag):
    x = 7; y = _Y(); z = 3; s = "it's 50%"; d = {'k': 9}; lst = [1, 2, 3]; pat = 'a%'; n0 = 0
    return select(raw_sql(frag) for p in Ent if p.id == 1)[:]
def rs_cond(Ent, frag):
    x = 7; y = _Y(); z = 3; s = "it's 50%"; d = {'k': 9}; lst = [1, 2, 3]; pat = 'a%'; n0 = 0
    return sorted(select(p.id for p in Ent if raw_sql(frag))[:])
def rs_filter(Ent, frag):
    x = 7; y = _Y(); z = 3; s = "it's 50%"; d = {'k': 9}; lst = [1, 2, 3]; pat = 'a%'; n0 = 0
    return sorted(q.id for q in select(p for p in Ent).filter(lambda p: raw_sql(frag)))
def rs_where(Ent, frag):
    x = 7; y = _Y(); z = 3; s = "it's 50%"; d = {'k': 9}; lst = [1, 2, 3]; pat = 'a%'; n0 = 0
    return sorted(q.id for q in select(p for p in Ent).where(lambda p: raw_sql(frag)))
def rs_order(Ent, frag):
    x = 7; y = _Y(); z = 3; s = "it's 50%"; d = {'k': 9}; lst = [1, 2, 3]; pat = 'a%'; n0 = 0
    return [q.id for q in select(p for p in Ent).order_by(lambda p: raw_sql(frag))]
def rs_plain(db, sql):
    x = 7; y = _Y(); z = 3; s = "it's 50%"; d = {'k': 9}; lst = [1, 2, 3]; pat = 'a%'; n0 = 0
    return db.select(sql)

def part_repeats(ctx, rng):
    """raw_sql() fragments whose $-expressions repeat and interleave, in every order, inside select / if / filter / where /
       order_by: the arguments handed to the driver are Python's values per OCCURRENCE, and the rows are those of the same
       text run through db.select"""
    db, Ent = get_db()
    scope = scope_locals()
    data = {1: 7, 2: 8, 3: 5, 4: 3}                     # id -> a
    pats = rgs_patterns()
    if not ctx.thorough: pats = [p for p in pats if len(p) <= 3] + rng.sample([p for p in pats if len(p) == 4], 5)
    for pat_ in pats:
        for way in ('value', 'cond', 'filter', 'where', 'order'):
            for variant in range(ctx.scale(1, 3)):
                pool = ANY_EXPRS if way == 'value' and variant != 1 else INT_EXPRS
                chosen = rng.sample(pool, max(pat_) + 1)
                exprs = [chosen[k] for k in pat_]
                semis = [rng.random() < 0.3 for _ in exprs]
                vals = [eval(e, globals(), scope) for e in exprs]
                dollar = rng.random() < 0.6
                terms = ['$' + e + (';' if sm else '') for e, sm in zip(exprs, semis)]
                if way == 'value':
                    sep = " || '|$$|' || " if dollar else " || '|' || "
                    frag = sep.join(terms) if len(terms) > 1 else terms[0]
                    expect = [('|$|' if dollar else '|').join(str(v) for v in vals)]
                    plain_sql = 'select ' + frag + ' from Itm p where p.id = 1'
                else:
                    # an arithmetic combination in which every position has its own weight: swapping two values changes it
                    extra = " + length('$$') - 1" if dollar else ''
                    comb = ' + '.join('%d * %s' % (3 ** i, t) for i, t in enumerate(terms)) + extra
                    total = sum(3 ** i * v for i, v in enumerate(vals))
                    if way == 'order':
                        frag = 'abs(p.a * %d - (%s))' % (max(1, total // 6), comb)
                        keyf = lambda a: abs(a * max(1, total // 6) - total)
                        plain_sql = 'select p.id from Itm p order by ' + frag
                    else:
                        target = rng.choice(list(data.values()))
                        frag = 'p.a - %d = (%s) - %d' % (target, comb, total)      # true exactly for the rows with a == target
                        expect = sorted(i for i, a in data.items() if a == target)
                        plain_sql = 'select p.id from Itm p where ' + frag
                name = ''.join('xyz'[k] for k in pat_)
                inp = {'way': way, 'pattern': name, 'fragment': frag, 'expressions': exprs, 'values': [repr(v) for v in vals]}
                core.adapted_sql_cache.clear() if variant == 0 else None
                del LOG[:]
                try:
                    with db_session:
                        got = {'value': rs_value, 'cond': rs_cond, 'filter': rs_filter, 'where': rs_where, 'order': rs_order}[way](Ent, frag)
                except Exception as e:
                    got = 'raised %s' % type(e).__name__
                seen = [l for l in LOG if l[0].lstrip().upper().startswith('SELECT') and 'sqlite_master' not in l[0]]
                args = list(seen[-1][1]) if seen and seen[-1][1] is not None else []
                del LOG[:]
                try:
                    with db_session:
                        plain = rs_plain(db, plain_sql)
                except Exception as e:
                    plain = 'raised %s' % type(e).__name__
                ctx.case(['repeat', way, name, frag], kind='repeat:%s:%s' % (way, 'x' * len(pat_)))
                ctx.count('repeat:pattern:' + name)
                if way == 'order':
                    ok_rows = isinstance(got, list) and isinstance(plain, list) and [keyf(data[i]) for i in got] == sorted(keyf(a) for a in data.values()) \
                        and [keyf(data[i]) for i in got] == [keyf(data[i]) for i in plain]
                    expect = 'ids ordered by %s' % frag
                elif way == 'value':
                    ok_rows = got == expect and plain == expect
                else:
                    ok_rows = got == expect and (sorted(plain) if isinstance(plain, list) else plain) == expect
                ok_args = [repr(a) for a in args] == [repr(v) for v in vals]
                if not ok_rows or not ok_args:
                    ctx.violation('raw_sql(%r) used as %s: %s' % (frag, {'value': 'a query result', 'cond': 'a query condition', 'filter': '.filter()', 'where': '.where()', 'order': '.order_by()'}[way],
                                  'the rows differ from the same text run through db.select / from the Python values' if not ok_rows else
                                  'the arguments handed to the driver are not the values of the expressions, occurrence by occurrence'),
                                  inp, observed={'rows': got, 'db.select': plain, 'arguments': [repr(a) for a in args]},
                                  expected={'rows': expect, 'arguments': [repr(v) for v in vals]}, key='rawsql-repeat:%s:%s' % (way, name))

# ------------------------------------------------------------------------------------------ malformed input (observed, not judged)

def part_malformed(ctx):
    scope = scope_locals()
    for sql in ['select $', 'select $ x', 'select $1', 'select $(x', "select $f('(", 'select $x.', 'select $(x +)', 'select $x;;', '$', 'select $nosuch']:
        core.adapted_sql_cache.clear()
        r = real_adapt(sql, 'qmark', scope)
        ctx.case(['malformed', sql], nontrivial=False, kind='malformed')
        ctx.count('malformed:%s' % (r['error'] if isinstance(r, dict) else 'accepted'))

# ------------------------------------------------------------------------------------------ run

def load_corpus():
    out = []
    for p in sorted(glob.glob(os.path.join(ROOT, 'harness', 'corpus', 'C30', '*.json'))):
        d = json.load(open(p))
        out.append((d['toks'], d.get('styles', STYLES), 'corpus'))
    return out

def run(ctx):
    rng = ctx.rng
    cases = load_corpus()
    # every expression form alone and with a trailing `;`, for all styles
    for e in EXPRS:
        cases.append(([tok_text('select '), tok_expr(e)], STYLES, 'expr-form'))
        cases.append(([tok_text("select '%', "), tok_expr(e, True), tok_text(" , '100%'")], STYLES, 'expr-form'))
    cases.append(([], STYLES, 'empty'))
    cases.append(([tok_text("select '%'")], STYLES, 'no-params'))
    cases.append(([tok_text("select '%' "), DOLLAR, tok_text(" '%%'")], STYLES, 'no-params'))
    pool = []
    for _ in range(ctx.scale(250, 4000)):
        toks = gen_toks(rng)
        pool.append(toks)
        cases.append((toks, STYLES, 'random'))
    # 12 parameters: two-digit placeholder numbers
    cases.append(([tok_text('select ')] + sum([[tok_expr(rng.choice(EXPRS[:6]), True), tok_text(',')] for _ in range(12)], []) + [tok_text('1')], STYLES, 'twelve-params'))
    part_adapt(ctx, cases)
    part_cache(ctx, rng, [t for t in pool if t] + [c[0] for c in cases[:8] if c[0]])
    part_api(ctx, rng)
    part_raw(ctx, pool[:ctx.scale(150, 1500)])
    part_scanner(ctx, rng, pool)
    part_typed(ctx, rng)
    part_repeats(ctx, rng)
    part_malformed(ctx)
    core.adapted_sql_cache.clear(); ormtypes.raw_sql_cache.clear()
    if not ctx.driver.ok: ctx.note('driver unavailable: the model tie was skipped, only the oracle on the real code ran')

def replay(ctx, data):
    run(ctx)
