"""C02 — the same query over the same data gives the same answer on every dialect.

No PostgreSQL / MySQL / Oracle server or driver exists in the sandbox: the providers are made importable with the stubs in
harness/stubs and bound with `TestDatabase().bind(provider, ':memory:')`, which gives the real dialect translators and SQL builders
(everything up to the text of the statement); the backends themselves are MODELLED (Model.Q.eval; validated against real SQLite by c01).
  (1) correspondence: `query._translator.conditions` of the real PostgreSQL / MySQL translators compared EXACTLY with
      `Model.Q.conditions pg|mysql e` (the dialect branches of coerce_monads / nonzero / negate);
  (2) builder text: the text PGSQLBuilder / MySQLBuilder / OraBuilder / SQLiteBuilder emit for every condition AST compared with the
      Lean pretty-printer `Model.Q.renderText` (quoting, `%%` doubling, placeholders, casts, CONCAT, boolean literals, CASE merging,
      parentheses);
  (3) property oracle on the modelled backends (the witness of the defect repaired in a3f48ae, `not (e.nb if e.b else e.nb)`, is
      replayed first): the REAL ASTs of the three dialects evaluated by `Model.Q.eval` on random rows: the
      selected rows must agree between dialects and with the Python reading; a type error of the modelled PostgreSQL is counted.
"""
import json
from pony.orm import Database, db_session, select
import ponyutil
from engines import q_shared as Q

PROVIDERS = [('sqlite', 'sqlite'), ('postgres', 'pg'), ('mysql', 'mysql'), ('oracle', None)]


def bind_all():
    ponyutil.add_stubs()
    from pony.orm.tests.testutils import TestDatabase
    out = {}
    for prov, _ in PROVIDERS:
        db = Database() if prov == 'sqlite' else TestDatabase()
        E = Q.define_entity(db)
        db.bind(prov, ':memory:')
        db.generate_mapping(create_tables=(prov == 'sqlite'))
        out[prov] = (db, E)
    return out


def oracle_norm(ast):
    """Oracle upper-cases column names in the schema; the model's column is the attribute name"""
    return ast


WITNESS = ('not', ('ite', ('attr', 'b'), ('attr', 'nb'), ('attr', 'nb')))


def run(ctx):
    rng = ctx.rng
    dbs = bind_all()
    sch = Q.schema_json()
    n_frag, n_ext = ctx.scale(600, 6000), ctx.scale(200, 2000)
    gen = Q.Gen(rng, 'frag'); ext = Q.ExtGen(rng)
    exprs = [('witness', WITNESS)] + [('frag', gen.expr(rng.choice([1, 2, 2, 3, 3, 4]))) for _ in range(n_frag)] + [('ext', ext.expr(rng.choice([1, 2, 3]))) for _ in range(n_ext)]
    rows = [Q.random_row(rng) for _ in range(ctx.scale(10, 24))]
    rows.append({'a': 0, 'c': 0, 'n': None, 'm': None, 'b': True, 'nb': None, 's': 'a', 't': '', 'ns': None})
    rows.append({'a': 1, 'c': -1, 'n': 0, 'm': 0, 'b': False, 'nb': False, 's': 'ab', 't': 'a', 'ns': ''})
    tr_reqs, tr_meta, rd_reqs, rd_meta, ev_reqs, ev_meta = [], [], [], [], [], []
    for idx, (mode, e) in enumerate(exprs):
        params = Q.random_params(rng)
        s = Q.src(e)
        ctx.count('%s:exprs' % mode)
        for sub in Q.subexprs(e): ctx.count('node:' + sub[0])
        asts = {}
        for prov, md in PROVIDERS:
            db, E = dbs[prov]
            G = dict(params); G['E'] = E
            ctx.case([mode, prov, s], nontrivial=Q.has_attr(e), kind='%s:%s' % (mode, prov))
            try:
                with db_session:
                    q = select('e for e in E if %s' % s, G)
                    conds = q._translator.conditions
                real = {'ok': Q.norm_ast(conds)}
            except Exception as ex:
                conds = None; real = {'error': Q.exc_class(ex)}
                ctx.count('%s:raises:%s' % (prov, real['error']))
            if md is not None:
                tr_reqs.append({'op': 'translate', 'dialect': md, 'schema': sch, 'expr': Q.to_json(e)}); tr_meta.append((s, prov, real, mode))
            if conds is None: continue
            asts[prov] = real['ok']
            p = db.provider
            texts = [p.sqlbuilder_cls(p, c).sql for c in conds]
            rd_reqs.append({'op': 'render', 'dialect': prov, 'sql': real['ok']}); rd_meta.append((s, prov, texts))
            for c in Q.norm_ast(conds):
                for node in _nodes(c): ctx.count('%s:sqlnode:%s' % (prov, node))
        for prov, md in PROVIDERS:
            if md is not None and prov in asts:
                ev_reqs.append({'op': 'evalsql', 'dialect': md, 'sql': asts[prov], 'params': params, 'rows': rows})
                ev_meta.append((mode, e, (idx, s), prov, params))
    if not ctx.driver.ok:
        ctx.note('driver unavailable: nothing compared'); return
    # (1) correspondence of the dialect translators
    frag_flag = {}
    for (s, prov, real, mode), out in zip(tr_meta, ctx.driver('C02', tr_reqs)):
        mc = out['conditions']; frag_flag[(s, prov)] = out.get('frag')
        ctx.count('correspondence-checked:' + prov)
        if out.get('frag'): ctx.count('%s:in-theorem-fragment:%s' % (mode, prov))
        if 'ok' in real:
            if mc.get('ok') != real['ok']:
                ctx.divergence('model conditions differ from the real %s translator' % prov, {'expr': s}, model=mc, impl=real)
        elif mc.get('error') != real['error']:
            ctx.divergence('model and real %s translator disagree on the error' % prov, {'expr': s}, model=mc, impl=real)
    # (2) builder text
    for (s, prov, texts), out in zip(rd_meta, ctx.driver('C02', rd_reqs)):
        for t, o in zip(texts, out['ok']):
            if 'unsupported' in o:
                ctx.count('text:%s:node-outside-printer' % prov); continue
            ctx.count('text-checked:' + prov)
            if o['ok'] != t:
                ctx.divergence('Lean pretty-printer and %s builder emit different text' % prov, {'expr': s}, model=o['ok'], impl=t)
    # (3) the modelled backends agree with each other and with the Python reading
    by_expr = {}
    for (mode, e, s, prov, params), out in zip(ev_meta, ctx.driver('C02', ev_reqs)):
        by_expr.setdefault(s, {'mode': mode, 'e': e, 'params': params})[prov] = out.get('ok')
    for (idx, s), d in by_expr.items():
        e, params, mode = d['e'], d['params'], d['mode']
        expected = [i + 1 for i, r in enumerate(rows) if Q.as_k(Q.py_eval(e, r, params)) == Q.TT]
        sel = {}
        for prov in ('sqlite', 'postgres', 'mysql'):
            ks = d.get(prov)
            if ks is None: continue
            if 'err' in ks:
                ctx.count('modelled-%s-rejects-the-statement:%s' % (prov, mode))
                if frag_flag.get((s, prov)):
                    # inside the fragment the theorem says no backend type error can occur: a concrete query on which one dialect
                    # answers and another (modelled) rejects the statement
                    bad = ks.index('err')
                    ctx.violation('the modelled %s backend rejects the statement the real %s translator emits, other dialects answer' % (prov, prov),
                                  {'query': 'select(e for e in E if %s)' % s, 'dialect': prov, 'row': rows[bad]},
                                  observed='type error on ' + prov, expected={'python': expected}, key='dialect-rejects:%s:%s' % (prov, json.dumps(Q.to_json(Q.canon_atoms(e)))))
                continue
            sel[prov] = [i + 1 for i, k in enumerate(ks) if k == Q.TT]
        ctx.count('dialect-agreement-checked:' + mode)
        if len({json.dumps(v) for v in sel.values()}) > 1:
            pg_coalesce = any(x[0] == 'not' and Q.is_value(x[1]) and x[1][0] != 'attr' and Q.static_type(x[1]) == 'bool' and not Q.never_null(x[1]) for x in Q.subexprs(e))
            key = 'pg-not-coalesce-true-for-nullable-bool-expression' if pg_coalesce else 'dialects:' + json.dumps(Q.to_json(Q.canon_atoms(e)))
            wrong = sorted(set(sel.get('postgres', [])) ^ set(sel.get('sqlite', [])))
            ctx.violation('the dialects select different rows for the same query (ASTs of the real translators, modelled backends)',
                          {'query': 'select(e for e in E if %s)' % s, 'witness_row': rows[wrong[0] - 1] if wrong else None, 'asts': {p: d.get(p) and None for p in ()}},
                          observed=sel, expected={'python': expected}, key=key)
        elif mode == 'frag' and sel and any(v != expected for v in sel.values()):
            ctx.divergence('modelled backends agree with each other but not with the Python reading inside the fragment', {'expr': s}, model=sel, impl=expected)
    for db, E in dbs.values():
        try: db.disconnect()
        except Exception: pass


def _nodes(ast):
    if isinstance(ast, list):
        if ast and isinstance(ast[0], str) and ast[0].isupper(): yield ast[0]
        for x in ast:
            for n in _nodes(x): yield n


def replay(ctx, data):
    run(ctx)
