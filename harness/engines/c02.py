"""C02 — the same query over the same data gives the same answer on every dialect.

No PostgreSQL / MySQL / Oracle server or driver exists in the sandbox: the providers are made importable with the stubs in
harness/stubs and bound with `TestDatabase().bind(provider, ':memory:')`, which gives the real dialect translators and SQL builders
(everything up to the text of the statement); the backends themselves are MODELLED (Model.Q.eval; validated against real SQLite by c01).
  (1) correspondence: `query._translator.conditions` of the real PostgreSQL / MySQL translators compared EXACTLY with
      `Model.Q.conditions pg|mysql e` (the dialect branches of coerce_monads / nonzero / negate);
  (2) builder text: the text PGSQLBuilder / MySQLBuilder / OraBuilder / SQLiteBuilder emit for every condition AST compared with the
      Lean pretty-printer `Model.Q.renderText` (quoting, `%%` doubling, placeholders, casts, CONCAT, boolean literals, CASE merging,
      parentheses);
  (3) property oracle on the modelled backends (the witness of the defect repaired in a3f48ae, `not (e.nb if e.b else e.nb)`, is
      replayed first): the REAL ASTs of the three dialects evaluated by `Model.Q.eval` on random rows: the
      selected rows must agree between dialects and with the Python reading; a type error of the modelled PostgreSQL is counted.
"""
import json
from pony.orm import Database, db_session, select
import ponyutil
from engines import q_shared as Q

PROVIDERS = [('sqlite', 'sqlite'), ('postgres', 'pg'), ('mysql', 'mysql'), ('oracle', None)]


def bind_all():
    ponyutil.add_stubs()
    from pony.orm.tests.testutils import TestDatabase
    out = {}
    for prov, _ in PROVIDERS:
        db = Database() if prov == 'sqlite' else TestDatabase()
        E = Q.define_entity(db)
        db.bind(prov, ':memory:')
        db.generate_mapping(create_tables=(prov == 'sqlite'))
        out[prov] = (db, E)
    return out


def oracle_norm(ast):
    """Oracle upper-cases column names in the schema; the model's column is the attribute name"""
    return ast


WITNESS = ('not', ('ite', ('attr', 'b'), ('attr', 'nb'), ('attr', 'nb')))


def run(ctx):
    rng = ctx.rng
    dbs = bind_all()
    sch = Q.schema_json()
    n_frag, n_ext = ctx.scale(600, 4500), ctx.scale(200, 1500)
    gen = Q.Gen(rng, 'frag'); ext = Q.ExtGen(rng)
    exprs = [('witness', WITNESS)] + [('frag', x) for x in Q.flag_probes() if Q.has_attr(x) and not Q.closed_compound(x)] + [('frag', gen.expr(rng.choice([1, 2, 2, 3, 3, 4]))) for _ in range(n_frag)] + [('ext', ext.expr(rng.choice([1, 2, 3]))) for _ in range(n_ext)]
    rows = [Q.random_row(rng) for _ in range(ctx.scale(10, 24))]
    rows.append({'a': 0, 'c': 0, 'n': None, 'm': None, 'b': True, 'nb': None, 's': 'a', 't': '', 'ns': None})
    rows.append({'a': 1, 'c': -1, 'n': 0, 'm': 0, 'b': False, 'nb': False, 's': 'ab', 't': 'a', 'ns': ''})
    tr_reqs, tr_meta, rd_reqs, rd_meta, ev_reqs, ev_meta, ck_reqs, ck_meta = [], [], [], [], [], [], [], []
    for idx, (mode, e) in enumerate(exprs):
        params = Q.random_params(rng)
        s = Q.src(e)
        ctx.count('%s:exprs' % mode)
        for sub in Q.subexprs(e): ctx.count('node:' + sub[0])
        asts = {}
        for prov, md in PROVIDERS:
            db, E = dbs[prov]
            G = dict(params); G['E'] = E
            ctx.case([mode, prov, s], nontrivial=Q.has_attr(e), kind='%s:%s' % (mode, prov))
            try:
                with db_session:
                    q = select('e for e in E if %s' % s, G)
                    conds = q._translator.conditions
                real = {'ok': Q.norm_ast(conds)}
            except Exception as ex:
                conds = None; real = {'error': Q.exc_class(ex)}
                ctx.count('%s:raises:%s' % (prov, real['error']))
            if md is not None:
                tr_reqs.append({'op': 'translate', 'dialect': md, 'schema': sch, 'expr': Q.to_json(e)}); tr_meta.append((s, prov, real, mode))
                if 'ok' in real:
                    ck_reqs.append({'op': 'check', 'dialect': md, 'schema': sch, 'expr': Q.to_json(e), 'sql': real['ok']}); ck_meta.append((s, prov, mode))
            if conds is None: continue
            asts[prov] = real['ok']
            p = db.provider
            texts = [p.sqlbuilder_cls(p, c).sql for c in conds]
            rd_reqs.append({'op': 'render', 'dialect': prov, 'sql': real['ok']}); rd_meta.append((s, prov, texts))
            for c in Q.norm_ast(conds):
                for node in _nodes(c): ctx.count('%s:sqlnode:%s' % (prov, node))
        for prov, md in PROVIDERS:
            if md is not None and prov in asts:
                ev_reqs.append({'op': 'evalsql', 'dialect': md, 'sql': asts[prov], 'params': params, 'rows': rows})
                ev_meta.append((mode, e, (idx, s), prov, params))
    if not ctx.driver.ok:
        ctx.note('driver unavailable: nothing compared'); return
    # (1) correspondence of the dialect translators
    frag_flag = {}
    for (s, prov, real, mode), out in zip(tr_meta, ctx.driver('C02', tr_reqs)):
        mc = out['conditions']; frag_flag[(s, prov)] = out.get('frag')
        ctx.count('correspondence-checked:' + prov)
        if out.get('frag'): ctx.count('%s:in-theorem-fragment:%s' % (mode, prov))
        if 'ok' in real:
            if mc.get('ok') != real['ok']:
                ctx.divergence('model conditions differ from the real %s translator' % prov, {'expr': s}, model=mc, impl=real)
        elif mc.get('error') != real['error']:
            ctx.divergence('model and real %s translator disagree on the error' % prov, {'expr': s}, model=mc, impl=real)
    # the verified checker per dialect (C02_checker_sound: accepted on two dialects => the two statements select the same rows of every database)
    for (s, prov, mode), out in zip(ck_meta, ctx.driver('C02', ck_reqs)):
        if out.get('accepted'): ctx.count('checker-accepted:' + prov)
        elif out.get('frag'):
            ctx.divergence('the verified checker rejects the conditions the real %s translator emitted for an expression of the fragment' % prov, {'expr': s}, model=out, impl=None)
        else: ctx.count('checker-not-applicable(outside fragment):' + prov)
    # (2) builder text
    for (s, prov, texts), out in zip(rd_meta, ctx.driver('C02', rd_reqs)):
        for t, o in zip(texts, out['ok']):
            if 'unsupported' in o:
                ctx.count('text:%s:node-outside-printer' % prov); continue
            ctx.count('text-checked:' + prov)
            if o['ok'] != t:
                ctx.divergence('Lean pretty-printer and %s builder emit different text' % prov, {'expr': s}, model=o['ok'], impl=t)
    # (3) the modelled backends agree with each other and with the Python reading
    by_expr = {}
    for (mode, e, s, prov, params), out in zip(ev_meta, ctx.driver('C02', ev_reqs)):
        by_expr.setdefault(s, {'mode': mode, 'e': e, 'params': params})[prov] = out.get('ok')
    for (idx, s), d in by_expr.items():
        e, params, mode = d['e'], d['params'], d['mode']
        expected = [i + 1 for i, r in enumerate(rows) if Q.as_k(Q.py_eval(e, r, params)) == Q.TT]
        sel = {}
        for prov in ('sqlite', 'postgres', 'mysql'):
            ks = d.get(prov)
            if ks is None: continue
            if 'err' in ks:
                ctx.count('modelled-%s-rejects-the-statement:%s' % (prov, mode))
                if frag_flag.get((s, prov)):
                    # inside the fragment the theorem says no backend type error can occur: a concrete query on which one dialect
                    # answers and another (modelled) rejects the statement
                    bad = ks.index('err')
                    ctx.violation('the modelled %s backend rejects the statement the real %s translator emits, other dialects answer' % (prov, prov),
                                  {'query': 'select(e for e in E if %s)' % s, 'dialect': prov, 'row': rows[bad]},
                                  observed='type error on ' + prov, expected={'python': expected}, key='dialect-rejects:%s:%s' % (prov, json.dumps(Q.to_json(Q.canon_atoms(e)))))
                continue
            sel[prov] = [i + 1 for i, k in enumerate(ks) if k == Q.TT]
        ctx.count('dialect-agreement-checked:' + mode)
        if len({json.dumps(v) for v in sel.values()}) > 1:
            pg_coalesce = any(x[0] == 'not' and Q.is_value(x[1]) and x[1][0] != 'attr' and Q.static_type(x[1]) == 'bool' and not Q.never_null(x[1]) for x in Q.subexprs(e))
            key = 'pg-not-coalesce-true-for-nullable-bool-expression' if pg_coalesce else 'dialects:' + json.dumps(Q.to_json(Q.canon_atoms(e)))
            wrong = sorted(set(sel.get('postgres', [])) ^ set(sel.get('sqlite', [])))
            ctx.violation('the dialects select different rows for the same query (ASTs of the real translators, modelled backends)',
                          {'query': 'select(e for e in E if %s)' % s, 'witness_row': rows[wrong[0] - 1] if wrong else None, 'asts': {p: d.get(p) and None for p in ()}},
                          observed=sel, expected={'python': expected}, key=key)
        elif mode == 'frag' and sel and any(v != expected for v in sel.values()):
            ctx.divergence('modelled backends agree with each other but not with the Python reading inside the fragment', {'expr': s}, model=sel, impl=expected)
    for db, E in dbs.values():
        try: db.disconnect()
        except Exception: pass
    run_strings(ctx)
    run_counts(ctx)
    run_rel_checker(ctx)
    run_tuples(ctx)
    run_temporal_text(ctx)
    run_windows(ctx)


# ---------------------------------------------------------------- string indexing / slicing: per-dialect ASTs on the C25 evaluator

DIALECT_NAME = {'sqlite': 'SQLite', 'postgres': 'PostgreSQL', 'mysql': 'MySQL', 'oracle': 'Oracle'}


class _RecBuilder(object):
    """`builder(sql)` returns the AST it is given: records what the dialect's real STRING_SLICE builder method expands to"""
    def __init__(self, dialect): self.dialect = dialect
    def __call__(self, sql): return sql


def _tolist(x):
    if isinstance(x, (tuple, list)): return [_tolist(i) for i in x]
    return x


def expand_ast(db, node):
    """replace every STRING_SLICE node by what the dialect's real builder makes of it; COLUMN / PARAM to the opaque 2-element form"""
    if not isinstance(node, (list, tuple)): return node
    if node and node[0] == 'COLUMN': return ['COLUMN', '%s.%s' % (node[1], str(node[2]).lower())]
    if node and node[0] == 'PARAM':
        key = node[1]
        return ['PARAM', str(key[0][1]) if isinstance(key, (list, tuple)) and isinstance(key[0], (list, tuple)) else str(key)]
    if node and node[0] in ('GT', 'LE') and len(node) == 3:
        # the C25 evaluator has GE / LT only:  a > b  ==  b < a,   a <= b  ==  b >= a
        return [{'GT': 'LT', 'LE': 'GE'}[node[0]], expand_ast(db, node[2]), expand_ast(db, node[1])]
    if node and node[0] == 'STRING_SLICE':
        cls = db.provider.sqlbuilder_cls
        r = _tolist(cls.STRING_SLICE(_RecBuilder(db.provider.dialect), node[1], node[2], node[3]))
        if db.provider.dialect == 'SQLite':
            if len(r) == 7 and r[0] == 'py_string_slice(': r = ['PY_STRING_SLICE', r[1], r[3], r[5]]
            else: return ['UNEXPECTED', r]
        return [expand_ast(db, i) for i in r]
    return [expand_ast(db, i) for i in node]


def guard_class(dialect, s, a_kind, b_kind, i, j):
    """cases outside the proved guards of C25 (suspected dialect defects, unconfirmable offline): not C02 violations"""
    n = len(s); i0 = 0 if i is None else i
    if dialect == 'PostgreSQL':
        if a_kind in 'ocp' and b_kind in 'cp' and j is not None and ((i0 >= 0 and j >= 0) or (i0 < 0 and j < 0)) and j < i0:
            return 'PostgreSQL:negative-substr-length'
        return None
    if dialect in ('MySQL', 'Oracle'):
        if i0 < -n: return dialect + ':start<-len(s)'
        if i0 < 0 and j is not None and 0 <= j < n: return dialect + ':negative-start,non-negative-stop<len(s)'
        if dialect == 'MySQL' and len(s.encode('utf-8')) != n: return 'MySQL:LENGTH()-counts-bytes'
    return None


def run_strings(ctx):
    """`w.text[i]`, `w.text[a:b]`, `len(w.text[a:b])` with constant, parameter and EXPRESSION operands: the AST each dialect's real
    translator + builder emits, evaluated by the C25 dialect evaluator (Model/SqlStr.lean, driver op `eval`) on random rows with
    negative / zero / out-of-range positions; the dialects must agree with each other and with Python"""
    from pony.orm import Database, Required, Optional, PrimaryKey
    rng = ctx.rng
    ponyutil.add_stubs()
    from pony.orm.tests.testutils import TestDatabase
    dbs = {}
    for prov in DIALECT_NAME:
        db = Database() if prov == 'sqlite' else TestDatabase()
        class W(db.Entity):
            id = PrimaryKey(int)
            text = Required(str, autostrip=False)
            pos = Required(int)
            k = Required(int)
        db.bind(prov, ':memory:' if prov != 'oracle' else 'user/pwd@host')
        db.generate_mapping(create_tables=(prov == 'sqlite'), check_tables=False) if prov == 'sqlite' else db.generate_mapping(check_tables=False)
        dbs[prov] = (db, W)
    texts = ['a', 'ab', 'Ann', 'abcdef', 'xyz', 'q', 'hello world']
    rows = []
    for i in range(ctx.scale(12, 40)):
        t = rng.choice(texts)
        rows.append({'id': i + 1, 'text': t, 'pos': rng.choice([0, 1, 2, -1, -2, -len(t), len(t) - 1, len(t), -len(t) - 1, 3, -3, 7]), 'k': rng.choice([0, 1, 2, 4, -1, -2, 9])})
    # operand shapes: (source, kind, python value)
    def operands():
        c = rng.choice([0, 1, 2, 3, 5])
        pv = rng.choice([-3, -2, -1, 0, 1, 2, 4])
        return [(str(c), 'c', lambda r: c), ('pv', 'p', lambda r: pv), ('w.pos', 'e', lambda r: r['pos']), ('w.k', 'e', lambda r: r['k']),
                ('w.pos + 1', 'e', lambda r: r['pos'] + 1), ('w.pos - w.k', 'e', lambda r: r['pos'] - r['k']), ('len(w.text) - 1', 'e', lambda r: len(r['text']) - 1),
                ('len(w.text) - w.k', 'e', lambda r: len(r['text']) - r['k'])], pv
    reqs, meta = [], []
    for _ in range(ctx.scale(60, 400)):
        ops, pv = operands()
        shape = rng.choice(['index', 'index', 'slice', 'slice', 'start', 'stop', 'len-slice'])
        a = rng.choice(ops); b = rng.choice(ops)
        if shape == 'index': src_ = 'w.text[%s]' % a[0]; pyf = lambda r, a=a: r['text'][a[2](r)]; A, B = a, None
        elif shape == 'slice': src_ = 'w.text[%s:%s]' % (a[0], b[0]); pyf = lambda r, a=a, b=b: r['text'][a[2](r):b[2](r)]; A, B = a, b
        elif shape == 'start': src_ = 'w.text[%s:]' % a[0]; pyf = lambda r, a=a: r['text'][a[2](r):]; A, B = a, ('', 'o', lambda r: None)
        elif shape == 'stop': src_ = 'w.text[:%s]' % b[0]; pyf = lambda r, b=b: r['text'][:b[2](r)]; A, B = ('', 'o', lambda r: None), b
        else: src_ = 'len(w.text[%s:%s])' % (a[0], b[0]); pyf = lambda r, a=a, b=b: len(r['text'][a[2](r):b[2](r)]); A, B = a, b
        ctx.count('strings:shape:' + shape); ctx.count('strings:operands:%s%s' % (A[1], B[1] if B else ''))
        for prov, (db, W) in dbs.items():
            ctx.case(['strings', prov, src_], kind='strings:' + prov)
            try:
                with db_session:
                    q = select('(w.id, %s) for w in W' % src_, {'W': W, 'pv': pv, 'len': len})
                    ast_ = expand_ast(db, q._translator.expr_columns[1])
            except Exception as ex:
                ctx.count('strings:%s:raises:%s' % (prov, type(ex).__name__)); continue
            for r in rows:
                reqs.append({'op': 'streval', 'dialect': DIALECT_NAME[prov], 'ast': ast_, 'cols': {'w.text': r['text'], 'w.pos': r['pos'], 'w.k': r['k']}, 'params': {'pv': pv}})
                meta.append((src_, shape, prov, r, pyf, A, B, pv))
    if not ctx.driver.ok: return
    outs = None
    for attempt in range(3):
        try: outs = ctx.driver('C02', reqs); break
        except Exception as ex: last = ex
    if outs is None:
        ctx.note('C25 evaluator unavailable (%s): string index/slice stream skipped' % type(last).__name__); return
    groups = {}
    for m, out in zip(meta, outs):
        groups.setdefault((m[0], m[3]['id'], m[7]), []).append((m, out))
    for (src_, rid, pv), items in groups.items():
        m0 = items[0][0]; r = m0[3]; shape = m0[1]; A, B = m0[5], m0[6]
        try: py = m0[4](r)
        except IndexError: py = 'IndexError'
        i = A[2](r); j = B[2](r) if B else None
        res = {}
        for m, out in items:
            prov = m[2]
            if 'driver_error' in out:
                ctx.count('strings:node-outside-evaluator:' + prov)
                # every AST of this stream is inside the evaluator on the unchanged tree: a new node kind means the emitted SQL changed
                ctx.divergence('the %s translator emits a node the dialect evaluator does not know for a string index / slice' % prov,
                               {'query': 'select((w.id, %s) for w in W)' % m[0]}, model=str(out)[:300], impl=None)
                continue
            if shape != 'index' and guard_class(DIALECT_NAME[prov], r['text'], A[1], B[1] if B else 'o', i, j):
                ctx.count('strings:outside-C25-guard:' + prov); continue
            if shape == 'index' and DIALECT_NAME[prov] in ('MySQL', 'Oracle') and i is not None and i < -len(r['text']):
                ctx.count('strings:outside-C25-guard:' + prov); continue
            res[prov] = out.get('ok') if 'ok' in out else 'error:' + str(out.get('error'))
            if prov == 'oracle' and res[prov] is None: res[prov] = 0 if shape == 'len-slice' else ''     # Oracle: '' is NULL
        if not res: continue
        ctx.count('strings:compared')
        # known: a constant / parameter stop -1 with start 0 or omitted is the 'stop omitted' sentinel (slice-stop-const-minus-one)
        sentinel = shape != 'index' and B is not None and B[1] in 'cp' and j == -1 and (A[1] == 'o' or (A[1] in 'cp' and i == 0))
        vals = set(json.dumps(v) for v in res.values())
        if len(vals) > 1:
            ctx.violation('the dialects compute different values for the same string expression on the same row (real ASTs, modelled backends)',
                          {'query': 'select((w.id, %s) for w in W)' % src_, 'row': r, 'pv': pv}, observed=res, expected={'python': py}, key='strings-dialects:%s' % src_)
        elif py != 'IndexError' and not sentinel and json.dumps(py) not in vals:
            ctx.violation('every dialect computes a value different from Python for a string expression', {'query': 'select((w.id, %s) for w in W)' % src_, 'row': r, 'pv': pv},
                          observed=res, expected={'python': py}, key='strings-python:%s' % src_)
    for db, W in dbs.values():
        try: db.disconnect()
        except Exception: pass


# ---------------------------------------------------------------- count() of composite-key entities: dialect statements on the same data

def run_counts(ctx):
    """`count(x)` of an entity with a composite primary key in a grouped query, reached through a many-to-many table (multi-hop) or a
    composite foreign key, with data where one entity is reached through several link rows of a group.  SQLite executes its own
    statement for real; the statement the real PostgreSQL translator + builder emit (offline provider) is executed on the SAME SQLite
    data after rewriting its row-value COUNT(DISTINCT (a, b)) into COUNT(DISTINCT a || x'1f' || b) — an emulation of PostgreSQL's
    documented semantics (identifiers are case-insensitive in SQLite, no parameters occur); Oracle's statement (COUNT(DISTINCT ROWID))
    runs on SQLite unchanged.  SQLite and PostgreSQL must agree with each other and with Python; Oracle disagreements are counted."""
    import re
    from pony.orm import Database, Required, Optional, Set, PrimaryKey, count
    rng = ctx.rng
    ponyutil.add_stubs()
    from pony.orm.tests.testutils import TestDatabase
    def mk(prov):
        db = Database() if prov == 'sqlite' else TestDatabase()
        class Group(db.Entity):
            id = PrimaryKey(int)
            students = Set('Student')
        class Course(db.Entity):
            name = Required(str)
            sem = Required(int)
            PrimaryKey(name, sem)
            students = Set('Student')
            lessons = Set('Lesson')
        class Room(db.Entity):                       # composite key, reached through an OPTIONAL reference
            building = Required(str)
            number = Required(int)
            PrimaryKey(building, number)
            students = Set('Student')
        class Animal(db.Entity):                     # composite key, with a subclass
            name = Required(str)
            year = Required(int)
            PrimaryKey(name, year)
        class Dog(Animal):
            keepers = Set('Student', reverse='dog')
            fans = Set('Student', reverse='pets')
        class Tutor(db.Entity):                      # simple key: the control case
            id = PrimaryKey(int)
            students = Set('Student')
        class Student(db.Entity):
            id = PrimaryKey(int)
            group = Required(Group)
            courses = Set(Course)
            room = Optional(Room)
            dog = Optional(Dog, reverse='keepers')
            pets = Set(Dog, reverse='fans')
            tutor = Optional(Tutor)
        class Lesson(db.Entity):
            id = PrimaryKey(int)
            course = Required(Course)
            room = Required(int)
        db.bind(prov, ':memory:' if prov != 'oracle' else 'user/pwd@host')
        if prov == 'sqlite': db.generate_mapping(create_tables=True)
        else: db.generate_mapping(check_tables=False)
        return db, dict(Group=Group, Course=Course, Student=Student, Lesson=Lesson, Room=Room, Animal=Animal, Dog=Dog, Tutor=Tutor, select=select, count=count, len=len)
    QUERIES = [
        ("select((g.id, count(c)) for g in Group for s in g.students for c in s.courses)", lambda G, C, S, L: [(g.id, len({c for s in g.students for c in s.courses})) for g in G if any(s.courses for s in g.students)]),
        ("select((l.room, count(l.course)) for l in Lesson)", lambda G, C, S, L: [(r, len({l.course for l in L if l.room == r})) for r in {l.room for l in L}]),
        ("select((g.id, count(g.students.courses)) for g in Group)", lambda G, C, S, L: [(g.id, len({c for s in g.students for c in s.courses})) for g in G]),
        ("select((s.id, count(c)) for s in Student for c in s.courses)", lambda G, C, S, L: [(s.id, len(s.courses)) for s in S if s.courses]),
        ("select((c.name, count(c)) for c in Course)", lambda G, C, S, L: [(n, sum(1 for c in C if c.name == n)) for n in {c.name for c in C}]),
        ("select((c.name, c.sem, count(c.students)) for c in Course)", lambda G, C, S, L: [(c.name, c.sem, len(c.students)) for c in C]),
        # a collection path ending in an OPTIONAL to-one reference / a subclass, target with a composite key, some references missing
        ("select((g.id, count(g.students.room)) for g in Group)", lambda G, C, S, L: [(g.id, len({s.room for s in g.students if s.room is not None})) for g in G]),
        ("select(g.id for g in Group if len(g.students.room) == 1)", lambda G, C, S, L: [(g.id,) for g in G if len({s.room for s in g.students if s.room is not None}) == 1]),
        ("select(g.id for g in Group if count(g.students.room) == 0)", lambda G, C, S, L: [(g.id,) for g in G if len({s.room for s in g.students if s.room is not None}) == 0]),
        ("select((g.id, count(g.students.dog)) for g in Group)", lambda G, C, S, L: [(g.id, len({s.dog for s in g.students if s.dog is not None})) for g in G]),
        ("select((g.id, count(g.students.pets)) for g in Group)", lambda G, C, S, L: [(g.id, len({p for s in g.students for p in s.pets})) for g in G]),
        ("select((s.id, count(s.pets)) for s in Student)", lambda G, C, S, L: [(s.id, len(s.pets)) for s in S]),
        ("select((g.id, count(g.students.tutor)) for g in Group)", lambda G, C, S, L: [(g.id, len({s.tutor for s in g.students if s.tutor is not None})) for g in G]),
        ("select((s.group.id, count(c)) for s in Student for c in s.courses if c.sem > 0)", lambda G, C, S, L: [(g.id, len({c for s in g.students for c in s.courses if c.sem > 0})) for g in G if any(c.sem > 0 for s in g.students for c in s.courses)]),
    ]
    others = {p: mk(p) for p in ('postgres', 'mysql', 'oracle')}
    for rd in range(ctx.scale(4, 30)):
        db, ns = mk('sqlite')
        with db_session:
            G = [ns['Group'](id=i) for i in (1, 2, 3)]
            C = [ns['Course'](name=n, sem=m) for n, m in rng.sample([('a', 1), ('a', 2), ('b', 1), ('b', 2)], rng.choice([2, 3, 4]))]
            R = [ns['Room'](building=b_, number=n_) for b_, n_ in rng.sample([('A', 1), ('A', 2), ('B', 1)], rng.choice([1, 2, 3]))]
            D = [ns['Dog'](name=n_, year=y_) for n_, y_ in rng.sample([('rex', 1), ('rex', 2), ('ace', 1)], rng.choice([1, 2, 3]))]
            ns['Animal'](name='cat', year=1)
            T_ = [ns['Tutor'](id=i) for i in (1, 2)]
            for i in range(rng.choice([3, 5, 7])):
                ns['Student'](id=i + 1, group=rng.choice(G[:2]), courses=rng.sample(C, rng.randint(1, len(C))),
                              room=rng.choice([None, None] + R + R[:1]), dog=rng.choice([None] + D), pets=rng.sample(D, rng.randint(0, len(D))), tutor=rng.choice([None] + T_))
            ns['Student'](id=90, group=G[2], courses=[])              # a group whose only student has no room, no dog, no tutor
            for i in range(rng.choice([3, 5, 8])):
                ns['Lesson'](id=i + 1, course=rng.choice(C[:2]), room=rng.choice([1, 1, 2]))
        with db_session:
            G_, C_, S_, L_ = (list(ns[n].select()) for n in ('Group', 'Course', 'Student', 'Lesson'))
            data = {'students (id, group, courses, room, dog, pets, tutor)': [(s.id, s.group.id, sorted(c.get_pk() for c in s.courses), s.room and s.room.get_pk(), s.dog and s.dog.get_pk(), sorted(x.get_pk() for x in s.pets), s.tutor and s.tutor.id) for s in S_], 'lessons (room, course)': [(l.room, l.course.get_pk()) for l in L_]}
            for qsrc, ref in QUERIES:
                exp = sorted(ref(G_, C_, S_, L_))
                ctx.case(['counts', qsrc, rd], kind='counts')
                res = {}
                try: res['sqlite'] = sorted((tuple(r) if isinstance(r, tuple) else (r,)) for r in eval(qsrc, ns))
                except Exception as ex: ctx.count('counts:sqlite:raises:' + type(ex).__name__)
                con = db.get_connection()
                for prov, (odb, ons) in others.items():
                    try:
                        with db_session:
                            sql = eval(qsrc, ons).get_sql()
                    except Exception as ex:
                        ctx.count('counts:%s:raises:%s' % (prov, type(ex).__name__)); continue
                    if prov == 'postgres':
                        sql2 = re.sub(r'case when \(([^()]*?), ([^()]*?)\) IS NULL then null else \(\1, \2\) end', r"(\1 || x'1f' || \2)", sql)
                        if 'case when (' in sql2 or '%(' in sql2: ctx.count('counts:postgres:statement-not-emulated'); continue
                    elif prov == 'mysql':
                        # COUNT(DISTINCT a, b) of MySQL skips a row when any of the expressions is NULL
                        sql2 = re.sub(r'COUNT\(DISTINCT ([^(),]+), ([^(),]+)\)', r"COUNT(DISTINCT \1 || x'1f' || \2)", sql)
                        if re.search(r'COUNT\(DISTINCT [^()]*,', sql2) or '%s' in sql2: ctx.count('counts:mysql:statement-not-emulated'); continue
                    else: sql2 = sql
                    try: res[prov] = sorted(tuple(r) for r in con.execute(sql2).fetchall())
                    except Exception as ex: ctx.count('counts:%s:emulation-fails:%s' % (prov, type(ex).__name__))
                ctx.count('counts:compared')
                core_res = {k: v for k, v in res.items() if k in ('sqlite', 'postgres', 'mysql')}
                if len({json.dumps(v) for v in core_res.values()}) > 1 or any(v != exp for v in core_res.values()):
                    ctx.violation('count() of a composite-key entity: SQLite, PostgreSQL / MySQL (their statements on the same data) and Python disagree',
                                  dict(data, query=qsrc), observed=core_res, expected={'python': exp}, key='count-composite-key:' + qsrc)
                if 'oracle' in res and res['oracle'] != exp:
                    ctx.count('counts:suspected:oracle-statement-differs'); ctx.extra.setdefault('suspected_oracle_count', {'query': qsrc, 'oracle statement on the same data': res['oracle'][:4], 'python': exp[:4]})
        db.disconnect()


# ---------------------------------------------------------------- correlated EXISTS and to-one joins on every dialect: the verified checker

def run_rel_checker(ctx):
    """`exists(e for e in p.es if COND)` / `not exists(…)` and conditions navigating `e.parent.<attr>`: the AST of the real sqlite /
    postgres / mysql translators goes to the verified checker with the dialect's own rules (ops checkexists / checkjoin).  Accepted on
    two dialects => by C01_exists_collection / C01_not_exists_collection / C01_join (proved for every dialect) both statements
    return the same parents / rows on every database."""
    from pony.orm import Database, Required, Optional, Set, exists as pony_exists
    rng = ctx.rng
    ponyutil.add_stubs()
    from pony.orm.tests.testutils import TestDatabase
    dbs = {}
    for prov, md in (('sqlite', 'sqlite'), ('postgres', 'pg'), ('mysql', 'mysql')):
        db = Database() if prov == 'sqlite' else TestDatabase()
        class P(db.Entity):
            k = Required(int); kn = Optional(int); nm = Required(str)
            es = Set('E')
        class E(db.Entity):
            a = Required(int); c = Required(int); n = Optional(int); m = Optional(int)
            b = Required(bool); nb = Optional(bool)
            s = Required(str); t = Optional(str); ns = Optional(str, nullable=True)
            parent = Required(P)
        db.bind(prov, ':memory:')
        if prov == 'sqlite': db.generate_mapping(create_tables=True)
        else: db.generate_mapping(check_tables=False)
        dbs[prov] = (db, P, E, md)
    PARENT = {'parent.k': ('int', False), 'parent.kn': ('int', True), 'parent.nm': ('str', False)}
    class JoinGen(Q.Gen):
        def leaf(self, ty, want_attr=False):
            r = self.rng
            if r.random() < 0.3:
                if ty == 'int': return ('attr', r.choice(['parent.k', 'parent.kn']))
                if ty == 'str': return ('attr', 'parent.nm')
            return Q.Gen.leaf(self, ty, want_attr)
    sch = Q.schema_json(); schj = dict(sch, attrs=dict(sch['attrs'], **{k: [v[0], v[1]] for k, v in PARENT.items()}))
    gen = Q.Gen(rng, 'frag'); jgen = JoinGen(rng, 'frag')
    Q.ATTRS.update(PARENT)
    reqs, meta = [], []
    try:
        for i in range(ctx.scale(60, 600)):
            join = i % 2 == 1
            e = (jgen if join else gen).expr(rng.choice([1, 2, 2, 3]))
            if join and not any(x[0] == 'attr' and x[1].startswith('parent.') for x in Q.subexprs(e)): continue
            params = Q.random_params(rng); src = Q.src(e)
            neg = rng.random() < 0.4
            qsrc = ('e.id for e in E if ' + src) if join else ('p.id for p in P if %sexists(e for e in p.es if %s)' % ('not ' if neg else '', src))
            for prov, (db, P, E, md) in dbs.items():
                ctx.case(['rel', prov, qsrc], kind='rel:' + prov)
                G = dict(params); G.update(P=P, E=E, exists=pony_exists)
                try:
                    with db_session:
                        conds = Q.norm_ast(select(qsrc, G)._translator.conditions)
                except Exception as ex:
                    ctx.count('rel:%s:raises:%s' % (prov, type(ex).__name__)); continue
                if join:
                    reqs.append({'op': 'checkjoin', 'dialect': md, 'schema': schj, 'expr': Q.to_json(e), 'sql': conds, 'child': 'e'})
                elif len(conds) == 1:
                    reqs.append({'op': 'checkexists', 'dialect': md, 'schema': sch, 'expr': Q.to_json(e), 'ast': conds[0], 'parent': 'p', 'child': 'e', 'pk': 'id', 'fk': 'parent'})
                else: continue
                meta.append((qsrc, prov, neg, join))
    finally:
        for k in PARENT: Q.ATTRS.pop(k, None)
    for db, P, E, md in dbs.values():
        try: db.disconnect()
        except Exception: pass
    if not ctx.driver.ok: return
    for (qsrc, prov, neg, join), out in zip(meta, ctx.driver('C02', reqs)):
        if out.get('accepted') and (join or out.get('negated') == neg): ctx.count('rel:checker-accepted:' + prov)
        elif out.get('frag'):
            ctx.divergence('the verified checker rejects the %s statement of a query with a correlated sub-query / a to-one join' % prov, {'query': qsrc}, model=out, impl=None)
        else: ctx.count('rel:checker-not-applicable:' + prov)


# ---------------------------------------------------------------- ordering comparisons of tuples (2, 3, 4 components)

def run_tuples(ctx):
    """`(x1, …, xn) < <= > >= (y1, …, yn)`, n = 2, 3, 4, operands = columns, constants, parameters (mixed).  SQLite has no row values:
    its real AST must be the verified expansion (op checktuple; C02_tuple_expansion / C02_tuple_checker_sound: lexicographic order for
    every n) and its REAL answer on data with equal prefixes is compared with the lexicographic order, which is what the row-value
    comparison `[OP, ROW …, ROW …]` the real PostgreSQL / MySQL translators emit denotes (shape checked)."""
    from pony.orm import Database, Required
    rng = ctx.rng
    ponyutil.add_stubs()
    from pony.orm.tests.testutils import TestDatabase
    dbs = {}
    for prov in ('sqlite', 'postgres', 'mysql'):
        db = Database() if prov == 'sqlite' else TestDatabase()
        class T(db.Entity):
            a = Required(int); b = Required(int); c = Required(int); d = Required(int)
        db.bind(prov, ':memory:')
        if prov == 'sqlite': db.generate_mapping(create_tables=True)
        else: db.generate_mapping(check_tables=False)
        dbs[prov] = (db, T)
    db, T = dbs['sqlite']
    rows = [tuple(rng.choice([0, 1, 1, 2]) for _ in range(4)) for _ in range(ctx.scale(24, 60))] + [(3, 1, 0, 0), (2, 1, 5, 0), (1, 1, 1, 1), (1, 2, 0, 2)]
    with db_session:
        for r in rows: T(a=r[0], b=r[1], c=r[2], d=r[3])
    OPS = {'<': lambda x, y: x < y, '<=': lambda x, y: x <= y, '>': lambda x, y: x > y, '>=': lambda x, y: x >= y}
    NAME = {'<': 'LT', '<=': 'LE', '>': 'GT', '>=': 'GE'}
    reqs, meta = [], []
    for _ in range(ctx.scale(40, 400)):
        n = rng.choice([2, 3, 3, 4]); op = rng.choice(list(OPS))
        params = {'pi': rng.choice([0, 1, 2]), 'pj': rng.choice([1, 2])}
        def operand(cols):
            k = rng.random()
            if k < 0.55:
                c = rng.choice(cols); return ('e.' + c, ['COLUMN', 'e', c], lambda r, c=c: r['abcd'.index(c)])
            if k < 0.8:
                v = rng.choice([0, 1, 2]); return (str(v), ['VALUE', v], lambda r, v=v: v)
            p = rng.choice(['pi', 'pj']); return (p, ['PARAM', p], lambda r, p=p: params[p])
        L = [operand('abcd') for _ in range(n)]; R = [operand('abcd') for _ in range(n)]
        if not any(x[1][0] == 'COLUMN' for x in L + R): L[0] = ('e.a', ['COLUMN', 'e', 'a'], lambda r: r[0])
        src = '(%s) %s (%s)' % (', '.join(x[0] for x in L), op, ', '.join(x[0] for x in R))
        exp = [i + 1 for i, r in enumerate(rows) if OPS[op](tuple(x[2](r) for x in L), tuple(x[2](r) for x in R))]
        ctx.count('tuples:size:%d' % n)
        for prov, (pdb, PT) in dbs.items():
            ctx.case(['tuples', prov, src], kind='tuples:' + prov)
            G = dict(params); G['T'] = PT
            try:
                with db_session:
                    q = select('e.id for e in T if ' + src, G)
                    conds = Q.norm_ast(q._translator.conditions)
                    got = sorted(q[:]) if prov == 'sqlite' else None
            except Exception as ex:
                ctx.count('tuples:%s:raises:%s' % (prov, type(ex).__name__)); continue
            if prov == 'sqlite':
                if got != exp:
                    bad = sorted(set(got) ^ set(exp))
                    ctx.violation('SQLite (expanded tuple comparison) disagrees with the lexicographic order that the row-value comparison of PostgreSQL / MySQL (and Python) denotes',
                                  {'query': 'select(e.id for e in T if %s)' % src, 'params': params, 'row (a, b, c, d)': rows[bad[0] - 1], 'sqlite statement': q.get_sql().split('WHERE')[-1].strip()},
                                  observed={'sqlite selects row': bad[0] in got}, expected={'python / row values select row': bad[0] in exp}, key='tuple-comparison:%d:%s' % (n, op))
                reqs.append({'op': 'checktuple', 'cmp': op, 'left': [x[1] for x in L], 'right': [x[1] for x in R], 'ast': conds[0] if len(conds) == 1 else ['AND'] + conds})
                meta.append(src)
            else:
                want = [[NAME[op], ['ROW'] + [x[1] for x in L], ['ROW'] + [x[1] for x in R]]]
                if conds != want:
                    ctx.divergence('the %s translator does not emit the row-value comparison for a tuple comparison' % prov, {'query': src}, model=want, impl=conds)
                else: ctx.count('tuples:row-value-shape-ok:' + prov)
                # the row-value comparison the dialect receives, evaluated as the lexicographic order on every row
                if len(conds) == 1 and len(conds[0]) == 3 and conds[0][0] in NAME.values() and conds[0][1][:1] == ['ROW'] and conds[0][2][:1] == ['ROW']:
                    def opval(node, r):
                        if node[0] == 'COLUMN': return r['abcd'.index(node[2])]
                        if node[0] == 'VALUE': return node[1]
                        if node[0] == 'PARAM': return params[node[1]]
                        raise ValueError(node)
                    pyop = OPS[{v_: k_ for k_, v_ in NAME.items()}[conds[0][0]]]
                    try:
                        sel = [i + 1 for i, r in enumerate(rows) if pyop(tuple(opval(x, r) for x in conds[0][1][1:]), tuple(opval(x, r) for x in conds[0][2][1:]))]
                    except ValueError: sel = None
                    if sel is not None and sel != exp:
                        bad = sorted(set(sel) ^ set(exp))
                        ctx.violation('the row-value comparison the %s translator emits selects other rows than SQLite / Python (lexicographic semantics)' % prov,
                                      {'query': 'select(e.id for e in T if %s)' % src, 'params': params, 'row (a, b, c, d)': rows[bad[0] - 1], 'ast': conds[0]},
                                      observed={prov + ' selects row': bad[0] in sel}, expected={'python selects row': bad[0] in exp}, key='tuple-row-value:%s:%d:%s' % (prov, n, op))
    for pdb, PT in dbs.values():
        try: pdb.disconnect()
        except Exception: pass
    if not ctx.driver.ok: return
    for src, out in zip(meta, ctx.driver('C02', reqs)):
        if out.get('accepted'): ctx.count('tuples:checker-accepted')
        else: ctx.divergence('the real SQLite AST of a tuple comparison is not the verified expansion (C02_tuple_expansion)', {'query': src}, model=out, impl=None)


# ---------------------------------------------------------------- date / time constants: inline literal vs bound parameter (SQLite)

def run_temporal_text(ctx):
    """For random date / datetime / time values (zero and non-zero microseconds, midnight): the REAL literal `SQLiteValue.__str__` writes
    and the REAL text `SQLite*Converter.py2sql` binds / stores are compared (a) with each other — the literal must be the quoted
    parameter text (C02_sqlite_inline_eq_param), (b) with the Lean model (C06's temporalStr, Model.Q.sqliteParamText), and (c) end to
    end: `e.at OP <inline constant>` and `e.at OP <parameter>` on real SQLite return the same rows at the boundary instants."""
    import datetime as dtm
    from pony.orm import Database, Required
    rng = ctx.rng
    db = Database()
    class TT(db.Entity):
        at = Required(dtm.datetime); d = Required(dtm.date); t = Required(dtm.time)
    db.bind('sqlite', ':memory:'); db.generate_mapping(create_tables=True)
    p = db.provider
    vals = [dtm.datetime(2020, 1, 1, 10, 0, 0), dtm.datetime(2020, 1, 1, 0, 0, 0), dtm.datetime(2020, 1, 1, 10, 0, 0, 1), dtm.datetime(1999, 12, 31, 23, 59, 59, 999999),
            dtm.date(2020, 1, 1), dtm.date(999, 2, 3), dtm.time(10, 0, 0), dtm.time(0, 0, 0), dtm.time(23, 59, 59, 5)]
    for _ in range(ctx.scale(20, 200)):
        k = rng.choice(['dt', 'dt', 'd', 't'])
        us = rng.choice([0, 0, 1, 500000, 999999])
        if k == 'dt': vals.append(dtm.datetime(rng.choice([1, 1970, 2020, 9999]), rng.randint(1, 12), rng.randint(1, 28), rng.choice([0, 10, 23]), rng.choice([0, 59]), rng.choice([0, 59]), us))
        elif k == 'd': vals.append(dtm.date(rng.choice([1, 1970, 2020, 9999]), rng.randint(1, 12), rng.randint(1, 28)))
        else: vals.append(dtm.time(rng.choice([0, 10, 23]), rng.choice([0, 59]), rng.choice([0, 59]), us))
    reqs, meta = [], []
    for v in vals:
        ctx.case(['temporal-text', repr(v)], kind='temporal-text')
        lit = p.sqlbuilder_cls(p, ['VALUE', v]).sql
        par = p.get_converter_by_py_type(type(v)).py2sql(v)
        if lit != "'%s'" % par:
            ctx.violation('on SQLite an inline constant and a bound parameter of the same date/time value denote different text (the column is compared as text)',
                          {'value': repr(v)}, observed={'inline literal': lit, 'parameter / stored text': par}, expected='literal == quoted parameter text',
                          key='sqlite-temporal-literal-vs-parameter:%s' % type(v).__name__)
        if isinstance(v, dtm.datetime): kind, f = 'datetime', [v.year, v.month, v.day, v.hour, v.minute, v.second, v.microsecond]
        elif isinstance(v, dtm.date): kind, f = 'date', [v.year, v.month, v.day]
        else: kind, f = 'time', [v.hour, v.minute, v.second, v.microsecond]
        reqs.append({'op': 'temporaltext', 'kind': kind, 'f': f}); meta.append((v, lit, par))
    # end to end
    base = dtm.datetime(2020, 1, 1, 10, 0, 0)
    with db_session:
        for x in (base, base + dtm.timedelta(microseconds=1), base - dtm.timedelta(microseconds=1), dtm.datetime(2020, 1, 1, 0, 0, 0)):
            TT(at=x, d=x.date(), t=x.time())
    with db_session:
        for col, cst, litsrc in (('at', base, 'datetime(2020, 1, 1, 10, 0, 0)'), ('at', dtm.datetime(2020, 1, 1), 'datetime(2020, 1, 1, 0, 0, 0)'), ('d', base.date(), 'date(2020, 1, 1)'), ('t', base.time(), 'time(10, 0, 0)'), ('t', dtm.time(0, 0), 'time(0, 0, 0)')):
            for op in ('==', '!=', '<', '<=', '>', '>='):
                G = dict(TT=TT, datetime=dtm.datetime, date=dtm.date, time=dtm.time, pv=cst)
                a = sorted(select('e.id for e in TT if e.%s %s %s' % (col, op, litsrc), G)[:])
                b = sorted(select('e.id for e in TT if e.%s %s pv' % (col, op), G)[:])
                ctx.case(['temporal-inline-vs-param', col, op, litsrc], kind='temporal-inline-vs-param')
                if a != b:
                    ctx.violation('the same comparison with an inline date/time constant and with a parameter returns different rows on SQLite',
                                  {'query': 'select(e.id for e in TT if e.%s %s %s)  vs  … %s pv' % (col, op, litsrc, op), 'pv': repr(cst)}, observed={'inline': a, 'parameter': b}, expected='equal',
                                  key='sqlite-temporal-literal-vs-parameter:%s' % type(cst).__name__)
    db.disconnect()
    if not ctx.driver.ok: return
    for (v, lit, par), out in zip(meta, ctx.driver('C02', reqs)):
        ctx.count('temporal-text:model-compared')
        if out.get('literal') != lit or out.get('param') != par:
            ctx.divergence('model text of a date/time literal / parameter differs from the real SQLite code', {'value': repr(v)}, model=out, impl={'literal': lit, 'param': par})


# ---------------------------------------------------------------- LIMIT / OFFSET of composed windows, every dialect

def _level_pair(form, a, b):
    """the (limit, offset) a form denotes (Query.limit / __getitem__ / page), and its Python reading on a list"""
    if form == 'limit': return (a, b), (lambda R: (R[(b or 0):] if a is None else R[(b or 0):][:a]))
    if form == 'slice':
        st = a or 0
        pair = (None, st) if b is None else ((0, None) if st >= b else (b - st, st))
        if b is None and st == 0: pair = (None, None)
        return pair, (lambda R: R[a:b])
    if form == 'page': return (b, (a - 1) * b), (lambda R: R[(a - 1) * b:(a - 1) * b + b])
    raise ValueError(form)


def _level_src(form, a, b):
    return {'limit': '.limit(%r, offset=%r)' % (a, b), 'slice': '[%s:%s]' % ('' if a is None else a, '' if b is None else b), 'page': '.page(%r, %r)' % (a, b)}[form]


def _parse_clause(prov, sql):
    """the LIMIT / OFFSET numbers of a statement's text -> clause JSON for the driver, or (None, why)"""
    import re
    flat = ' '.join(sql.split())
    if prov == 'oracle':
        le = re.findall(r'ROWNUM <= (\S+)', flat); gt = re.findall(r'"row-num" > (\S+)', flat)
        if len(le) > 1 or len(gt) > 1 or re.search(r'\bLIMIT\b', flat): return None, 'more than one ROWNUM wrapper / a LIMIT keyword'
        if not le and not gt: return {'kind': 'absent'}, None
        try: return {'kind': 'rownum', 'le': int(le[0]) if le else None, 'gt': int(gt[0]) if gt else None}, None
        except ValueError: return None, 'non-numeric ROWNUM bound'
    ms = re.findall(r'\bLIMIT\s+(\S+)(?:\s+OFFSET\s+(\S+))?', flat)
    if len(ms) > 1 or 'ROWNUM' in flat: return None, 'more than one LIMIT clause'
    if not ms: return ({'kind': 'absent'}, None) if 'OFFSET' not in flat else (None, 'OFFSET without LIMIT')
    lim, off = ms[0]
    try: return {'kind': 'limit', 'lim': None if lim.lower() == 'null' else int(lim), 'off': int(off) if off else None}, None
    except ValueError: return None, 'non-numeric LIMIT / OFFSET'


WINDOW_PROBES = [
    [('limit', 3, None), ('slice', 5, 7)], [('limit', 3, 2), ('limit', 2, 5)], [('limit', 1, None), ('slice', 2, 3)], [('limit', 3, None), ('limit', None, 3)],
    [('limit', 3, None), ('limit', None, 4)], [('limit', 4, 2), ('limit', 2, 1)], [('limit', 4, 2), ('limit', 3, 4)], [('limit', 4, 1), ('page', 2, 3)],
    [('limit', 4, 1), ('page', 3, 2)], [('limit', 5, 1), ('limit', 5, 1), ('limit', 1, 1)], [('limit', 5, 1), ('limit', 2, 4), ('limit', 3, 1)],
    [('limit', 5, 1), ('limit', None, 6), ('slice', None, 2)], [('limit', 0, None)], [('slice', 2, 2)], [('page', 3, 0)], [('limit', None, 4)], [('slice', 3, None)],
    [('limit', None, 2), ('limit', None, 3)], [('limit', None, 2), ('page', 1, 4), ('page', 2, 1)], [('page', 2, 4), ('slice', 1, 2)], [('page', 1, 3), ('slice', 5, 7)], [('page', 2, 3), ('page', 3, 2)], [('limit', 20, 8), ('limit', 20, 8)],
    [('limit', None, 0)], [('limit', None, 0), ('limit', None, 0)], [('limit', 3, 0)], [('page', 1, 3)], [('limit', None, 0), ('slice', 0, None)], [('limit', 4, 0), ('limit', None, 0)],
]


def run_windows(ctx):
    """Composed LIMIT / OFFSET windows (limit-then-slice, slice-then-limit, page of a limited query, three levels) on every dialect.
    The REAL translator + builder of each provider produce the statement; its LIMIT / OFFSET numbers (Oracle: ROWNUM bounds) are read
    from the text and given to the Lean model (op window): (a) what the clause MEANS on that backend (a negative LIMIT is 'no limit' on
    SQLite and an error on PostgreSQL / MySQL) must be the Python windows applied one after another — violation otherwise;
    (b) the clause must be the model's clause for the combined pair (C02_window_dialects) — divergence otherwise.  SQLite executes the
    real forms (q.limit / q[a:b] / q.page over select(x for x in <limited query>)) and its answer must equal the Python list.
    Any exception of the real code on these valid inputs is a verdict, not a crash."""
    from pony.orm import Database, Required, PrimaryKey
    from pony.orm.core import TranslationError
    rng = ctx.rng
    ponyutil.add_stubs()
    from pony.orm.tests.testutils import TestDatabase
    N = 10
    dbs = {}
    for prov, _ in PROVIDERS:
        db = Database() if prov == 'sqlite' else TestDatabase()
        class P(db.Entity):
            id = PrimaryKey(int)
            k = Required(int)
        db.bind(prov, ':memory:'); db.generate_mapping(create_tables=(prov == 'sqlite'), check_tables=False)
        dbs[prov] = (db, P)
    with db_session:
        for i in range(1, N + 1): dbs['sqlite'][1](id=i, k=i % 3)
    ids = list(range(1, N + 1))
    vals = [None, 0, 1, 2, 3, 5, 8, 20]
    def rand_level(last):
        # q[a:b] fetches at once and a fetched, non-empty result is a plain tuple for select(): only the lazy forms can be iterated again
        f = rng.choice(['limit', 'limit', 'slice', 'slice', 'page'] if last else ['limit', 'limit', 'page'])
        if f == 'limit':
            a, b = rng.choice(vals), rng.choice(vals)
            if a is None and b is None: a = rng.choice(vals[1:])
            return (f, a, b)
        if f == 'slice':
            a, b = rng.choice(vals), rng.choice(vals)
            return (f, a, b)
        return (f, rng.choice([1, 1, 2, 3, 4]), rng.choice([0, 1, 2, 3, 5]))
    chains = [list(c) for c in WINDOW_PROBES] + [[rand_level(i + 1 == n) for i in range(n)] for n in (rng.choice([1, 2, 2, 2, 3, 3]) for _ in range(ctx.scale(120, 1200)))]
    reqs, meta = [], []
    for chain in chains:
        proj = rng.choice(['p', 'p.id'])
        pairs, expected = [], ids
        for f, a, b in chain:
            pr, rd = _level_pair(f, a, b); pairs.append(pr); expected = rd(expected)
        src = 'select(p for p in P).order_by(P.id)'
        for i, (f, a, b) in enumerate(chain):
            src += _level_src(f, a, b)
            if i + 1 < len(chain): src = 'select(%s for p in %s)' % (proj if i + 2 == len(chain) else 'p', src)
        inp = {'query': src, 'levels': [list(x) for x in chain], 'ids': ids}
        ctx.case(['window', src], kind='window:%d-level' % len(chain))
        for prov, _ in PROVIDERS:
            db, P = dbs[prov]
            got = sql = None
            try:
                with db_session:
                    q = select(p for p in P).order_by(P.id)
                    for i, (f, a, b) in enumerate(chain):
                        last = i + 1 == len(chain)
                        l, o = pairs[i]
                        if prov == 'sqlite':
                            if last: db._dblocal.last_sql = None
                            r = q.limit(a, offset=b) if f == 'limit' else (q[a:b] if f == 'slice' else q.page(a, b))
                            if last:
                                got = [x if isinstance(x, int) else x.id for x in r]
                                sql = db.last_sql or q._construct_sql_and_arguments(l, o)[0]      # the statement that was executed, if one was
                        else:
                            if last: sql = q._construct_sql_and_arguments(l, o)[0]
                            else: r = q.limit(l, offset=o) if (l is not None or o is not None) else q
                        if not last:
                            q = select(p for p in r) if (i + 2 < len(chain) or proj == 'p') else select(p.id for p in r)
            except (TranslationError, NotImplementedError) as e:
                ctx.count('window:refused:%s' % prov)
                ctx.divergence('the real code refuses a composed window the model covers', dict(inp, dialect=prov), model=expected, impl='%s: %s' % (type(e).__name__, e))
                continue
            except Exception as e:
                ctx.violation('composing LIMIT / OFFSET windows raises on %s; the Python reading is a plain list' % DIALECT_NAME[prov], dict(inp, dialect=prov),
                              observed='%s: %s' % (type(e).__name__, e), expected=expected, key='window-raises:%s' % type(e).__name__)
                continue
            flat = ' '.join((sql or '').split())
            if prov == 'sqlite' and got != expected:
                ctx.violation('a query over composed LIMIT / OFFSET windows does not return the Python windows applied one after another (SQLite, executed)',
                              dict(inp, sql=flat), observed=got, expected=expected,
                              key='window-answer:sqlite:%s' % ('negative-limit' if ' LIMIT -' in flat and ' LIMIT -1 ' not in flat + ' ' else 'wrong-window'))
            clause, why = _parse_clause(prov, sql or '')
            if clause is None:
                ctx.count('window:statement-shape-unmodelled:%s' % prov)
                ctx.divergence('the statement of a composed window has a shape the clause model does not cover: %s' % why, dict(inp, dialect=prov, sql=flat), model='one LIMIT clause / one pair of ROWNUM wrappers', impl=flat)
                continue
            if any(isinstance(clause.get(k), int) and clause[k] < 0 for k in ('off', 'le', 'gt')):
                ctx.violation('the %s statement of a composed window carries a negative OFFSET / ROWNUM bound' % DIALECT_NAME[prov], dict(inp, dialect=prov, sql=flat),
                              observed=clause, expected={'rows': expected}, key='window-clause:%s:negative-offset' % prov)
                continue
            reqs.append({'op': 'window', 'dialect': prov, 'levels': [list(x) for x in pairs], 'n': N, 'clause': clause}); meta.append((inp, prov, flat, clause, expected))
    for db, _ in dbs.values():
        try: db.disconnect()
        except Exception: pass
    if not ctx.driver.ok: return
    for (inp, prov, flat, clause, expected), out in zip(meta, ctx.driver('C02', reqs)):
        ctx.count('window:clause-checked:%s' % prov)
        if 'error' in out or 'expected' not in out:
            ctx.divergence('the window model rejects the request', dict(inp, dialect=prov), model=out, impl=clause); continue
        if out['expected'] != expected:
            ctx.divergence('the model of q.limit / q[a:b] / q.page as (limit, offset) pairs differs from the Python reading of the forms', inp, model=out['expected'], impl=expected); continue
        if out['real_meaning'] != expected:
            lim = clause.get('lim')
            if prov == 'oracle' and clause['kind'] == 'absent' and out['combined'][0] == 0: key = 'oracle-limit-zero-unrestricted'
            elif isinstance(lim, int) and lim < 0: key = 'window-clause:%s:negative-limit' % prov
            else: key = 'window-clause:%s:wrong-window' % prov
            ctx.violation('the LIMIT / OFFSET the %s statement carries does not mean the Python window on that backend%s' % (DIALECT_NAME[prov],
                              ' (a negative LIMIT: no limit on SQLite, an error on PostgreSQL / MySQL)' if isinstance(lim, int) and lim < 0 else ''),
                          dict(inp, dialect=prov, sql=flat, clause=clause),
                          observed={'rows the backend returns (documented semantics; null = statement rejected)': out['real_meaning']}, expected=expected, key=key)
        elif clause != out['model_clause']:
            ctx.divergence('the LIMIT / OFFSET clause of the real statement differs from the model clause (same meaning)', dict(inp, dialect=prov, sql=flat), model=out['model_clause'], impl=clause)


def _nodes(ast):
    if isinstance(ast, list):
        if ast and isinstance(ast[0], str) and ast[0].isupper(): yield ast[0]
        for x in ast:
            for n in _nodes(x): yield n


def replay(ctx, data):
    run(ctx)
